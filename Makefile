# Builds the simulation engines from /repo's *current working tree*.
REPO ?= /repo
B ?= build
CXX = ccache g++
SAN_DRV ?= -fsanitize=address -fsanitize=signed-integer-overflow,shift,bounds,integer-divide-by-zero,float-cast-overflow -fno-sanitize-recover=all
SAN_IO ?= -fsanitize=address,undefined,float-cast-overflow -fno-sanitize-recover=undefined,float-cast-overflow
DEFS = -DNDEBUG -DAMPL_MP_VERIF -DMP_DATE=20240320 -DMP_SYSINFO="\"Linux x86_64\"" -DMP_USE_ATOMIC -DMP_USE_HASH -DMP_USE_UNIQUE_PTR
# src/expr-info.cc and nl-writer2/include/mp/nl-opcodes.h are generated (git-ignored) files of ampl/mp's own build
# (gen-expr-info).  A built tree has them; a bare checkout (git worktree) does not: then they are generated into $(B)/gen.
HAVE_GEN := $(and $(wildcard $(REPO)/src/expr-info.cc),$(wildcard $(REPO)/nl-writer2/include/mp/nl-opcodes.h))
EXPR_INFO_SRC := $(if $(HAVE_GEN),$(REPO)/src/expr-info.cc,$(B)/gen/src/expr-info.cc)
GEN_DEP := $(if $(HAVE_GEN),,$(B)/gen/src/expr-info.cc)
INC = -I$(REPO)/include -I$(REPO)/src -I$(REPO)/nl-writer2/include -I$(B)/gen/include -Isim/core -Isim
COMMON = -std=c++17 -O1 -g1 -fno-omit-frame-pointer -w $(DEFS) $(INC)

MP_SRCS = format.cc posix.cc expr.cc nl-reader.cc option.cc os.cc problem.cc rstparser.cc \
  sol.cc solver.cc sp.cc std_constr.cc utils_file.cc utils_string.cc utils_clock.cc expr-info.cc \
  mp/flat/encodings.cpp mp/flat/piecewise_linear.cpp
NLW_SRCS = nl-writer2.cc nl-solver.cc nl-utils.cc dtoa.cc nl-model-c.cc nl-solver-c.cc
# the repository's own sample driver (solvers/visitor), second driver party of drvsim (main.cc and model-mgr-with-std-pb.cc
# are replaced by the harness)
VIS_SRCS = visitorbackend.cc visitorcommon.cc visitormodelapi.cc visitor-modelapi-connect.cc

CORE_SRCS = sim/core/sim.cc sim/core/shim.cc sim/core/worker.cc
DRV_SRCS = $(wildcard sim/drvsim/*.cc) $(wildcard sim/gen/*.cc) $(wildcard sim/oracle/*.cc)
IO_SRCS = $(wildcard sim/iosim/*.cc) $(wildcard sim/gen/*.cc) $(wildcard sim/oracle/*.cc)

obj = $(patsubst %,$(B)/$(1)/%.o,$(2))

DRV_OBJS = $(call obj,drv,$(addprefix mp/,$(MP_SRCS)) $(addprefix nlw/,$(NLW_SRCS)) $(addprefix vis/,$(VIS_SRCS)) $(CORE_SRCS) $(DRV_SRCS))
IO_OBJS = $(call obj,io,$(addprefix mp/,$(MP_SRCS)) $(addprefix nlw/,$(NLW_SRCS)) $(CORE_SRCS) $(IO_SRCS))

all: $(B)/drvsim $(B)/iosim
drvsim: $(B)/drvsim
iosim: $(B)/iosim

$(B)/drvsim: $(DRV_OBJS)
	@g++ $(SAN_DRV) -rdynamic -o $@ $^ -ldl
$(B)/iosim: $(IO_OBJS)
	@g++ $(SAN_IO) -rdynamic -o $@ $^ -ldl

$(B)/gen/src/expr-info.cc:
	@mkdir -p $(B)/gen/src $(B)/gen/include/mp
	@g++ -std=c++17 -w $(DEFS) -I$(REPO)/include -I$(REPO)/src $(REPO)/src/gen-expr-info.cc $(REPO)/src/format.cc $(REPO)/src/posix.cc -o $(B)/gen/gen-expr-info
	@$(B)/gen/gen-expr-info $(B)/gen/src/expr-info.cc $(B)/gen/include/mp/nl-opcodes.h
$(DRV_OBJS) $(IO_OBJS): | $(GEN_DEP)
$(B)/drv/mp/expr-info.cc.o: $(EXPR_INFO_SRC) FORCE
	@mkdir -p $(dir $@)
	@$(CXX) $(COMMON) $(SAN_DRV) -MMD -MP -c $< -o $@
$(B)/io/mp/expr-info.cc.o: $(EXPR_INFO_SRC) FORCE
	@mkdir -p $(dir $@)
	@$(CXX) $(COMMON) $(SAN_IO) -MMD -MP -c $< -o $@

# ---- drv flavour
$(B)/drv/mp/%.o: $(REPO)/src/% FORCE
	@mkdir -p $(dir $@)
	@$(CXX) $(COMMON) $(SAN_DRV) -MMD -MP -c $< -o $@
$(B)/drv/nlw/%.o: $(REPO)/nl-writer2/src/% FORCE
	@mkdir -p $(dir $@)
	@$(CXX) $(COMMON) $(SAN_DRV) -MMD -MP -c $< -o $@
$(B)/drv/vis/%.o: $(REPO)/solvers/visitor/% FORCE
	@mkdir -p $(dir $@)
	@$(CXX) $(COMMON) -I$(REPO)/solvers/visitor $(SAN_DRV) -MMD -MP -c $< -o $@
	@objcopy --weaken $@    # mp's converter headers define some non-inline functions: a program normally has one such TU, drvsim has two
$(B)/drv/sim/%.o: sim/% FORCE
	@mkdir -p $(dir $@)
	@$(CXX) $(COMMON) $(SAN_DRV) -MMD -MP -c $< -o $@
# ---- io flavour
$(B)/io/mp/%.o: $(REPO)/src/% FORCE
	@mkdir -p $(dir $@)
	@$(CXX) $(COMMON) $(SAN_IO) -MMD -MP -c $< -o $@
$(B)/io/nlw/%.o: $(REPO)/nl-writer2/src/% FORCE
	@mkdir -p $(dir $@)
	@$(CXX) $(COMMON) $(SAN_IO) -MMD -MP -c $< -o $@
$(B)/io/sim/%.o: sim/% FORCE
	@mkdir -p $(dir $@)
	@$(CXX) $(COMMON) $(SAN_IO) -MMD -MP -c $< -o $@

# Always re-run the compile command: ccache decides (by preprocessed content) whether anything
# changed, so edits anywhere under /repo are picked up without trusting timestamps.
FORCE:
.PHONY: all drvsim iosim FORCE clean
clean:
	rm -rf $(B)
