"""Static per-property configuration of the checks (engine, budgets, evidence texts)."""

COMPONENTS = {
    'drvsim': {
        'real (compiled from /repo working tree, -DNDEBUG -DAMPL_MP_VERIF, ASan + UBSan subset)': [
            'BackendApp / RunBackendApp', 'SignalHandler', 'SolverAppOptionParser, BasicSolver option machinery',
            'NLFileReader + NLReader + NLProblemBuilder', 'mp::Problem', 'ProblemFlattener', 'FlatConverter + all redefinitions (MIPFlatConverter)',
            'ValuePresolver and links', 'SolutionChecker', 'StdBackend / MIPBackend / FlatBackend', 'NameProvider / .col .row reading',
            'WriteSolFile, fmt::File/BufferedFile, MemoryMappedFile', 'graph export (MiniJSONWriter, FileAppender)'],
        'stub': ['solver: SimModelAPI (accepts every flat constraint type, records) + SimBackend (answers scripted by the scenario)',
                 'AMPL: the scenario generator writes the NL/.col/.row files and reads the .sol with an independent strict parser'],
        'shim (interposed libc entry points; pass through on a private tmpfs scratch dir unless a fault is scheduled)': [
            'open/close/read/fstat/mmap/write/writev', 'fopen (-> fopencookie stream) / fopen64', 'getenv (exact-size heap copies)',
            'clock_gettime (simulated clock)', '_exit/exit (recorded, unwinds to the harness)', 'system', 'operator new (per-run cap)',
            'signals: real raise() at simulator-chosen yield points'],
    },
    'iosim': {
        'real (compiled from /repo working tree, -DNDEBUG, ASan + full UBSan)': [
            'NLW2 writer (text + binary), NLFeeder interface, NLModel / NLFeeder_Easy, NLSolver, SOLReader2, SOLHandler_Easy',
            'mp NL reader (ReadNLString, NLFileReader<File>, ReadNLFile), mp::Problem builder', 'mp::WriteSolFile'],
        'stub': ['storage between writer and reader (simulated disk with fault plan)', 'consumer handlers (recording checkers)'],
        'shim': ['fopen -> fopencookie stream with read/write/close faults', 'open/read/fstat/mmap faults', 'operator new cap'],
    },
}

_DRV_ASSUME = [
    'solver stub answers are scripted: properties are decided for the driver/library code, not for any real solver',
    'signals are delivered only at named yield points (every shim call, stub callback and guarded hook point), not between arbitrary instructions',
    'glibc stdio semantics over fopencookie streams equal those over regular files for buffering / error reporting',
    'oracle-side strict .sol and JSON parsers and the generator\'s own NL emitter are trusted',
    'only C/POSIX locales exist in this image: locale faults are not injected',
]

_IO_ASSUME = [
    'the storage between writer and reader is the simulated disk (a private tmpfs directory plus the libc shim); '
    'faults are those of the fault plan (open/fstat/read/mmap/close, fopen/fread/fwrite/fclose), not real device errors',
    'allocation cap: a single allocation above 256 MiB throws std::bad_alloc instead of exhausting the machine '
    '(hostile counts then surface as bad_alloc, which the oracles accept)',
    'trusted base: the generator IR and its own text/binary NL emitter (sim/iosim/nlgen.cc), the recording handlers '
    '(sim/iosim/nlrec.h, solread.cc), the independent operator table (sim/iosim/nlops.h), the own .sol emitters '
    '(sim/iosim/solgen.cc; the text one is cross-checked against the real writer on every generated scenario)',
    'inputs are bounded: models <= 8 variables / 6 algebraic + 3 logical constraints / 3 objectives, expression depth <= 4, '
    'files <= ~16 KiB (page-multiple family up to 3 pages); deep-recursion stack exhaustion on megabyte inputs is not explored',
    'files that change while being read (size reported by fstat differs from the bytes delivered) are a separate batch judged '
    'only for "terminates without memory error"; size lies that would make the kernel raise SIGBUS/SEGV on the mapping are not generated',
    'UBSan prints to the worker\'s stderr (it ignores log_path in this toolchain), so iosim does not capture fd 2 during runs',
    'only C/POSIX locales exist in this image: locale faults are not injected',
]


PROPS = {
    'C15': dict(
        engine='drvsim', level='exploration',
        quick=dict(count=24000), thorough=dict(budget_s=420),
        shrink_paths=[['signals'], ['faults'], ['script', 'registrations']],
        rule='scenario = whole driver run on a tiny LP/MIP + registration pattern of the solver stub + schedule of 1..3 SIGINT/SIGTERM '
             'at yield points (enumerated prefix: every single yield point x 2 signals, all ordered pairs and triples of SignalHandler hook points; '
             'then seeded sampling incl. faults on the handler\'s write, some of which persist (a full pipe); three driver parties: the StdBackend stub, a BasicBackend driver '
             'whose application object runs 1..3 times, a StdBackend driver with a do-nothing model manager whose backend is handed the model 1..3 times; a registration pattern in which the '
             'driver opens a new solver session per option parse and registers the session in use). Non-trivial = at least one signal was actually delivered; '
             'distinct = distinct (delivery points, signal numbers, registration state at delivery, exit) trace',
        assumptions=_DRV_ASSUME,
    ),
    'C10': dict(
        engine='drvsim', level='exploration', finite=True,
        quick=dict(count=41228), thorough=dict(count=41228),
        shrink_paths=[],
        rule='complete enumeration: every integer solve code -200..999 x {primal, dual, objective value present/absent} (8 patterns) x {-AMPL, wantsol=1} '
             'answered by the solver stub in a whole driver run on a tiny LP (even codes) / MIP (odd codes) with alg:rays=3 alg:iisfind=1 alg:kappa=2, '
             'plus: 16 runs of the -! switch under 8 sets of driver registrations; codes 0..999 through StdBackend::Abort from 2 call sites x 2 modes; sol:chk:fail (8 + every code); '
             'every code x mip:round=1..7; every code x 6 failing result queries of the solver (IIS finder, GetIIS, rays, basis, sensitivity); 200 AMPLS C-API sessions '
             '(several reports of one solver object, a third of them ending in the coded error 150). Every case is non-trivial (distinct = (code, pattern, mode, block)); the only injected faults are exceptions of the solver party',
        assumptions=_DRV_ASSUME + ['documented class table transcribed by hand from doc/source/features-guide.rst',
                                   'classification is observed through documented effects (objective in message, .unbdd/.dunbdd ray requests, IIS request, .kappa suffix); '
                                   'where the documentation is silent (100-199 objective, 450-469 rays/IIS, 300-399 IIS) either behaviour is accepted'],
    ),
    'C09': dict(
        engine='drvsim', level='exploration',
        quick=dict(count=48000), thorough=dict(budget_s=480),
        shrink_paths=[['faults'], ['signals'], ['script', 'transfers']],
        rule='scenario = seeded NL model (valid of every operator mix / infeasible bounds / unsupported operators / unbounded vars / damaged or missing file) '
             '+ names files (absent/full/short/CRLF/torn) + option assignments spread over mp_options, simdrv_options and argv (valid, unknown, ill-typed) '
             '+ invocation mode (-AMPL, -s, wantsol=k, -e) + solver-stub answer (status, vector presence/length, NaN/Inf, exceptions, intermediate solutions) '
             '+ 0..3 faults on the I/O path (.sol fopen/flush/fclose, .nl open/fstat/mmap/close, names, graph, option file, allocation). '
             'Non-trivial = any fault scheduled or fired, or label other than LINEAR_CLEAN; distinct = (fault/exit trace, label, outcome class, cause class, solve code, model feature set)',
        assumptions=_DRV_ASSUME + ['only the label LINEAR_CLEAN without faults is strict (must end in a .sol carrying the solver stub\'s code); every other label accepts '
                                   'a well-formed .sol (A), a .sol reporting the failure with code 200-299/500-999 (B1) or no .sol + diagnostic + non-zero status (B2)'],
    ),
    'C12': dict(
        engine='drvsim', level='exploration',
        quick=dict(count=40000), thorough=dict(budget_s=360),
        shrink_paths=[['faults']],
        rule='scenario = seeded NL model with K in 0..3 tagged objectives (linear tags 20000(i+1)+j, constant 800000.5+1000i, nonlinear tag 700000+1000i in shapes that survive '
             'flattening) x objno absent / 0..K+1 given under any of its names in any option source x multiobj 0/1 x acceptance profile x cvt:quadobj; whole driver run, '
             'the solver stub records every objective and constraint it receives. Non-trivial = every run; distinct = (mode, objno class, K, delivered?, model feature set)',
        assumptions=_DRV_ASSUME + ['an explicitly given objno selects single-objective mode even with multiobj=1 (BasicSolver::multiobj); the multi-objective clause is judged only when objno is not given',
                                   'tag detection scans every number the stub received (objective terms, variable bounds, constraint serialisations); tags are spaced so that derived bounds cannot collide',
                                   'binary NL input is not generated by drvsim (text only); the NL reader\'s binary path is exercised by iosim'],
    ),
    'C04': dict(
        engine='drvsim', level='exploration',
        quick=dict(count=40000), thorough=dict(budget_s=480),
        shrink_paths=[['script', 'transfers'], ['faults']],
        rule='scenario = seeded NL model (linear rows of all four shapes with unique coefficient tags, quadratic / nonlinear / logical items that are converted) x acceptance profile '
             '(acc:linrange=0 / acc:quadrange=0 over-represented) x input suffixes (priority, lazy, sstatus) and in-bounds initial primal/dual values x solver answer with unique tags '
             '(primal, dual per group, basis, IIS, full/none/long vectors) x a history of 3..8 direct transfers through the real ValuePresolver entry points with the first repeated last. '
             'Oracle matches original linear rows to delivered rows by content (direct or equality+slack). Non-trivial = model delivered and solved; distinct = (match kinds, answer shape, status, features, delivered size)',
        assumptions=_DRV_ASSUME + ['first n delivered variables are the NL variables in order (ModelAPI contract)', 'range->slack mapping as documented in include/mp/flat/redef/std/range_con.h',
                                   'vectors shorter than the delivered model are not injected (outside the stated quantifier); an absent and an empty value group are treated as equal'],
    ),
    'C19': dict(
        engine='drvsim', level='exploration',
        quick=dict(count=40000), thorough=dict(budget_s=420),
        shrink_paths=[['faults']],
        rule='scenario = seeded NL model with names (some containing quotes, backslashes, tabs) x .col/.row present / absent / shorter than the model / CRLF / .col only '
             'x cvt:names 0..3 under any of its synonyms in any option source x acceptance profile; whole driver run, names observed at the solver stub '
             '(AddVariables pnames, name() of every constraint and objective). Non-trivial = every run; distinct = (names mode, files mode, feature set, delivered model size)',
        assumptions=_DRV_ASSUME + ['SOS sets declared through .sosno/.ref suffixes have no name of their own: their generated SOS1_<n>_/SOS2_<n>_ names are accepted',
                                   'a names file whose first line is empty or whose last line is torn is malformed input and not judged here (C09 covers the diagnosis)',
                                   'derived = the name extends (has as prefix) the name of some original variable, constraint, logical constraint or objective'],
    ),
    'C20': dict(
        engine='drvsim', level='exploration',
        quick=dict(count=30000), thorough=dict(budget_s=420),
        shrink_paths=[['faults']],
        rule='scenario = seeded NL model (names with characters needing JSON escaping in 60%, infinite bounds in 40%) x acceptance profile x cvt:names x writegraph option under both '
             'names; whole driver run; the JSONL file left on the simulated disk is parsed line by line with a strict JSON parser and cross-checked against the constraints, variables '
             'and objectives the solver stub received in the same run (final set == delivered multiset by content; every auxiliary variable is the destination of a link record). '
             'History: in 15% the export file exists before the run (regular file or symbolic link to an earlier export); 1.2% big models (1050..1750 appended range rows). Non-trivial = every run; distinct = (names?, delivered?, features, model size)',
        assumptions=_DRV_ASSUME + ['strict JSON parser in sim/core/json.h (no bare inf/nan, escapes validated, control characters rejected)',
                                   'link node class names: src_vars()/src_cons()/src_objs()/dest_vars()/dest_objs()/dest_cons(g) or a CON_TYPE; dest_cons(g) ranges are not bounded by the oracle'],
    ),
}

PROPS['C11'] = dict(
    engine='drvsim', level='exploration',
    quick=dict(count=60000), thorough=dict(budget_s=360),
    shrink_paths=[['sources', 'mp_options'], ['sources', 'simdrv_options'], ['sources', 'argv'], ['sources', 'mydrv_options'], ['sources', 'other_options']],
    rule='scenario = history of option sources (mp_options, <exe>_options for 5 exe path shapes incl. .exe/.app and directories, <solver>_options, argv) each a sequence of '
         'assignment tokens from a grammar (name or inline / out-of-line / wildcard synonym in random letter case; "=", " = ", "= " or blank; int, real, plain or quoted string, '
         'flag, list, wildcard key; name=?; unknown names; values given to a flag; integer literals beyond int) - 30% "totality" scenarios add torn / hostile tokens '
         '(unterminated quotes, 64 KiB tokens, bytes >= 0x80, missing values) and are judged only for termination + memory safety. Texts are served by the getenv shim from '
         'exact-size heap copies under ASan; the real BasicSolver::ParseOptions of a freshly built backend runs with the throwing or a recording error handler. '
         'Oracle = reference map updated token by token in source order. Non-trivial = at least one source; distinct = (mode, sources, token kinds and options)',
    assumptions=_DRV_ASSUME + ['ill-typed values (intopt=abc, 12abc) are generated only in the totality batch: the statement fixes no outcome for them',
                               'a std::exception (e.g. logic_error for an empty option name) counts as a reported error in the totality batch',
                               'string values on the command line are the rest of the argv element verbatim (FROM_COMMAND_LINE semantics)'],
)


PROPS['C08'] = dict(
    engine='drvsim', level='exploration',
    quick=dict(count=40000), thorough=dict(budget_s=420),
    shrink_paths=[['suffixes'], ['ws_x'], ['ws_y']],
    rule='scenario = explicit matrix model (1..8 columns of mixed continuous / binary / general-integer type incl. infinite bounds, 0..6 sparse rows of all five shapes incl. empty rows, '
         'linear objective with optional coefficient vector and offset, Hessian in either declared format with general / diagonal-only / off-diagonal-only / duplicate / single-column '
         'patterns, sparse primal and dual warm starts, int/real suffixes of all four kinds, names) x {text, binary} x comments. One run = the whole loop in one process: real NLModel/'
         'NLSolver write the files to the simulated disk, mp reads them back into mp::Problem (bounds, types, class counts and block order by the reported permutation, rows, objective '
         'as a function at 16 points, warm starts, suffixes, names), then the intercepted system() runs the real driver with the tag-answering solver stub and the real ReadSolution '
         'returns x, y and suffixes, checked through the permutation. C++ or C flavour; step-wise or one-call entry; 35% histories on the same NLSolver / stub; 10% failing solver command '
         '(no result, no stale solution); some names empty, names compared at the solver stub. Non-trivial = every run; distinct = (LP/QP, format, permuted?, names, size, Hessian format, suffix count)',
    assumptions=_DRV_ASSUME + ['objective reference = c0 + c.x + 0.5*sum over stored Hessian entries q*x_i*x_j for both declared formats (neither the written NL nor ComputeObjValue distinguishes the formats; recorded as an observation)',
                               'duplicate column entries within one matrix row are not generated',
                               'NLSolver::SetFileStub is always used (the auto-stub path with std::random_device / mkdtemp is not covered)'],
)


PROPS_IOSIM = {
    'C02': dict(
        engine='iosim', level='exploration',
        quick=dict(count=320000), thorough=dict(budget_s=540),
        shrink_paths=[['damage'], ['faults'], ['handlers'], ['simfile', 'chunks']],
        rule='scenario = NL bytes from the structure-aware generator (text / binary / byte-swapped binary, padded below/at/above a page '
             'multiple half of the time) + label {valid 15%, damaged 37% (truncate at header/number/field/line/page boundary, torn tail, '
             'flip/set byte, zeroed block, duplicated block), hostile 33% (one structural field - header count, index, opcode, arity, '
             'string length, suffix kind - rewritten to -1/0/n/n+1/INT_MAX/2^31/2^32-1 ...), shrink 15% (file shorter than fstat says; '
             'verdict only "terminates")} + reader path {ReadNLString | NLFileReader<SimFile> with short reads | ReadNLFile through the shim '
             'with open/fstat/read/mmap/close faults} x flags {0, READ_BOUNDS_FIRST} x handlers {recording checker, mp::Problem, NullNLHandler}. '
             'Every scenario first reads the bytes in memory (exact-size heap buffer) and, when no hard I/O fault fired, demands the identical '
             'notification trace / exception from the file path. Non-trivial = bytes damaged/hostile or a file path used; distinct = distinct '
             '(label, format, path, damage kinds, fault kinds, outcome class + message skeleton per handler)',
        assumptions=_IO_ASSUME,
    ),
    'C14': dict(
        engine='iosim', level='exploration',
        quick=dict(count=600000), thorough=dict(budget_s=540),
        shrink_paths=[['damage'], ['rfaults'], ['wfaults'], ['consumer'], ['sol', 'sufs'], ['sol', 'x'], ['sol', 'y']],
        rule='scenario = seeded solution written by the real mp::WriteSolFile through the fopen shim (optionally with a write fault: '
             'what a crashed writer leaves behind) or by the own binary .sol emitter; then truncation / byte damage / one hostile field '
             '(counts line, option count, objno line, "suffix kind n namelen tablen tablines" fields, binary record lengths); declared problem '
             'size equal / 0 / smaller / larger; consumer script reading all / some / none of each offered vector, SetError mid-vector, '
             'a consumer that rejects a completely read vector in its own words, non-zero OnAMPLOptions; six consumer parties (C++ handler, the library\'s C wrapper around a recording '
             'callback table, its default C callback table, its own easy handler, the C flavour of that on a solver object with a history); read faults SHORT/EIO/ZERO/fopen errors. Oracle: terminates, no sanitizer report, documented return '
             'code with message, never offered more than declared, suffix name/table lengths as stated in the file, no vector reported '
             'complete that the complete file contradicts (prefix rule on truncated files). Non-trivial = anything but a pristine full read',
        assumptions=_IO_ASSUME,
    ),
    'C05': dict(
        engine='iosim', level='exploration',
        quick=dict(count=1200000), thorough=dict(budget_s=420),
        # the option list is deliberately not shrunk: emptying it would turn any finding into the 'no options' one
        shrink_paths=[['sol', 'sufs'], ['sol', 'x'], ['sol', 'y']],
        rule='scenario = seeded solution (message with blank lines / CRLF / backspaces / long lines; 0..9 options incl. the vbtol form, '
             '70% of scenarios restricted to 3..9 plain options so that the option findings do not mask everything else; primal/dual vectors '
             'absent / partial / full with 17-digit values, subnormals, extremes, -0 and (12%) Inf/NaN; objno; solve code; int/real suffixes of '
             'all four kinds with tables) written by the real mp::WriteSolFile and read by the real mp::ReadSOLFile with a consume-everything '
             'recording handler; in 25% a second reader party, the library\'s easy handler (C++ or C flavour) for a mixed-class model, must return message, code, values and variable '
             'suffixes in the caller\'s order. Fault-free, except a separate 6% configuration with one interrupted / short / failing flush of the writer (reported, or the complete file). Oracle: statement tolerances (integral < 1e15 exact, finite within 1e-15 relative, non-finite '
             'identical or non-OK code, message line by line modulo the reserved empty line). Non-trivial = has vectors or suffixes',
        assumptions=_IO_ASSUME,
    ),
    'C03': dict(
        engine='iosim', level='exploration',
        quick=dict(count=200000), thorough=dict(budget_s=540),
        shrink_paths=[['model', 'cons'], ['model', 'lcons'], ['model', 'objs'], ['model', 'sufs'], ['model', 'x0'], ['model', 'd0'],
                      ['model', 'cexprs'], ['model', 'funcs']],
        rule='scenario = explicit model IR (>= 1 variable; every NL operator incl. iterated ones, if/implication, piecewise-linear terms, '
             'function calls with string arguments, defined variables, complementarity, suffixes of 4 kinds int/real, initial primal/dual '
             'values; 60% with awkward doubles: subnormals, +-DBL_MAX, 17-digit values, +-0, +-Inf) fed through the real NLW2 writer in text '
             'AND binary, x comments on/off x bounds first/last x column sizes none/cumulative/plain x output precision 0 / 17..30, read back with the real mp::ReadNLFile '
             '(flags 0 / READ_BOUNDS_FIRST) and the recording checker. Oracle: per-item reader history == feed history computed from the IR '
             '(operators through an independent name<->number table), doubles bit-identical except the sign of zero; text history == binary '
             'history. Fault-free. Non-trivial = model has constraints or objectives',
        assumptions=_IO_ASSUME,
    ),
}

PROPS.update(PROPS_IOSIM)
