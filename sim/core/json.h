// Minimal strict JSON value / parser / writer used for scenarios, replay files and
// as the strict parser of the C20 oracle.  Strings are byte strings: bytes outside
// printable ASCII are written as \u00XX and read back as single bytes.
#pragma once
#include <cstdint>
#include <cstdio>
#include <cstdlib>
#include <cstring>
#include <cmath>
#include <map>
#include <stdexcept>
#include <string>
#include <utility>
#include <vector>

namespace sim {

class Json {
 public:
  enum Type { Null, Bool, Num, Str, Arr, Obj };
  using Array = std::vector<Json>;
  using Member = std::pair<std::string, Json>;
  using Object = std::vector<Member>;

  Json() : t_(Null) {}
  Json(bool b) : t_(Bool), b_(b) {}
  Json(int v) : t_(Num), n_(v) {}
  Json(long v) : t_(Num), n_((double)v) {}
  Json(long long v) : t_(Num), n_((double)v) {}
  Json(unsigned v) : t_(Num), n_(v) {}
  Json(unsigned long v) : t_(Num), n_((double)v) {}
  Json(double v) : t_(Num), n_(v) {}
  Json(const char* s) : t_(Str), s_(s) {}
  Json(std::string s) : t_(Str), s_(std::move(s)) {}
  static Json array() { Json j; j.t_ = Arr; return j; }
  static Json object() { Json j; j.t_ = Obj; return j; }

  Type type() const { return t_; }
  bool is_null() const { return t_ == Null; }
  bool is_obj() const { return t_ == Obj; }
  bool is_arr() const { return t_ == Arr; }
  bool is_str() const { return t_ == Str; }
  bool is_num() const { return t_ == Num; }
  bool is_bool() const { return t_ == Bool; }

  bool as_bool(bool d = false) const { return t_ == Bool ? b_ : t_ == Num ? n_ != 0 : d; }
  double as_double(double d = 0) const {
    if (t_ == Num) return n_;
    if (t_ == Str) {
      if (s_ == "Infinity") return INFINITY;
      if (s_ == "-Infinity") return -INFINITY;
      if (s_ == "NaN") return NAN;
      // hex-float strings for bit-exact doubles
      if (s_.size() > 2 && (s_[0] == '0' || s_[0] == '-') ) return std::strtod(s_.c_str(), nullptr);
    }
    return d;
  }
  long as_int(long d = 0) const { return t_ == Num ? (long)n_ : t_ == Bool ? (long)b_ : d; }
  const std::string& as_str() const { static const std::string e; return t_ == Str ? s_ : e; }

  // arrays
  size_t size() const { return t_ == Arr ? a_.size() : t_ == Obj ? o_.size() : 0; }
  Json& push(Json v) { if (t_ != Arr) { *this = array(); } a_.push_back(std::move(v)); return a_.back(); }
  const Json& operator[](size_t i) const { static const Json nul; return (t_ == Arr && i < a_.size()) ? a_[i] : nul; }
  Json& at(size_t i) { return a_.at(i); }
  Array& arr() { if (t_ != Arr) *this = array(); return a_; }
  const Array& arr() const { static const Array e; return t_ == Arr ? a_ : e; }

  // objects (insertion ordered)
  bool has(const std::string& k) const {
    if (t_ != Obj) return false;
    for (auto& m : o_) if (m.first == k) return true;
    return false;
  }
  const Json& operator[](const std::string& k) const {
    static const Json nul;
    if (t_ != Obj) return nul;
    for (auto& m : o_) if (m.first == k) return m.second;
    return nul;
  }
  const Json& operator[](const char* k) const { return (*this)[std::string(k)]; }
  Json& set(const std::string& k, Json v) {
    if (t_ != Obj) *this = object();
    for (auto& m : o_) if (m.first == k) { m.second = std::move(v); return m.second; }
    o_.emplace_back(k, std::move(v));
    return o_.back().second;
  }
  Json& ref(const std::string& k) {  // get-or-create
    if (t_ != Obj) *this = object();
    for (auto& m : o_) if (m.first == k) return m.second;
    o_.emplace_back(k, Json());
    return o_.back().second;
  }
  void erase(const std::string& k) {
    if (t_ != Obj) return;
    for (size_t i = 0; i < o_.size(); ++i) if (o_[i].first == k) { o_.erase(o_.begin() + i); return; }
  }
  const Object& obj() const { static const Object e; return t_ == Obj ? o_ : e; }
  Object& obj() { if (t_ != Obj) *this = object(); return o_; }

  // ---- writer ----
  static void write_string(std::string& out, const std::string& s) {
    out += '"';
    for (unsigned char c : s) {
      switch (c) {
        case '"': out += "\\\""; break;
        case '\\': out += "\\\\"; break;
        case '\n': out += "\\n"; break;
        case '\t': out += "\\t"; break;
        case '\r': out += "\\r"; break;
        default:
          if (c < 0x20 || c >= 0x7f) { char b[8]; snprintf(b, sizeof b, "\\u%04x", c); out += b; }
          else out += (char)c;
      }
    }
    out += '"';
  }
  static void write_number(std::string& out, double v) {
    if (std::isnan(v)) { out += "\"NaN\""; return; }
    if (std::isinf(v)) { out += v > 0 ? "\"Infinity\"" : "\"-Infinity\""; return; }
    char b[40];
    if (v == std::floor(v) && std::fabs(v) < 9.0e15 && !(v == 0 && std::signbit(v))) snprintf(b, sizeof b, "%.0f", v);
    else snprintf(b, sizeof b, "%.17g", v);
    out += b;
  }
  void dump(std::string& out) const {
    switch (t_) {
      case Null: out += "null"; break;
      case Bool: out += b_ ? "true" : "false"; break;
      case Num: write_number(out, n_); break;
      case Str: write_string(out, s_); break;
      case Arr: {
        out += '[';
        for (size_t i = 0; i < a_.size(); ++i) { if (i) out += ','; a_[i].dump(out); }
        out += ']';
        break;
      }
      case Obj: {
        out += '{';
        for (size_t i = 0; i < o_.size(); ++i) {
          if (i) out += ',';
          write_string(out, o_[i].first); out += ':'; o_[i].second.dump(out);
        }
        out += '}';
        break;
      }
    }
  }
  std::string dump() const { std::string s; dump(s); return s; }

  // ---- strict parser ----  throws std::runtime_error with position
  struct ParseOpts { bool allow_dup_keys = true; };
  static Json parse(const std::string& text, bool* ok = nullptr, std::string* err = nullptr) {
    Parser p{text.data(), text.data() + text.size(), text.data()};
    try {
      p.ws();
      Json v = p.value(0);
      p.ws();
      if (p.p != p.e) p.fail("trailing characters");
      if (ok) *ok = true;
      return v;
    } catch (const std::runtime_error& ex) {
      if (ok) { *ok = false; if (err) *err = ex.what(); return Json(); }
      throw;
    }
  }

 private:
  struct Parser {
    const char* p; const char* e; const char* b;
    [[noreturn]] void fail(const char* m) {
      char buf[128]; snprintf(buf, sizeof buf, "JSON: %s at offset %ld", m, (long)(p - b));
      throw std::runtime_error(buf);
    }
    void ws() { while (p < e && (*p == ' ' || *p == '\n' || *p == '\t' || *p == '\r')) ++p; }
    Json value(int depth) {
      if (depth > 200) fail("too deep");
      if (p >= e) fail("unexpected end");
      switch (*p) {
        case '{': return object(depth);
        case '[': return array(depth);
        case '"': return Json(string());
        case 't': lit("true"); return Json(true);
        case 'f': lit("false"); return Json(false);
        case 'n': lit("null"); return Json();
        default: return number();
      }
    }
    void lit(const char* s) {
      size_t n = strlen(s);
      if ((size_t)(e - p) < n || memcmp(p, s, n) != 0) fail("bad literal");
      p += n;
    }
    Json number() {
      const char* s = p;
      if (p < e && *p == '-') ++p;
      if (p >= e) fail("bad number");
      if (*p == '0') ++p;
      else if (*p >= '1' && *p <= '9') { while (p < e && *p >= '0' && *p <= '9') ++p; }
      else fail("bad number");
      if (p < e && *p == '.') {
        ++p;
        if (p >= e || *p < '0' || *p > '9') fail("bad fraction");
        while (p < e && *p >= '0' && *p <= '9') ++p;
      }
      if (p < e && (*p == 'e' || *p == 'E')) {
        ++p;
        if (p < e && (*p == '+' || *p == '-')) ++p;
        if (p >= e || *p < '0' || *p > '9') fail("bad exponent");
        while (p < e && *p >= '0' && *p <= '9') ++p;
      }
      std::string t(s, p);
      return Json(std::strtod(t.c_str(), nullptr));
    }
    static int hex(char c) {
      if (c >= '0' && c <= '9') return c - '0';
      if (c >= 'a' && c <= 'f') return c - 'a' + 10;
      if (c >= 'A' && c <= 'F') return c - 'A' + 10;
      return -1;
    }
    std::string string() {
      ++p;
      std::string out;
      for (;;) {
        if (p >= e) fail("unterminated string");
        unsigned char c = (unsigned char)*p++;
        if (c == '"') break;
        if (c < 0x20) { --p; fail("control character in string"); }
        if (c != '\\') { out += (char)c; continue; }
        if (p >= e) fail("bad escape");
        char x = *p++;
        switch (x) {
          case '"': out += '"'; break;
          case '\\': out += '\\'; break;
          case '/': out += '/'; break;
          case 'b': out += '\b'; break;
          case 'f': out += '\f'; break;
          case 'n': out += '\n'; break;
          case 'r': out += '\r'; break;
          case 't': out += '\t'; break;
          case 'u': {
            if (e - p < 4) fail("bad \\u escape");
            int v = 0;
            for (int i = 0; i < 4; ++i) { int h = hex(p[i]); if (h < 0) fail("bad \\u escape"); v = v * 16 + h; }
            p += 4;
            if (v < 0x100) out += (char)v;   // private convention: bytes
            else if (v < 0x800) { out += (char)(0xC0 | (v >> 6)); out += (char)(0x80 | (v & 0x3F)); }
            else { out += (char)(0xE0 | (v >> 12)); out += (char)(0x80 | ((v >> 6) & 0x3F)); out += (char)(0x80 | (v & 0x3F)); }
            break;
          }
          default: --p; fail("bad escape");
        }
      }
      return out;
    }
    Json array(int depth) {
      ++p;
      Json j = Json::array();
      ws();
      if (p < e && *p == ']') { ++p; return j; }
      for (;;) {
        ws();
        j.a_.push_back(value(depth + 1));
        ws();
        if (p >= e) fail("unterminated array");
        if (*p == ',') { ++p; continue; }
        if (*p == ']') { ++p; break; }
        fail("expected , or ]");
      }
      return j;
    }
    Json object(int depth) {
      ++p;
      Json j = Json::object();
      ws();
      if (p < e && *p == '}') { ++p; return j; }
      for (;;) {
        ws();
        if (p >= e || *p != '"') fail("expected key");
        std::string k = string();
        ws();
        if (p >= e || *p != ':') fail("expected :");
        ++p;
        ws();
        Json v = value(depth + 1);
        j.o_.emplace_back(std::move(k), std::move(v));
        ws();
        if (p >= e) fail("unterminated object");
        if (*p == ',') { ++p; continue; }
        if (*p == '}') { ++p; break; }
        fail("expected , or }");
      }
      return j;
    }
  };

  Type t_;
  bool b_ = false;
  double n_ = 0;
  std::string s_;
  Array a_;
  Object o_;
};

// bit-exact double <-> string (hex float) for scenario data that must round trip
inline std::string dbl_hex(double v) {
  if (std::isnan(v)) return "NaN";
  if (std::isinf(v)) return v > 0 ? "Infinity" : "-Infinity";
  char b[48]; snprintf(b, sizeof b, "%a", v); return b;
}

}  // namespace sim
