// Seeded PRNG: SplitMix64 -> xoshiro256**.  One integer decides everything.
#pragma once
#include <cstdint>
#include <string>
#include <vector>
#include <cmath>

namespace sim {

inline uint64_t splitmix64(uint64_t& x) {
  uint64_t z = (x += 0x9e3779b97f4a7c15ULL);
  z = (z ^ (z >> 30)) * 0xbf58476d1ce4e5b9ULL;
  z = (z ^ (z >> 27)) * 0x94d049bb133111ebULL;
  return z ^ (z >> 31);
}

inline uint64_t fnv1a(const void* p, size_t n, uint64_t h = 1469598103934665603ULL) {
  const unsigned char* c = (const unsigned char*)p;
  for (size_t i = 0; i < n; ++i) { h ^= c[i]; h *= 1099511628211ULL; }
  return h;
}
inline uint64_t fnv1a(const std::string& s, uint64_t h = 1469598103934665603ULL) {
  return fnv1a(s.data(), s.size(), h);
}

class Rng {
  uint64_t s_[4];
  static uint64_t rotl(uint64_t x, int k) { return (x << k) | (x >> (64 - k)); }
 public:
  Rng() : Rng(0) {}
  explicit Rng(uint64_t seed) { reseed(seed); }
  // Derive an independent stream from (seed, tag, index).
  Rng(uint64_t seed, const std::string& tag, uint64_t index) {
    uint64_t x = seed ^ fnv1a(tag) ^ (index * 0x9e3779b97f4a7c15ULL + 0x632be59bd9b4e019ULL);
    reseed(x);
  }
  void reseed(uint64_t seed) {
    uint64_t x = seed;
    for (int i = 0; i < 4; ++i) s_[i] = splitmix64(x);
  }
  uint64_t next() {
    const uint64_t result = rotl(s_[1] * 5, 7) * 9;
    const uint64_t t = s_[1] << 17;
    s_[2] ^= s_[0]; s_[3] ^= s_[1]; s_[1] ^= s_[2]; s_[0] ^= s_[3];
    s_[2] ^= t; s_[3] = rotl(s_[3], 45);
    return result;
  }
  // uniform in [0, n), n > 0
  uint64_t below(uint64_t n) { return n ? next() % n : 0; }
  // uniform integer in [a, b]
  long range(long a, long b) { return a + (long)below((uint64_t)(b - a + 1)); }
  double real() { return (next() >> 11) * (1.0 / 9007199254740992.0); }
  bool chance(double p) { return real() < p; }
  template <class T> const T& pick(const std::vector<T>& v) { return v[below(v.size())]; }
  template <class T, size_t N> const T& pick(const T (&v)[N]) { return v[below(N)]; }
  template <class T> void shuffle(std::vector<T>& v) {
    for (size_t i = v.size(); i > 1; --i) std::swap(v[i - 1], v[below(i)]);
  }
};

}  // namespace sim
