// libc shim: link-time interposition of the entry points through which ampl/mp meets
// the outside world.  Every function passes through to the real libc unless the
// simulator is active AND the call concerns the simulated disk / environment / clock.
#ifndef _GNU_SOURCE
#define _GNU_SOURCE
#endif
#include <dlfcn.h>
#include <errno.h>
#include <fcntl.h>
#include <stdarg.h>
#include <stdio.h>
#include <stdlib.h>
#include <string.h>
#include <sys/mman.h>
#include <sys/stat.h>
#include <sys/uio.h>
#include <time.h>
#include <unistd.h>

#include <new>
#include <string>

#include "shim.h"
#include "sim.h"

using sim::g;
using sim::FaultOp;

namespace {

template <class F>
F real_sym(const char* name) {
  void* p = dlsym(RTLD_NEXT, name);
  if (!p) { fprintf(stderr, "shim: cannot resolve %s\n", name); abort(); }
  return (F)p;
}
#define REAL(ret, name, ...) \
  static ret (*real_##name)(__VA_ARGS__) = nullptr; \
  if (!real_##name) real_##name = real_sym<ret (*)(__VA_ARGS__)>(#name)

struct FdInfo { bool used; char role[12]; };
constexpr int kMaxFd = 4096;
FdInfo fdtab[kMaxFd];

bool owned_path(const char* p) {
  if (!g.active || !p || g.scratch.empty()) return false;
  return strncmp(p, g.scratch.c_str(), g.scratch.size()) == 0;
}
void reg_fd(int fd, const std::string& role) {
  if (fd < 0 || fd >= kMaxFd) return;
  fdtab[fd].used = true;
  snprintf(fdtab[fd].role, sizeof fdtab[fd].role, "%s", role.c_str());
}
const char* fd_role(int fd) {
  if (!g.active || fd < 0 || fd >= kMaxFd || !fdtab[fd].used) return nullptr;
  return fdtab[fd].role;
}
void unreg_fd(int fd) { if (fd >= 0 && fd < kMaxFd) fdtab[fd].used = false; }

int errno_of(const std::string& kind) {
  if (kind == "ENOENT") return ENOENT;
  if (kind == "EACCES") return EACCES;
  if (kind == "EMFILE") return EMFILE;
  if (kind == "EINTR") return EINTR;
  if (kind == "EIO") return EIO;
  if (kind == "ENOSPC") return ENOSPC;
  if (kind == "ENOMEM") return ENOMEM;
  if (kind == "EAGAIN") return EAGAIN;
  if (kind == "EISDIR") return EISDIR;
  return EIO;
}

}  // namespace

namespace sim {
static char* g_stdio_bufs[64]; static int g_n_stdio_bufs = 0;   // buffers handed to setvbuf: released at the next reset
void shim_reset() {
  for (auto& f : fdtab) f.used = false;
  for (int i = 0; i < g_n_stdio_bufs; ++i) free(g_stdio_bufs[i]);
  g_n_stdio_bufs = 0;
}
char* stdio_buf_for_stream(size_t n) {
  if (g_n_stdio_bufs >= 64) return nullptr;
  char* b = (char*)malloc(n);
  if (b) g_stdio_bufs[g_n_stdio_bufs++] = b;
  return b;
}
int (*system_hook)(const char* cmd) = nullptr;
}  // namespace sim

// ------------------------------------------------------------------ environment
extern "C" char* getenv(const char* name) {
  if (g.active) return (char*)g.getenv_sim(name);
  REAL(char*, getenv, const char*);
  return real_getenv(name);
}

// ------------------------------------------------------------------ clock
extern "C" int clock_gettime(clockid_t clk, struct timespec* ts) {
  if (g.active && (clk == CLOCK_MONOTONIC || clk == CLOCK_REALTIME)) {
    g.clock_ns += g.clock_step_ns;
    ts->tv_sec = g.clock_ns / 1000000000LL;
    ts->tv_nsec = g.clock_ns % 1000000000LL;
    return 0;
  }
  REAL(int, clock_gettime, clockid_t, struct timespec*);
  return real_clock_gettime(clk, ts);
}

// ------------------------------------------------------------------ exit
extern "C" void _exit(int code) {
  if (g.active) g.do_exit(code, "_exit");
  REAL(void, _exit, int);
  real__exit(code);
  __builtin_unreachable();
}
extern "C" void exit(int code) {
  if (g.active) g.do_exit(code, "exit");
  REAL(void, exit, int);
  real_exit(code);
  __builtin_unreachable();
}

// ------------------------------------------------------------------ subprocess
extern "C" int system(const char* cmd) {
  if (g.active && sim::system_hook) {
    FaultOp* f = g.fault("system", "call");
    if (f) { g.note_fired(f); return f->kind == "FAIL" ? (int)f->param : -1; }
    return sim::system_hook(cmd);
  }
  REAL(int, system, const char*);
  return real_system(cmd);
}

// ------------------------------------------------------------------ fd-level I/O
static int open_impl(const char* path, int flags, mode_t mode, bool is64) {
  REAL(int, open, const char*, int, ...);
  REAL(int, open64, const char*, int, ...);
  if (owned_path(path)) {
    std::string role = sim::role_of_path(path);
    if (FaultOp* f = g.fault(role.c_str(), "open")) {
      g.note_fired(f);
      errno = errno_of(f->kind);
      return -1;
    }
    int fd = is64 ? real_open64(path, flags, mode) : real_open(path, flags, mode);
    if (fd >= 0) reg_fd(fd, role);
    g.event("open " + role + (fd >= 0 ? " ok" : " fail errno=" + std::to_string(errno)));
    return fd;
  }
  return is64 ? real_open64(path, flags, mode) : real_open(path, flags, mode);
}
extern "C" int open(const char* path, int flags, ...) {
  mode_t mode = 0;
  if (flags & (O_CREAT | O_TMPFILE)) { va_list ap; va_start(ap, flags); mode = va_arg(ap, mode_t); va_end(ap); }
  return open_impl(path, flags, mode, false);
}
extern "C" int open64(const char* path, int flags, ...) {
  mode_t mode = 0;
  if (flags & (O_CREAT | O_TMPFILE)) { va_list ap; va_start(ap, flags); mode = va_arg(ap, mode_t); va_end(ap); }
  return open_impl(path, flags, mode, true);
}

extern "C" int close(int fd) {
  REAL(int, close, int);
  if (const char* role = fd_role(fd)) {
    FaultOp* f = g.fault(role, "close");
    unreg_fd(fd);
    int r = real_close(fd);
    if (f) { g.note_fired(f); errno = errno_of(f->kind); return -1; }
    return r;
  }
  return real_close(fd);
}

static int fstat_impl(int fd, struct stat* st) {
  REAL(int, fstat, int, struct stat*);
  int r = real_fstat(fd, st);
  if (r == 0) {
    if (const char* role = fd_role(fd)) {
      if (FaultOp* f = g.fault(role, "fstat")) {
        g.note_fired(f);
        if (f->kind == "SIZE") {
          long ns = (long)st->st_size + f->param;
          st->st_size = ns < 0 ? 0 : ns;
        } else { errno = errno_of(f->kind); return -1; }
      }
    }
  }
  return r;
}
extern "C" int fstat(int fd, struct stat* st) { return fstat_impl(fd, st); }
extern "C" int fstat64(int fd, struct stat64* st) { return fstat_impl(fd, (struct stat*)st); }

extern "C" ssize_t read(int fd, void* buf, size_t n) {
  REAL(ssize_t, read, int, void*, size_t);
  if (const char* role = fd_role(fd)) {
    if (FaultOp* f = g.fault(role, "read")) {
      g.note_fired(f);
      if (f->kind == "SHORT") {
        size_t m = f->param > 0 ? (size_t)f->param : 1;
        if (m < n) n = m;
      } else if (f->kind == "ZERO") {
        return 0;
      } else { errno = errno_of(f->kind); return -1; }
    }
  }
  return real_read(fd, buf, n);
}

static void* mmap_impl(void* addr, size_t len, int prot, int flags, int fd, off_t off) {
  REAL(void*, mmap, void*, size_t, int, int, int, off_t);
  if (fd >= 0) {
    if (const char* role = fd_role(fd)) {
      if (FaultOp* f = g.fault(role, "mmap")) {
        g.note_fired(f);
        errno = errno_of(f->kind);
        return MAP_FAILED;
      }
    }
  }
  return real_mmap(addr, len, prot, flags, fd, off);
}
extern "C" void* mmap(void* addr, size_t len, int prot, int flags, int fd, off_t off) {
  return mmap_impl(addr, len, prot, flags, fd, off);
}
extern "C" void* mmap64(void* addr, size_t len, int prot, int flags, int fd, off64_t off) {
  return mmap_impl(addr, len, prot, flags, fd, (off_t)off);
}

// returns: -2 = no fault, otherwise value to return (errno set); may shorten *n
static ssize_t write_fault(const char* role, const char* op, size_t* n) {
  FaultOp* f = g.fault(role, op);
  if (!f) return -2;
  g.note_fired(f);
  if (f->kind == "SHORT") {
    size_t m = f->param > 0 ? (size_t)f->param : 1;
    if (m < *n) *n = m;
    return -2;
  }
  errno = errno_of(f->kind);
  return -1;
}

extern "C" ssize_t write(int fd, const void* buf, size_t n) {
  REAL(ssize_t, write, int, const void*, size_t);
  if (g.active) {
    const char* role = (fd == 1) ? "stdout" : (fd == 2) ? "stderr" : fd_role(fd);
    if (role) {
      ssize_t r = write_fault(role, "write", &n);
      if (r != -2) return r;
    }
  }
  return real_write(fd, buf, n);
}

extern "C" ssize_t writev(int fd, const struct iovec* iov, int cnt) {
  REAL(ssize_t, writev, int, const struct iovec*, int);
  if (const char* role = fd_role(fd)) {
    size_t total = 0;
    for (int i = 0; i < cnt; ++i) total += iov[i].iov_len;
    size_t n = total;
    ssize_t r = write_fault(role, "write", &n);
    if (r != -2) return r;
    if (n < total) {  // short: write only the first n bytes
      REAL(ssize_t, write, int, const void*, size_t);
      size_t done = 0;
      for (int i = 0; i < cnt && done < n; ++i) {
        size_t m = iov[i].iov_len;
        if (m > n - done) m = n - done;
        ssize_t w = real_write(fd, iov[i].iov_base, m);
        if (w < 0) return done ? (ssize_t)done : -1;
        done += (size_t)w;
        if ((size_t)w < m) break;
      }
      return (ssize_t)done;
    }
  }
  return real_writev(fd, iov, cnt);
}

// ------------------------------------------------------------------ stdio streams
namespace {
struct Cookie { int fd; char role[12]; };

ssize_t ck_read(void* c, char* buf, size_t n) {
  Cookie* ck = (Cookie*)c;
  REAL(ssize_t, read, int, void*, size_t);
  if (g.active) {
    if (FaultOp* f = g.fault(ck->role, "fread")) {
      g.note_fired(f);
      if (f->kind == "SHORT") { size_t m = f->param > 0 ? (size_t)f->param : 1; if (m < n) n = m; }
      else if (f->kind == "ZERO") return 0;
      else { errno = errno_of(f->kind); return -1; }
    }
  }
  return real_read(ck->fd, buf, n);
}
ssize_t ck_write(void* c, const char* buf, size_t n) {
  Cookie* ck = (Cookie*)c;
  REAL(ssize_t, write, int, const void*, size_t);
  size_t want = n;
  bool fail_after = false;
  int err = 0;
  if (g.active) {
    if (FaultOp* f = g.fault(ck->role, "fwrite")) {
      g.note_fired(f);
      if (f->kind == "SHORT") {               // part of the data reaches the disk, then the device is full
        size_t m = f->param > 0 ? (size_t)f->param : 0;
        if (m < want) want = m;
        fail_after = true; err = ENOSPC;
      } else { errno = errno_of(f->kind); return 0; }   // cookie write: 0 = error
    }
  }
  size_t done = 0;
  while (done < want) {
    ssize_t w = real_write(ck->fd, buf + done, want - done);
    if (w <= 0) break;
    done += (size_t)w;
  }
  if (fail_after) { errno = err; return (ssize_t)done; }  // short count => stdio sets the error flag
  return (ssize_t)done;
}
int ck_seek(void* c, off64_t* off, int whence) {
  Cookie* ck = (Cookie*)c;
  off64_t r = lseek64(ck->fd, *off, whence);
  if (r == (off64_t)-1) return -1;
  *off = r;
  return 0;
}
int ck_close(void* c) {
  Cookie* ck = (Cookie*)c;
  REAL(int, close, int);
  FaultOp* f = g.active ? g.fault(ck->role, "fclose") : nullptr;
  int r = real_close(ck->fd);
  int e = errno;
  free(ck);
  if (f) { g.note_fired(f); errno = errno_of(f->kind); return -1; }
  errno = e;
  return r;
}

int flags_of_mode(const char* mode) {
  int fl = 0;
  bool plus = strchr(mode, '+') != nullptr;
  switch (mode[0]) {
    case 'r': fl = plus ? O_RDWR : O_RDONLY; break;
    case 'w': fl = (plus ? O_RDWR : O_WRONLY) | O_CREAT | O_TRUNC; break;
    case 'a': fl = (plus ? O_RDWR : O_WRONLY) | O_CREAT | O_APPEND; break;
    default: return -1;
  }
  return fl;
}
}  // namespace

extern "C" FILE* fopen(const char* path, const char* mode) {
  REAL(FILE*, fopen, const char*, const char*);
  if (!owned_path(path)) return real_fopen(path, mode);
  std::string role = sim::role_of_path(path);
  if (FaultOp* f = g.fault(role.c_str(), "fopen")) {
    g.note_fired(f);
    errno = errno_of(f->kind);
    return nullptr;
  }
  int fl = flags_of_mode(mode);
  if (fl < 0) { errno = EINVAL; return nullptr; }
  REAL(int, open, const char*, int, ...);
  int fd = real_open(path, fl, 0666);
  g.event("fopen " + role + " " + mode + (fd >= 0 ? " ok" : " fail errno=" + std::to_string(errno)));
  if (fd < 0) return nullptr;
  Cookie* ck = (Cookie*)malloc(sizeof(Cookie));
  ck->fd = fd;
  snprintf(ck->role, sizeof ck->role, "%s", role.c_str());
  cookie_io_functions_t io = {ck_read, ck_write, ck_seek, ck_close};
  FILE* fp = fopencookie(ck, mode, io);
  if (!fp) { REAL(int, close, int); real_close(fd); free(ck); }
  else if (g.active && g.stdio_bufsize > 0) {
    // glibc ignores the size when no buffer is given: hand it one
    if (char* b = sim::stdio_buf_for_stream((size_t)g.stdio_bufsize)) setvbuf(fp, b, _IOFBF, (size_t)g.stdio_bufsize);
  }
  return fp;
}

extern "C" FILE* fopen64(const char* path, const char* mode) {
  REAL(FILE*, fopen64, const char*, const char*);
  if (!owned_path(path)) return real_fopen64(path, mode);
  std::string role = sim::role_of_path(path);
  if (FaultOp* f = g.fault(role.c_str(), "fopen")) {
    g.note_fired(f);
    errno = errno_of(f->kind);
    return nullptr;
  }
  FILE* fp = real_fopen64(path, mode);
  g.event("fopen64 " + role + " " + mode + (fp ? " ok" : " fail errno=" + std::to_string(errno)));
  if (fp) reg_fd(fileno(fp), role);
  return fp;
}

// ------------------------------------------------------------------ allocation cap
namespace {
inline void* alloc_checked(size_t n) {
  if (g.active) {
    if (++g.allocs > g.max_allocs && !g.step_budget_exceeded && g.exit_jmp) {
      g.step_budget_exceeded = true;
      g.do_exit(99, "alloc-budget");
    }
    if (n > g.alloc_cap) { g.fired["ALLOC_CAP"]++; throw std::bad_alloc(); }
    if (n >= (64u << 10)) {
      long idx = g.large_allocs++;
      if (idx == g.alloc_fail_nth) { g.fired["ALLOC_NTH"]++; throw std::bad_alloc(); }
    }
  }
  void* p = malloc(n ? n : 1);
  if (!p) throw std::bad_alloc();
  return p;
}
}  // namespace

void* operator new(size_t n) { return alloc_checked(n); }
void* operator new[](size_t n) { return alloc_checked(n); }
void* operator new(size_t n, const std::nothrow_t&) noexcept { try { return alloc_checked(n); } catch (...) { return nullptr; } }
void* operator new[](size_t n, const std::nothrow_t&) noexcept { try { return alloc_checked(n); } catch (...) { return nullptr; } }
void operator delete(void* p) noexcept { free(p); }
void operator delete[](void* p) noexcept { free(p); }
void operator delete(void* p, size_t) noexcept { free(p); }
void operator delete[](void* p, size_t) noexcept { free(p); }
