#pragma once
namespace sim {
void shim_reset();                         // forget all registered fds
extern int (*system_hook)(const char* cmd);  // in-process replacement for system()
}
