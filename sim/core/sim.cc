#include "sim.h"
#include "worker.h"

#include <cerrno>
#include <csignal>
#include <cstdio>
#include <cstdlib>
#include <cstring>
#include <unistd.h>
#include <sys/time.h>

namespace sim {

Sim g;

Json FaultOp::to_json() const {
  Json j = Json::object();
  j.set("role", role); j.set("op", op); j.set("k", k); j.set("kind", kind); j.set("param", param);
  if (repeat > 1) j.set("repeat", repeat);
  return j;
}
FaultOp FaultOp::from_json(const Json& j) {
  FaultOp f;
  f.role = j["role"].as_str(); f.op = j["op"].as_str(); f.k = (int)j["k"].as_int();
  f.kind = j["kind"].as_str(); f.param = j["param"].as_int();
  f.repeat = j["repeat"].as_int(1);
  return f;
}
Json SignalOp::to_json() const {
  Json j = Json::object();
  j.set("point", point); j.set("k", k); j.set("signo", signo);
  return j;
}
SignalOp SignalOp::from_json(const Json& j) {
  SignalOp s;
  s.point = j["point"].as_str(); s.k = (int)j["k"].as_int(); s.signo = (int)j["signo"].as_int(2);
  return s;
}

void Sim::free_env_copies() {
  for (auto& kv : env_copies_) free(kv.second);
  env_copies_.clear();
}

void Sim::reset() {
  active = false;
  faults.clear(); signals.clear(); env.clear();
  free_env_copies();
  clock_step_ns = 1000000; clock_yield_ns = 1000;
  alloc_cap = (size_t)256 << 20; alloc_fail_nth = -1;
  max_yields = 1000000; stdio_bufsize = 0;
  { static const double env_cpu = [] { const char* e = ::secure_getenv("VERIF_CPU_BUDGET_S"); return e ? atof(e) : 0.0; }(); cpu_budget_s = env_cpu > 0 ? env_cpu : 10.0; }
  { static const long env_max = [] { const char* e = ::secure_getenv("VERIF_MAX_ALLOCS"); return e ? atol(e) : 0L; }(); max_allocs = env_max > 0 ? (uint64_t)env_max : 10000000; }
  seq = 0; yields = 0; clock_ns = clock_start_ns = 1000000000LL; hash = 1469598103934665603ULL;
  history.clear(); occ.clear(); fired.clear();
  large_allocs = 0; allocs = 0; exited = false; exit_code = 0; step_budget_exceeded = false;
  signals_delivered = 0; in_signal = 0;
  exit_jmp = nullptr;
}

// A run that spins without ever reaching a yield point or an allocation is bounded by CPU time
// (ITIMER_VIRTUAL counts this process's user CPU, so machine load does not matter).  The handler
// jumps back to the harness like a simulated exit; the interrupted code may have held a lock, so
// the worker reports the run (verdict HANG through step_budget_exceeded) and then retires.
static void on_cpu_budget(int) {
  if (!g.active || !g.exit_jmp || g.step_budget_exceeded) return;
  g.step_budget_exceeded = true; g.tainted = true; g.exited = true; g.exit_code = 99;
  siglongjmp(*g.exit_jmp, 1);
}
static void arm_cpu_timer(double s) {
  struct itimerval it; memset(&it, 0, sizeof it);
  it.it_value.tv_sec = (time_t)s; it.it_value.tv_usec = (suseconds_t)((s - (double)(time_t)s) * 1e6);
  setitimer(ITIMER_VIRTUAL, &it, nullptr);
}
void Sim::begin() {
  static bool installed = false;
  if (!installed) { struct sigaction sa; memset(&sa, 0, sizeof sa); sa.sa_handler = on_cpu_budget; sigemptyset(&sa.sa_mask); sa.sa_flags = SA_NODEFER; sigaction(SIGVTALRM, &sa, nullptr); installed = true; }
  errno = 0;      // process-global state a run must not inherit from the run before it
  active = true;
  if (cpu_budget_s > 0) arm_cpu_timer(cpu_budget_s);
}
void Sim::end() { active = false; arm_cpu_timer(0); }

void Sim::event(const std::string& e) {
  ++seq;
  hash = fnv1a(norm_paths(e), hash);
  hash = fnv1a("\n", 1, hash);
  if (record_history && history.size() < 100000) history.push_back(e);
}

int Sim::yield(const char* cls, const char* name) {
  if (!active) return -1;
  (void)cls;
  ++yields;
  if (yields > max_yields && !step_budget_exceeded) {
    step_budget_exceeded = true;
    do_exit(99, "step-budget");
  }
  clock_ns += clock_yield_ns;
  int k = occ[name]++;
  long gidx = (long)yields - 1;
  {
    std::string e = "Y ";
    e += name; e += '#'; e += std::to_string(k);
    event(e);
  }
  // deliver scheduled signals (index loop: nested yields may not invalidate it; vector is not resized during a run)
  for (size_t i = 0; i < signals.size(); ++i) {
    SignalOp& s = signals[i];
    if (s.fired) continue;
    bool hit = (s.point == "*") ? (s.k == gidx) : (s.k == k && s.point == name);
    if (!hit) continue;
    s.fired = 1;
    struct sigaction cur;
    if (sigaction(s.signo, nullptr, &cur) != 0 || cur.sa_handler == SIG_DFL || cur.sa_handler == SIG_IGN) {
      event("SIGSKIP " + std::to_string(s.signo) + " (no handler installed)");
      continue;
    }
    ++signals_delivered;
    fired[s.signo == SIGTERM ? "SIGTERM" : "SIGINT"]++;
    event("SIGNAL " + std::to_string(s.signo) + " at " + name + "#" + std::to_string(k));
    ++in_signal;
    raise(s.signo);
    --in_signal;
    event("SIGRET " + std::to_string(s.signo));
  }
  return k;
}

FaultOp* Sim::fault(const char* role, const char* op) {
  if (!active) return nullptr;
  std::string name = "io.";
  name += role; name += '.'; name += op;
  int k = yield("io", name.c_str());
  for (auto& f : faults)
    if (f.op == op && f.role == role && (f.repeat > 1 ? k >= f.k && k - f.k < f.repeat : !f.fired && f.k == k)) return &f;
  return nullptr;
}

void Sim::note_fired(FaultOp* f) {
  if (f->fired++) { if (f->fired == 2) fired[f->kind + "_persisting"]++; return; }   // a condition that persists (full pipe, full disk) is one fault
  fired[f->kind]++;
  event("FAULT " + f->role + "." + f->op + "#" + std::to_string(f->k) + " " + f->kind + " " + std::to_string(f->param));
}

void Sim::do_exit(int code, const char* how) {
  event(std::string("EXIT ") + std::to_string(code) + " " + how);
  exited = true;
  exit_code = code;
  // A process that calls _exit inside a signal handler is gone together with whatever that handler (and the code it
  // interrupted) left half-done in static storage.  The simulator can only jump out of the handler, so the worker
  // process retires after reporting this run: the next scenario starts from a fresh image, as it would in reality.
  if (in_signal > 0) tainted = true;
  if (exit_jmp) {
    // the simulated process is gone: drop anything still pending for it
    signal(SIGINT, SIG_IGN); signal(SIGTERM, SIG_IGN);
    siglongjmp(*exit_jmp, 1);
  }
  fflush(nullptr);
  ::_Exit(code);
}

const char* Sim::getenv_sim(const char* name) {
  auto it = env.find(name);
  if (it == env.end()) return nullptr;
  auto c = env_copies_.find(name);
  if (c != env_copies_.end()) return c->second;
  // exact-size heap copy so that a sanitizer sees any read past the terminating NUL
  char* p = (char*)malloc(it->second.size() + 1);
  memcpy(p, it->second.c_str(), it->second.size() + 1);
  env_copies_[name] = p;
  return p;
}

std::string Sim::history_text(size_t max_events) const {
  std::string out;
  size_t n = history.size();
  size_t from = n > max_events ? n - max_events : 0;
  for (size_t i = from; i < n; ++i) { out += history[i]; out += '\n'; }
  return out;
}

Json Sim::census() const {
  Json j = Json::object();
  for (auto& kv : occ) j.set(kv.first, kv.second);
  return j;
}

static bool ends_with(const std::string& s, const char* suf) {
  size_t n = strlen(suf);
  return s.size() >= n && s.compare(s.size() - n, n, suf) == 0;
}

std::string role_of_path(const char* path) {
  std::string p(path ? path : "");
  if (ends_with(p, ".nl")) return "nl";
  if (ends_with(p, ".sol")) return "sol";
  if (ends_with(p, ".col")) return "col";
  if (ends_with(p, ".row")) return "row";
  if (ends_with(p, ".opt")) return "opt";
  if (ends_with(p, ".jsonl")) return "graph";
  if (ends_with(p, ".fix") || ends_with(p, ".unv") || ends_with(p, ".slc") || ends_with(p, ".adj")) return "aux";
  return "other";
}

}  // namespace sim

extern "C" void mp_verif_point(const char* name) { sim::g.yield("hook", name); }
