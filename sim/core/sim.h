// Simulator runtime: yield points, fault plan, signal schedule, simulated clock,
// environment, history and fingerprint.  Single-threaded by construction.
#pragma once
#include <csetjmp>
#include <cstdint>
#include <map>
#include <string>
#include <vector>

#include "json.h"
#include "prng.h"

namespace sim {

// A fault attached to the k-th occurrence of (role, op).
struct FaultOp {
  std::string role;   // nl, sol, col, row, opt, graph, stdout, stderr, other, env, alloc, system ...
  std::string op;     // open, fstat, read, mmap, write, close, fopen, fwrite, fclose, fread ...
  int k = 0;          // 0-based occurrence of (role, op) within the run
  std::string kind;   // ENOENT, EACCES, EMFILE, EINTR, EIO, ENOSPC, SHORT, ZERO, SIZE, ENOMEM, EAGAIN, FAIL
  long param = 0;     // bytes for SHORT, size delta for SIZE, ...
  long repeat = 1;    // > 1: the condition persists for that many occurrences from the k-th on (a full non-blocking pipe, a full disk)
  int fired = 0;
  Json to_json() const;
  static FaultOp from_json(const Json& j);
};

// A signal delivered at the k-th occurrence of a yield point (or of any yield point if point=="*").
struct SignalOp {
  std::string point;
  int k = 0;
  int signo = 2;
  int fired = 0;
  Json to_json() const;
  static SignalOp from_json(const Json& j);
};

struct SimExit { int code; };  // thrown/longjmp'd when the simulated process exits

class Sim {
 public:
  // ---- configuration of one run ----
  std::vector<FaultOp> faults;
  std::vector<SignalOp> signals;
  std::map<std::string, std::string> env;   // simulated environment
  std::string scratch;                      // scratch directory (simulated disk); paths below it are owned
  long clock_step_ns = 1000000;             // advance per clock read
  long clock_yield_ns = 1000;               // advance per yield
  size_t alloc_cap = (size_t)256 << 20;     // single allocation cap while active
  long alloc_fail_nth = -1;                 // n-th "large" (>= 64 KiB) allocation fails
  long stdio_bufsize = 0;                   // > 0: buffer size given to every simulated FILE stream (a tuning knob varied per run,
                                            // so that multi-flush paths of small files are exercised)
  uint64_t max_yields = 1000000;
  uint64_t allocs = 0;                      // operator new calls while active (a CPU-bound runaway loop that allocates
  uint64_t max_allocs = 10000000;           //  never yields: this budget turns it into a deterministic HANG verdict)
  bool record_history = true;

  // ---- state of one run ----
  bool active = false;
  uint64_t seq = 0;          // global event sequence number
  uint64_t yields = 0;
  int64_t clock_ns = 0;
  int64_t clock_start_ns = 0;
  uint64_t hash = 0;         // FNV-1a fingerprint of the history
  std::vector<std::string> history;
  std::map<std::string, int> occ;           // occurrences per yield-point name
  std::map<std::string, long> fired;        // fault kind -> times fired (this run)
  long large_allocs = 0;
  bool exited = false;
  int exit_code = 0;
  bool step_budget_exceeded = false;
  bool tainted = false;          // a run was abandoned asynchronously (CPU budget) or exited inside a signal handler: the worker retires after reporting it
  double cpu_budget_s = 10.0;    // user CPU seconds one simulated run may burn before it counts as a hang
  int signals_delivered = 0;
  int in_signal = 0;         // nesting depth of simulated signal delivery

  // exit handling: simulated _exit/exit longjmp here
  sigjmp_buf* exit_jmp = nullptr;

  void reset();                       // clear run state + configuration
  void begin();                       // activate
  void end();                         // deactivate
  void event(const std::string& e);   // append to history (never draws randomness, never reads a clock)
  // Yield point: advance clock, deliver scheduled signals. Returns occurrence index of `name`.
  int yield(const char* cls, const char* name);
  // Query the fault (if any) scheduled for the current occurrence of (role, op); also a yield point.
  FaultOp* fault(const char* role, const char* op);
  void note_fired(FaultOp* f);
  [[noreturn]] void do_exit(int code, const char* how);
  // exact-size heap copy management for getenv
  const char* getenv_sim(const char* name);
  std::string history_text(size_t max_events = 400) const;
  Json census() const;                // yield-point name -> occurrences

 private:
  std::map<std::string, char*> env_copies_;
  void free_env_copies();
};

extern Sim g;

// classify a path into a role by its suffix
std::string role_of_path(const char* path);

}  // namespace sim

extern "C" void mp_verif_point(const char* name);
