#ifndef _GNU_SOURCE
#define _GNU_SOURCE
#endif
#include "worker.h"

#include <dirent.h>
#include <fcntl.h>
#include <sys/mman.h>
#include <sys/stat.h>
#include <unistd.h>

#include <algorithm>
#include <chrono>
#include <csignal>
#include <cstdio>
#include <cstdlib>
#include <cstring>
#include <exception>
#include <iostream>
#include <set>

#include "sim.h"

// Sanitizer defaults: distinct exit code, no leak checking (simulated exits leak by design),
// reports to a per-pid log file because fd 2 is captured during runs.
extern "C" __attribute__((used)) const char* __asan_default_options() {
  return "exitcode=77:detect_leaks=0:alloc_dealloc_mismatch=0:allocator_may_return_null=1:"
         "handle_abort=1:log_path=/dev/shm/verif-san";
}
extern "C" __attribute__((used)) const char* __ubsan_default_options() {
  return "print_stacktrace=1:exitcode=77:log_path=/dev/shm/verif-san";
}

namespace sim {

static std::string g_scratch;
static FILE* g_proto = nullptr;
static int g_saved_out = -1, g_saved_err = -1, g_cap_out = -1, g_cap_err = -1;

std::string scratch_dir() { return g_scratch; }

static std::string g_scratch_real;   // the directory itself; g_scratch is the fixed-length name the simulated process sees

static void rm_scratch_at_exit() {
  if (g_scratch.empty()) return;
  clean_scratch();
  if (g_scratch_real != g_scratch) unlink(g_scratch.substr(0, g_scratch.size() - 1).c_str());
  rmdir(g_scratch_real.c_str());
}

// The simulated process reports paths in messages and files (a .sol names the intermediate solution files, the option echo
// names the graph file): their *length* must not depend on where the scratch directory lives or on the number of digits of
// the pid, or sizes of writes - and with them fingerprints - differ from process to process.  The directory is therefore
// reached through a symbolic link with a name of fixed length.
static void init_scratch() {
  const char* base = ::getenv("VERIF_SCRATCH");
  std::string b = base && *base ? base : "/dev/shm";
  g_scratch_real = b + "/verif." + std::to_string((long)getpid()) + "/";
  mkdir(g_scratch_real.c_str(), 0700);
  char link[64];
  snprintf(link, sizeof link, "/dev/shm/vs.%07ld", (long)getpid() % 10000000L);
  unlink(link);
  if (symlink(g_scratch_real.substr(0, g_scratch_real.size() - 1).c_str(), link) == 0) g_scratch = std::string(link) + "/";
  else g_scratch = g_scratch_real;
  atexit(rm_scratch_at_exit);
}

std::string norm_paths(const std::string& s) {
  if (g_scratch.empty() || s.size() < g_scratch.size() - 1) return s;
  const std::string bare = g_scratch.substr(0, g_scratch.size() - 1);   // without the trailing '/'
  size_t p = s.find(bare);
  if (p == std::string::npos) return s;
  std::string o;
  size_t from = 0;
  while (p != std::string::npos) {
    o.append(s, from, p - from);
    o += '@';
    from = p + bare.size();
    p = s.find(bare, from);
  }
  o.append(s, from, std::string::npos);
  return o;
}

void clean_scratch() {
  DIR* d = opendir(g_scratch.c_str());
  if (!d) return;
  while (dirent* e = readdir(d)) {
    if (!strcmp(e->d_name, ".") || !strcmp(e->d_name, "..")) continue;
    std::string p = g_scratch + e->d_name;
    if (unlink(p.c_str()) != 0) rmdir(p.c_str());
  }
  closedir(d);
}

std::vector<std::string> list_scratch() {
  std::vector<std::string> v;
  DIR* d = opendir(g_scratch.c_str());
  if (!d) return v;
  while (dirent* e = readdir(d)) {
    if (!strcmp(e->d_name, ".") || !strcmp(e->d_name, "..")) continue;
    v.push_back(e->d_name);
  }
  closedir(d);
  std::sort(v.begin(), v.end());
  return v;
}

bool write_file(const std::string& path, const std::string& bytes) {
  int fd = ::open(path.c_str(), O_WRONLY | O_CREAT | O_TRUNC, 0644);
  if (fd < 0) return false;
  size_t done = 0;
  while (done < bytes.size()) {
    ssize_t w = ::write(fd, bytes.data() + done, bytes.size() - done);
    if (w <= 0) { ::close(fd); return false; }
    done += (size_t)w;
  }
  ::close(fd);
  return true;
}
bool read_file(const std::string& path, std::string& out) {
  out.clear();
  int fd = ::open(path.c_str(), O_RDONLY);
  if (fd < 0) return false;
  char buf[65536];
  for (;;) {
    ssize_t r = ::read(fd, buf, sizeof buf);
    if (r <= 0) break;
    out.append(buf, (size_t)r);
  }
  ::close(fd);
  return true;
}
bool file_exists(const std::string& path) { struct stat st; return stat(path.c_str(), &st) == 0; }

static std::string g_cap_err_path;
static void rm_cap_err_at_exit() { if (!g_cap_err_path.empty()) unlink(g_cap_err_path.c_str()); }

void capture_begin() {
  fflush(stdout); fflush(stderr);
  if (g_cap_out < 0) {
    g_cap_out = memfd_create("simout", 0);
    // stderr of the simulated process goes to a real file named like the sanitizer logs, so that a
    // fatal UBSan report (which ignores log_path) survives the death of the worker and is picked up
    // by the supervisor together with the ASan log
    g_cap_err_path = "/dev/shm/verif-san." + std::to_string((long)getpid()) + ".stderr";
    g_cap_err = open(g_cap_err_path.c_str(), O_RDWR | O_CREAT | O_TRUNC | O_CLOEXEC, 0600);
    if (g_cap_err < 0) g_cap_err = memfd_create("simerr", 0);
    else atexit(rm_cap_err_at_exit);
    g_saved_out = dup(1);
    g_saved_err = dup(2);
  }
  if (ftruncate(g_cap_out, 0) != 0 || ftruncate(g_cap_err, 0) != 0) {}
  lseek(g_cap_out, 0, SEEK_SET); lseek(g_cap_err, 0, SEEK_SET);
  dup2(g_cap_out, 1); dup2(g_cap_err, 2);
}
static void slurp_fd(int fd, std::string& out) {
  out.clear();
  off_t n = lseek(fd, 0, SEEK_END);
  if (n <= 0) return;
  if (n > (8 << 20)) n = 8 << 20;
  out.resize((size_t)n);
  ssize_t r = pread(fd, &out[0], (size_t)n, 0);
  if (r < 0) r = 0;
  out.resize((size_t)r);
}
void capture_end(std::string& out, std::string& err) {
  fflush(stdout); fflush(stderr);
  clearerr(stdout); clearerr(stderr);
  dup2(g_saved_out, 1); dup2(g_saved_err, 2);
  slurp_fd(g_cap_out, out); slurp_fd(g_cap_err, err);
}

static void on_terminate() {
  if (g_proto) { fprintf(g_proto, "TERMINATE std::terminate called\n"); fflush(g_proto); }
  _Exit(78);
}

static double now_s() {
  using namespace std::chrono;
  return duration<double>(steady_clock::now().time_since_epoch()).count();
}

static std::string hex64(uint64_t v) { char b[20]; snprintf(b, sizeof b, "%016lx", (unsigned long)v); return b; }

static void merge_stats(Json& agg, const Json& st) {
  for (auto& kv : st.obj()) {
    long cur = agg[kv.first].as_int(0);
    agg.set(kv.first, cur + kv.second.as_int(0));
  }
}

static Json result_json(const RunResult& r) {
  Json j = Json::object();
  j.set("verdict", r.verdict); j.set("sig", r.sig); j.set("detail", r.detail);
  j.set("fp", hex64(r.fingerprint)); j.set("trace_sig", hex64(r.trace_sig));
  j.set("nontrivial", r.nontrivial); j.set("stats", r.stats); j.set("sim_time_s", r.sim_time_s);
  return j;
}

int worker_main(int argc, char** argv, Engine& engine) {
  std::set_terminate(on_terminate);
  init_scratch();
  g_proto = fdopen(dup(1), "w");
  setvbuf(g_proto, nullptr, _IOLBF, 0);

  std::string mode = argc > 1 ? argv[1] : "";
  std::string prop, tier = "quick", file;
  uint64_t seed = 1, start = 0, step = 1, count = 1;
  double time_limit = 0;
  bool emit_only = false;
  int samples = 3;
  for (int i = 2; i < argc; ++i) {
    std::string a = argv[i];
    auto next = [&]() -> std::string { return i + 1 < argc ? argv[++i] : ""; };
    if (a == "--prop") prop = next();
    else if (a == "--tier") tier = next();
    else if (a == "--seed") seed = strtoull(next().c_str(), nullptr, 10);
    else if (a == "--start") start = strtoull(next().c_str(), nullptr, 10);
    else if (a == "--step") step = strtoull(next().c_str(), nullptr, 10);
    else if (a == "--count") count = strtoull(next().c_str(), nullptr, 10);
    else if (a == "--time-limit") time_limit = atof(next().c_str());
    else if (a == "--emit-only") emit_only = true;
    else if (a == "--samples") samples = atoi(next().c_str());
    else file = a;
  }

  if (mode == "gen") {
    fprintf(g_proto, "HELLO engine=%s prop=%s tier=%s seed=%lu start=%lu step=%lu count=%lu enumerated=%lu\n",
            engine.name().c_str(), prop.c_str(), tier.c_str(), (unsigned long)seed, (unsigned long)start,
            (unsigned long)step, (unsigned long)count, (unsigned long)engine.enumerated(prop, tier));
    Json agg = Json::object();
    Json sample_list = Json::array();
    double t0 = now_s();
    double sim_time = 0;
    uint64_t done = 0, nontrivial = 0;
    for (uint64_t n = 0; n < count; ++n) {
      uint64_t i = start + n * step;
      if (time_limit > 0 && now_s() - t0 > time_limit) break;
      Json sc = engine.generate(prop, tier, seed, i);
      if (sc.is_null()) break;   // index space exhausted
      if (emit_only) { fprintf(g_proto, "SCEN %lu %s\n", (unsigned long)i, sc.dump().c_str()); continue; }
      fprintf(g_proto, "S %lu\n", (unsigned long)i);
      RunResult r = engine.run(sc);
      ++done;
      if (r.nontrivial) ++nontrivial;
      sim_time += r.sim_time_s;
      merge_stats(agg, r.stats);
      fprintf(g_proto, "R %lu %s %s %d %s\n", (unsigned long)i, hex64(r.fingerprint).c_str(),
              hex64(r.trace_sig).c_str(), r.nontrivial ? 1 : 0, r.verdict.c_str());
      if (r.verdict != "OK") {
        Json v = Json::object();
        v.set("index", (double)i); v.set("scenario", sc); v.set("result", result_json(r));
        fprintf(g_proto, "V %lu %s\n", (unsigned long)i, v.dump().c_str());
      }
      if (sim::g.tainted) {   // see Sim::begin(): retire after an asynchronously abandoned run
        Json st = Json::object();
        st.set("runs", (double)done); st.set("nontrivial", (double)nontrivial);
        st.set("wall_s", now_s() - t0); st.set("sim_time_s", sim_time);
        st.set("counters", agg); st.set("samples", sample_list);
        fprintf(g_proto, "STATS %s\n", st.dump().c_str());
        fprintf(g_proto, "RETIRE %lu\n", (unsigned long)(i + step));
        fflush(g_proto);
        _Exit(0);
      }
      if ((int)sample_list.size() < samples && (r.nontrivial || n < 1)) {
        Json s = Json::object();
        s.set("index", (double)i); s.set("scenario", sc); s.set("verdict", r.verdict);
        std::string d = s.dump();
        if (d.size() < 6000) sample_list.push(s);
      }
    }
    Json st = Json::object();
    st.set("runs", (double)done); st.set("nontrivial", (double)nontrivial);
    st.set("wall_s", now_s() - t0); st.set("sim_time_s", sim_time);
    st.set("counters", agg); st.set("samples", sample_list);
    fprintf(g_proto, "STATS %s\n", st.dump().c_str());
    fprintf(g_proto, "BYE\n");
    fflush(g_proto);
    return 0;
  }

  if (mode == "serve") {
    // one scenario JSON per input line; one RES line per scenario
    fprintf(g_proto, "READY\n");
    std::string line;
    while (std::getline(std::cin, line)) {
      if (line.empty()) continue;
      if (line == "QUIT") break;
      bool ok = false; std::string err;
      Json sc = Json::parse(line, &ok, &err);
      if (!ok) { fprintf(g_proto, "RES {\"verdict\":\"BAD_SCENARIO\",\"detail\":\"%s\"}\n", err.c_str()); continue; }
      fprintf(g_proto, "S 0\n");
      RunResult r = engine.run(sc);
      Json rj = result_json(r);
      if (sim::g.tainted) rj.set("retire", true);          // tells the supervisor that this process leaves now
      fprintf(g_proto, "RES %s\n", rj.dump().c_str());
      if (sim::g.tainted) { fflush(g_proto); _Exit(0); }   // the supervisor starts a fresh serve process on demand
    }
    return 0;
  }

  if (mode == "replay") {
    std::string text;
    if (!read_file(file, text)) { fprintf(stderr, "cannot read %s\n", file.c_str()); return 2; }
    bool ok = false; std::string err;
    Json rep = Json::parse(text, &ok, &err);
    if (!ok) { fprintf(stderr, "bad replay file: %s\n", err.c_str()); return 2; }
    const Json& sc = rep.has("scenario") ? rep["scenario"] : rep;
    RunResult r = engine.run(sc);
    Json out = result_json(r);
    fprintf(g_proto, "REPLAY %s\n", out.dump().c_str());
    fprintf(g_proto, "verdict: %s\nsig: %s\ndetail: %s\n", r.verdict.c_str(), r.sig.c_str(), r.detail.c_str());
    if (sim::g.tainted) { fflush(g_proto); _Exit(r.verdict == "OK" ? 0 : 1); }
    if (rep.has("expect_fp") && rep["expect_fp"].as_str() != hex64(r.fingerprint))
      fprintf(g_proto, "NOTE fingerprint differs from recorded (%s vs %s)\n", hex64(r.fingerprint).c_str(), rep["expect_fp"].as_str().c_str());
    return r.verdict == "OK" ? 0 : 1;
  }

  if (mode == "baseline") {
    Json sc = engine.baseline(prop);
    if (!sc.is_null()) fprintf(g_proto, "SCEN 0 %s\n", sc.dump().c_str());
    return 0;
  }

  if (mode == "describe") {
    fprintf(g_proto, "%s\n", engine.describe(prop).dump().c_str());
    return 0;
  }

  fprintf(stderr, "usage: %s gen|serve|replay|describe ...\n", argv[0]);
  return 2;
}

}  // namespace sim
