// Worker process protocol shared by all engines.
#pragma once
#include <cstdint>
#include <string>
#include <vector>

#include "json.h"

namespace sim {

struct RunResult {
  std::string verdict = "OK";   // "OK" or a violation class, e.g. "LOST_SIGNAL"
  std::string sig;              // signature: class + key, used for known-findings matching and shrinking
  std::string detail;           // human-readable explanation
  uint64_t fingerprint = 0;     // hash of the recorded history (+ observable outputs)
  uint64_t trace_sig = 0;       // hash of (fault trace, outcome class): the "distinct state" measure
  bool nontrivial = false;      // run exercised something beyond the plain path (by the property's rule)
  Json stats;                   // object: counter name -> integer (summed by the supervisor)
  double sim_time_s = 0;        // simulated time covered by this run
};

class Engine {
 public:
  virtual ~Engine() {}
  virtual std::string name() const = 0;
  virtual std::vector<std::string> props() const = 0;
  // Scenario i of (prop, tier, seed): a pure function of its arguments.
  virtual Json generate(const std::string& prop, const std::string& tier, uint64_t seed, uint64_t index) = 0;
  // Number of systematically enumerated scenarios at the start of the index space (0 = none).
  virtual uint64_t enumerated(const std::string& prop, const std::string& tier) { (void)prop; (void)tier; return 0; }
  virtual RunResult run(const Json& scenario) = 0;
  // A fault-free scenario that can be produced without running the system under test (null if generate() never does):
  // the supervisor falls back to it when every worker dies before its first scenario.
  virtual Json baseline(const std::string& prop) { (void)prop; return Json(); }
  // Static description for evidence (components real / stub, assumptions)
  virtual Json describe(const std::string& prop) { (void)prop; return Json::object(); }
};

int worker_main(int argc, char** argv, Engine& engine);

// helpers available to engines
std::string scratch_dir();                       // per-process scratch directory (ends with '/')
void clean_scratch();                            // remove all files inside
// Replace every occurrence of the (pid-bearing) scratch path by "@/": everything that is hashed
// into a fingerprint or trace signature goes through this, so that a run is a function of
// the scenario and not of the process it ran in.
std::string norm_paths(const std::string& s);
bool write_file(const std::string& path, const std::string& bytes);
bool read_file(const std::string& path, std::string& out);
bool file_exists(const std::string& path);
std::vector<std::string> list_scratch();

// stdout/stderr capture of the simulated process
void capture_begin();
void capture_end(std::string& out, std::string& err);

}  // namespace sim
