// Shared scenario-building helpers for drvsim properties.
#pragma once
#include <string>
#include "../core/json.h"
#include "../core/prng.h"

namespace drvsim {

// A tiny LP: 2 vars in [0,5], one range row 1 <= x0 + x1 <= 10, minimise x0 + 2 x1.
inline std::string tiny_lp_nl() {
  return
    "g3 1 1 0\t# problem tiny\n"
    " 2 1 1 1 0\t# vars, constraints, objectives, ranges, eqns\n"
    " 0 0\t# nonlinear constraints, objectives\n"
    " 0 0\t# network constraints: nonlinear, linear\n"
    " 0 0 0\t# nonlinear vars in constraints, objectives, both\n"
    " 0 0 0 1\t# linear network variables; functions; arith, flags\n"
    " 0 0 0 0 0\t# discrete variables: binary, integer, nonlinear (b,c,o)\n"
    " 2 2\t# nonzeros in Jacobian, gradients\n"
    " 0 0\t# max name lengths: constraints, variables\n"
    " 0 0 0 0 0\t# common exprs: b,c,o,c1,o1\n"
    "C0\nn0\n"
    "O0 0\nn0\n"
    "r\n0 1 10\n"
    "b\n0 0 5\n0 0 5\n"
    "k1\n1\n"
    "J0 2\n0 1\n1 1\n"
    "G0 2\n0 1\n1 2\n";
}

// Same with x1 integer (MIP).
inline std::string tiny_mip_nl() {
  std::string s = tiny_lp_nl();
  size_t p = s.find(" 0 0 0 0 0\t# discrete");
  s.replace(p, 10, " 0 1 0 0 0");
  return s;
}

inline sim::Json base_scenario(const std::string& nl, bool ampl_flag = true) {
  sim::Json sc = sim::Json::object();
  sim::Json files = sim::Json::object();
  files.set("stub.nl", nl);
  sc.set("files", files);
  sim::Json argv = sim::Json::array();
  argv.push("simdrv"); argv.push("@/stub");
  if (ampl_flag) argv.push("-AMPL");
  sc.set("argv", argv);
  sc.set("env", sim::Json::object());
  sc.set("script", sim::Json::object());
  sc.set("faults", sim::Json::array());
  sc.set("signals", sim::Json::array());
  return sc;
}

}  // namespace drvsim
