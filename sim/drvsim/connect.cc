// The one heavy translation unit: instantiates the whole flat converter for SimModelAPI.
#include "mp/flat/redef/MIP/converter_mip.h"
#include "mp/flat/model_api_connect.h"

#include "simapi.h"

namespace mp {

std::unique_ptr<BasicModelManager>
CreateSimModelMgr(drvsim::SimCommon& cc, Env& e, pre::BasicValuePresolver*& pPre) {
  return CreateModelMgrWithFlatConverter<drvsim::SimModelAPI, MIPFlatConverter>(cc, e, pPre);
}

}  // namespace mp
