#include <unistd.h>
#include "harness.h"

#include <csetjmp>
#include <csignal>
#include <cstring>

#include "mp/backend-app.h"   // defines non-inline functions: include in this TU only
extern "C" {
#include "mp/ampls-c-api.h"
}
#include "mp/ampls-cpp-api.h"

#include "../core/shim.h"
#include "simbackend.h"

/// the repository's sample driver (solvers/visitor/visitorbackend.cc)
std::unique_ptr<mp::BasicBackend> CreateVisitorBackend();

namespace drvsim {

static std::vector<Property>& registry() { static std::vector<Property> r; return r; }
void register_property(const Property& p) { registry().push_back(p); }
const Property* find_property(const std::string& id) {
  for (auto& p : registry()) if (id == p.id) return &p;
  return nullptr;
}

std::string subst(const std::string& s) {
  std::string out;
  const std::string& dir = sim::scratch_dir();
  for (size_t i = 0; i < s.size(); ++i) {
    if (s[i] == '@' && i + 1 < s.size() && s[i + 1] == '/') { out += dir; ++i; }
    else out += s[i];
  }
  return out;
}

// Reset the process-wide statics mp keeps in SignalHandler (stop_, handler_, data_, message).
static void normalise_signal_statics() {
  static std::unique_ptr<mp::BasicBackend> dummy;
  if (!dummy) dummy = CreateSimBackend();
  {
    mp::internal::SignalHandler sh(*dummy);
    sh.SetHandler(nullptr, nullptr);
  }
  signal(SIGINT, SIG_IGN); signal(SIGTERM, SIG_IGN);   // discards anything pending
  signal(SIGINT, SIG_DFL); signal(SIGTERM, SIG_DFL);
}

static RunRecord* g_rec = nullptr;

RunRecord run_driver(const sim::Json& sc) {
  static RunRecord rec_static;
  rec_static = RunRecord();
  RunRecord& rec = rec_static;
  g_rec = &rec;
  using sim::g;

  // ---- simulated disk
  sim::clean_scratch();
  for (auto& kv : sc["files"].obj()) {
    const bool optfile = kv.first.size() > 4 && kv.first.compare(kv.first.size() - 4, 4, ".opt") == 0;   // option files may name files: "@/" as in argv
    sim::write_file(sim::scratch_dir() + kv.first, optfile ? subst(kv.second.as_str()) : kv.second.as_str());
    rec.files_before[kv.first] = kv.second.as_str();
  }

  // symbolic links on the simulated disk: name -> target (both relative to the scratch directory)
  for (auto& kv : sc["symlinks"].obj()) {
    std::string from = sim::scratch_dir() + kv.first, to = sim::scratch_dir() + kv.second.as_str();
    (void)!symlink(to.c_str(), from.c_str());
  }

  // ---- simulator configuration
  g.reset();
  sim::shim_reset();
  g.scratch = sim::scratch_dir();
  for (auto& kv : sc["env"].obj()) g.env[kv.first] = subst(kv.second.as_str());
  for (auto& f : sc["faults"].arr()) g.faults.push_back(sim::FaultOp::from_json(f));
  for (auto& s : sc["signals"].arr()) g.signals.push_back(sim::SignalOp::from_json(s));
  if (sc.has("clock_step_ns")) g.clock_step_ns = sc["clock_step_ns"].as_int(1000000);
  if (sc.has("clock_yield_ns")) g.clock_yield_ns = sc["clock_yield_ns"].as_int(1000);
  if (sc.has("alloc_fail_nth")) g.alloc_fail_nth = sc["alloc_fail_nth"].as_int(-1);
  if (sc.has("max_yields")) g.max_yields = (uint64_t)sc["max_yields"].as_int(1000000);
  if (sc.has("stdio_bufsize")) g.stdio_bufsize = sc["stdio_bufsize"].as_int(0);

  g_stub.clear();
  g_script = sc["script"].is_obj() ? sc["script"] : sim::Json::object();
  g_dual_mode = (int)g_script["dual_mode"].as_int(0);
  g_cb_calls = 0;
  g_session = 0; g_session_regs = 0;

  normalise_signal_statics();

  // ---- argv as exact-size heap copies
  std::vector<char*> argv;
  for (auto& a : sc["argv"].arr()) {
    std::string s = subst(a.as_str());
    char* p = (char*)malloc(s.size() + 1);
    memcpy(p, s.c_str(), s.size() + 1);
    argv.push_back(p);
  }
  if (argv.empty()) { char* p = (char*)malloc(7); memcpy(p, "simdrv", 7); argv.push_back(p); }
  argv.push_back(nullptr);

  sim::capture_begin();
  static sigjmp_buf jb;
  g.exit_jmp = &jb;
  g.begin();
  if (sigsetjmp(jb, 1) == 0) {
    try {
      if (sc["driver"].as_str() == "mini") {
        // history: one application object of the minimal driver serves several Run() calls with the scenario's command line
        // (same exception mapping as mp::RunBackendApp)
        try {
          mp::BackendApp app(CreateMiniBackend());
          long runs = sc["mini_runs"].as_int(1);
          for (long q = 0; q < runs; ++q) {
            g.event("MINI_RUN " + std::to_string(q));
            rec.ret = app.Run(argv.data());
          }
        } catch (const mp::Error& e) { fmt::print(stderr, "Error: {}\n", e.what()); rec.ret = e.exit_code(); }
        catch (const std::exception& e) { fmt::print(stderr, "Error: {}\n", e.what()); rec.ret = EXIT_FAILURE; }
      } else if (sc["driver"].as_str() == "direct" || sc["driver"].as_str() == "lean") {
        // a driver whose main() uses the application class itself instead of the RunBackendApp() helper
        // (same exception mapping; nothing but construction and Run)
        try {
          mp::BackendApp app(sc["driver"].as_str() == "lean" ? CreateLeanBackend() : CreateSimBackend());
          rec.ret = app.Run(argv.data());
          // history: the application hands the same backend another model file (here: the same one again)
          for (long q = 0; q < sc["rerun_backend"].as_int(0); ++q) {
            g.event("RERUN_BACKEND " + std::to_string(q));
            try { app.GetBackend().RunFromNLFile(sim::scratch_dir() + "stub.nl", sim::scratch_dir() + "stub"); g.event("RERUN_DONE"); }
            catch (const std::exception& e) { g.event(std::string("RERUN_FAILED ") + e.what()); }
          }
        } catch (const mp::Error& e) { fmt::print(stderr, "Error: {}\n", e.what()); rec.ret = e.exit_code(); }
        catch (const std::exception& e) { fmt::print(stderr, "Error: {}\n", e.what()); rec.ret = EXIT_FAILURE; }
      } else
      rec.ret = sc["driver"].as_str() == "visitor" ? mp::RunBackendApp(argv.data(), CreateVisitorBackend)
                                                   : mp::RunBackendApp(argv.data(), CreateSimBackend);
    } catch (const std::exception& e) {
      rec.escaped = true; rec.escaped_what = e.what();
    } catch (...) {
      rec.escaped = true; rec.escaped_what = "non-std exception";
    }
  } else {
    // simulated process exit
  }
  g.end();
  signal(SIGINT, SIG_IGN); signal(SIGTERM, SIG_IGN);
  signal(SIGINT, SIG_DFL); signal(SIGTERM, SIG_DFL);
  sim::capture_end(rec.out, rec.err);
  g.exit_jmp = nullptr;
  for (char* p : argv) free(p);

  rec.exited = g.exited; rec.exit_code = g.exit_code;
  rec.step_budget_exceeded = g.step_budget_exceeded;
  rec.stub = g_stub;
  rec.history = g.history;
  rec.hash = g.hash;
  rec.fired = g.fired;
  for (auto& kv : g.occ) rec.census[kv.first] = kv.second;
  rec.signals_delivered = g.signals_delivered;
  rec.sim_time_s = (g.clock_ns - g.clock_start_ns) * 1e-9;
  rec.faults = g.faults;
  rec.signals = g.signals;
  for (auto& name : sim::list_scratch()) {
    std::string data;
    if (sim::read_file(sim::scratch_dir() + name, data)) rec.files_after[name] = data;
  }
  return rec;
}


RunRecord run_ampls_session(const sim::Json& sc) {
  static RunRecord rec_static;
  rec_static = RunRecord();
  RunRecord& rec = rec_static;
  using sim::g;
  sim::clean_scratch();
  for (auto& kv : sc["files"].obj()) {
    sim::write_file(sim::scratch_dir() + kv.first, kv.second.as_str());
    rec.files_before[kv.first] = kv.second.as_str();
  }
  g.reset();
  sim::shim_reset();
  g.scratch = sim::scratch_dir();
  for (auto& kv : sc["env"].obj()) g.env[kv.first] = subst(kv.second.as_str());
  for (auto& f : sc["faults"].arr()) g.faults.push_back(sim::FaultOp::from_json(f));
  g_stub.clear();
  const sim::Json& ses = sc["session"];
  g_script = sim::Json::object();
  g_dual_mode = 0; g_cb_calls = 0;
  normalise_signal_statics();
  std::vector<std::string> lopt_s; std::vector<char*> lopt;
  for (auto& a : ses["load_options"].arr()) lopt_s.push_back(subst(a.as_str()));
  for (auto& s0 : lopt_s) lopt.push_back((char*)s0.c_str());
  lopt.push_back(nullptr);
  sim::capture_begin();
  static sigjmp_buf jb;
  g.exit_jmp = &jb;
  g.begin();
  AMPLS_MP_Solver* slv = nullptr;
  if (sigsetjmp(jb, 1) == 0) {
    try {
      if (ses["rounds"].size()) g_script = ses["rounds"][(size_t)0]["script"];   // the backend constructor reads some of it
      slv = AMPLS__internal__Open(CreateSimBackend(), {});
      for (auto& o : ses["api_options"].arr()) {
        std::string name = o[(size_t)0].as_str(), type = o[(size_t)1].as_str();
        int rc = type == "int" ? AMPLSSetIntOption(slv, name.c_str(), (int)o[(size_t)2].as_int())
               : type == "dbl" ? AMPLSSetDblOption(slv, name.c_str(), o[(size_t)2].as_double())
                               : AMPLSSetStrOption(slv, name.c_str(), subst(o[(size_t)2].as_str()).c_str());
        g.event("API_SET " + name + " rc=" + std::to_string(rc));
      }
      std::string nl = sim::scratch_dir() + "stub.nl";
      rec.rc_load = AMPLSLoadNLModel(slv, nl.c_str(), ses["load_options_null"].as_bool() ? nullptr : lopt.data());   // NULL: "no extra options" - the environment still applies
      g.event("API_LOAD rc=" + std::to_string(rec.rc_load));
      for (auto& rd : ses["rounds"].arr()) {
        RunRecord::Round r;
        g_script = rd["script"];
        g_dual_mode = (int)g_script["dual_mode"].as_int(0);
        if (rec.rc_load == 0) {
          // AMPLSSolve is a void pass-through to the backend: what the solver (or a solution check / an intermediate-solution
          // write inside the solve) throws is the caller's to catch; such a round ends there
          try { AMPLSSolve(slv); } catch (const std::exception& e) { r.solve_exc = e.what(); if (r.solve_exc.empty()) r.solve_exc = "?"; }
        }
        if (rec.rc_load == 0 && r.solve_exc.empty()) {
          std::string f = rd["solfile"].is_null() ? std::string() : subst(rd["solfile"].as_str());
          r.rc_report = AMPLSReportResults(slv, rd["solfile"].is_null() ? nullptr : f.c_str());
        }
        g.event("API_ROUND report_rc=" + std::to_string(r.rc_report));
        for (auto& name : sim::list_scratch()) {
          if (name.size() < 4 || name.compare(name.size() - 4, 4, ".sol") != 0) continue;
          std::string data;
          if (sim::read_file(sim::scratch_dir() + name, data)) r.sol_files[name] = data;
        }
        r.stub_objs = (int)g_stub.objs.size();
        rec.rounds.push_back(r);
      }
      if (const char* const* msgs = AMPLSGetMessages(slv)) for (; *msgs; ++msgs) rec.api_messages.push_back(*msgs);
      AMPLS__internal__Close(slv);
      slv = nullptr;
    } catch (const std::exception& e) {
      rec.escaped = true; rec.escaped_what = e.what();
    } catch (...) {
      rec.escaped = true; rec.escaped_what = "non-std exception";
    }
  }
  g.end();
  signal(SIGINT, SIG_IGN); signal(SIGTERM, SIG_IGN);
  signal(SIGINT, SIG_DFL); signal(SIGTERM, SIG_DFL);
  sim::capture_end(rec.out, rec.err);
  g.exit_jmp = nullptr;
  rec.exited = g.exited; rec.exit_code = g.exit_code;
  rec.step_budget_exceeded = g.step_budget_exceeded;
  rec.stub = g_stub;
  rec.history = g.history;
  rec.hash = g.hash;
  rec.fired = g.fired;
  rec.sim_time_s = (g.clock_ns - g.clock_start_ns) * 1e-9;
  rec.faults = g.faults;
  for (auto& name : sim::list_scratch()) {
    std::string data;
    if (sim::read_file(sim::scratch_dir() + name, data)) rec.files_after[name] = data;
  }
  return rec;
}

void fill_result(const RunRecord& rec, sim::RunResult& r) {
  uint64_t h = rec.hash;
  h = sim::fnv1a(sim::norm_paths(rec.out), h);
  h = sim::fnv1a(sim::norm_paths(rec.err), h);
  for (auto& kv : rec.files_after) { h = sim::fnv1a(kv.first, h); h = sim::fnv1a(sim::norm_paths(kv.second), h); }
  for (auto& c : rec.stub.calls) h = sim::fnv1a(sim::norm_paths(c), h);
  int rc = rec.exit_status();
  h = sim::fnv1a(&rc, sizeof rc, h);
  r.fingerprint = h;
  r.sim_time_s = rec.sim_time_s;
  if (!r.stats.is_obj()) r.stats = sim::Json::object();
  for (auto& kv : rec.fired) r.stats.set("fired." + kv.first, kv.second);
  r.stats.set("signals_delivered", rec.signals_delivered);
  if (rec.exited) r.stats.set("simulated_exits", 1);
  // trace signature: ordered fault/signal events + outcome class
  uint64_t t = 1469598103934665603ULL;
  for (auto& e : rec.history)
    if (e.compare(0, 6, "FAULT ") == 0 || e.compare(0, 7, "SIGNAL ") == 0 || e.compare(0, 5, "EXIT ") == 0) t = sim::fnv1a(e, t);
  r.trace_sig = t;
}

void dump_record(const RunRecord& rec) {
  fprintf(stderr, "---- ret=%d exited=%d code=%d escaped=%d %s\n", rec.ret, rec.exited, rec.exit_code, rec.escaped, rec.escaped_what.c_str());
  fprintf(stderr, "---- stdout:\n%s\n---- stderr:\n%s\n", rec.out.c_str(), rec.err.c_str());
  for (auto& kv : rec.files_after)
    if (!rec.files_before.count(kv.first) || rec.files_before.at(kv.first) != kv.second)
      fprintf(stderr, "---- file %s (%zu bytes):\n%s\n", kv.first.c_str(), kv.second.size(), kv.second.c_str());
  fprintf(stderr, "---- stub: %zu vars, %zu cons, %zu objs\n", rec.stub.vars.size(), rec.stub.cons.size(), rec.stub.objs.size());
  for (size_t j = 0; j < rec.stub.vars.size(); ++j) fprintf(stderr, "  var[%zu] [%g,%g] t%d %s'%s'\n", j, rec.stub.vars[j].lb, rec.stub.vars[j].ub, rec.stub.vars[j].type, rec.stub.vars[j].has_name ? "" : "(no names) ", rec.stub.vars[j].name.c_str());
  for (auto& o : rec.stub.objs) {
    fprintf(stderr, "  obj[%d] sense %d '%s' %zu lin %zu quad:", o.iobj, o.sense, o.name.c_str(), o.lin.size(), o.quad.size());
    for (auto& t : o.lin) fprintf(stderr, " %.17g*x%d", t.coef, t.var);
    fprintf(stderr, "\n");
  }
  for (auto& c : rec.stub.cons) fprintf(stderr, "  con[%d] g%d#%d %s '%s' %s\n", c.order, c.group, c.idx_in_group, c.type.c_str(), c.name.c_str(), c.json.c_str());
  for (auto& c : rec.stub.calls) fprintf(stderr, "  call %s\n", c.c_str());
  fprintf(stderr, "---- history:\n");
  for (auto& e : rec.history) fprintf(stderr, "  %s\n", e.c_str());
}

}  // namespace drvsim

// in-process driver entry for the intercepted system() of the C08 loop
namespace mp {
int RunBackendApp_forC08(char** argv) { return RunBackendApp(argv, drvsim::CreateSimBackend); }
}

// ------------------------------------------------------------------ engine
namespace {

class DrvEngine : public sim::Engine {
 public:
  std::string name() const override { return "drvsim"; }
  std::vector<std::string> props() const override { return {}; }
  sim::Json generate(const std::string& prop, const std::string& tier, uint64_t seed, uint64_t index) override {
    const drvsim::Property* p = drvsim::find_property(prop);
    if (!p) return sim::Json();
    sim::Json sc = p->generate(tier, seed, index);
    if (!sc.is_null()) sc.set("prop", prop);
    return sc;
  }
  sim::Json baseline(const std::string& prop) override {
    const drvsim::Property* p = drvsim::find_property(prop);
    if (!p || !p->baseline) return sim::Json();
    sim::Json sc = p->baseline();
    sc.set("prop", prop);
    return sc;
  }
  uint64_t enumerated(const std::string& prop, const std::string& tier) override {
    const drvsim::Property* p = drvsim::find_property(prop);
    return p && p->enumerated ? p->enumerated(tier) : 0;
  }
  sim::RunResult run(const sim::Json& sc) override {
    sim::RunResult r;
    const drvsim::Property* p = drvsim::find_property(sc["prop"].as_str());
    if (!p) { r.verdict = "BAD_SCENARIO"; r.detail = "unknown property"; return r; }
    auto hang_rule = [&](sim::RunResult& rr) {
      // whatever the property: a run that had to be cut off by the step / allocation / CPU budget did not terminate
      if (sim::g.step_budget_exceeded && rr.verdict == "OK") {
        rr.verdict = "HANG"; rr.sig = sc["prop"].as_str() + ":HANG:budget";
        rr.detail = std::string("the simulated run was cut off by the ") + (sim::g.tainted ? "CPU-time" : "step/allocation") + " budget";
      }
    };
    if (p->run) { r = p->run(sc); hang_rule(r); return r; }
    if (sc.has("session")) {
      drvsim::RunRecord rec = drvsim::run_ampls_session(sc);
      drvsim::fill_result(rec, r);
      p->judge(sc, rec, r);
      if (::getenv("VERIF_DUMP")) drvsim::dump_record(rec);
      hang_rule(r);
      return r;
    }
    drvsim::RunRecord rec = drvsim::run_driver(sc);
    drvsim::fill_result(rec, r);
    p->judge(sc, rec, r);
    hang_rule(r);
    if (sc["nl_binary"].as_bool()) { r.stats.set("input.binary_nl", 1); r.trace_sig = sim::fnv1a(std::string("binary-nl"), r.trace_sig); }
    if (::getenv("VERIF_DUMP")) drvsim::dump_record(rec);
    return r;
  }
};

}  // namespace

int main(int argc, char** argv) {
  DrvEngine e;
  return sim::worker_main(argc, argv, e);
}
