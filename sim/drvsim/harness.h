// drvsim harness: runs one whole simulated driver process (mp::RunBackendApp with the
// solver stub) under the simulator and returns everything the oracles may look at.
#pragma once
#include <map>
#include <string>
#include <vector>

#include "../core/json.h"
#include "../core/sim.h"
#include "../core/worker.h"
#include "simapi.h"

namespace drvsim {

struct RunRecord {
  int ret = 0;                     // return value of RunBackendApp
  bool exited = false;             // simulated exit()/_exit()
  int exit_code = 0;
  bool escaped = false;            // an exception escaped RunBackendApp
  std::string escaped_what;
  bool step_budget_exceeded = false;
  std::string out, err;            // captured stdout / stderr
  std::map<std::string, std::string> files_before, files_after;   // simulated disk
  StubModel stub;                  // what the solver stub received and did
  std::vector<std::string> history;
  uint64_t hash = 0;
  std::map<std::string, long> fired;
  std::map<std::string, int> census;
  int signals_delivered = 0;
  double sim_time_s = 0;
  std::vector<sim::FaultOp> faults;   // with fired flags
  std::vector<sim::SignalOp> signals; // with fired flags
  int exit_status() const { return exited ? exit_code : ret; }
  // AMPLS-API sessions: per round, the return codes of the API calls and the .sol files on the simulated disk afterwards
  struct Round { int rc_solve = 0, rc_report = 0; std::string solve_exc; std::map<std::string, std::string> sol_files; int stub_objs = -1; };
  std::vector<Round> rounds;
  int rc_load = 0;
  std::vector<std::string> api_messages;
};

// "@/" in argv / env / option strings is replaced by the scratch directory.
std::string subst(const std::string& s);

RunRecord run_driver(const sim::Json& scenario);
// One solver instance driven through the AMPLS C API (src/solver.cc: AMPLS__internal__Open, AMPLSSet*Option, AMPLSLoadNLModel, then
// rounds of AMPLSSolve + AMPLSReportResults to the standard or a named .sol file) instead of one RunBackendApp run.
// scenario.session = {api_options:[[name,type,value]...], load_options:[...], rounds:[{script:{...}, solfile:"name.sol"|null}...]}
RunRecord run_ampls_session(const sim::Json& scenario);

// Fill the generic parts of a RunResult from a record (fingerprint, stats, sim time).
void fill_result(const RunRecord& rec, sim::RunResult& r);
void dump_record(const RunRecord& rec);

// Short, stable constraint type label for signatures ("LinConEQ", "Cond", "Indicator", "SOS1Constraint", ...)
inline std::string short_type(const std::string& t) {
  auto rhs = [&](const std::string& s) {
    if (s.find("Range") != std::string::npos) return std::string("Range");
    size_t p = s.find("Rhs");
    return p == std::string::npos ? std::string() : s.substr(p + 3, 2);
  };
  if (t.compare(0, 11, "Conditional") == 0) return "Cond";
  if (t.compare(0, 19, "IndicatorConstraint") == 0) return "Indicator";
  if (t.compare(0, 19, "AlgebraicConstraint") == 0)
    return std::string(t.find("Quad") != std::string::npos ? "QuadCon" : "LinCon") + rhs(t);
  return t.substr(0, 40);
}

// Property plug-ins
struct Property {
  const char* id;
  sim::Json (*generate)(const std::string& tier, uint64_t seed, uint64_t index);
  uint64_t (*enumerated)(const std::string& tier);
  void (*judge)(const sim::Json& scenario, const RunRecord& rec, sim::RunResult& r);
  // optional custom runner (e.g. C04 runs two driver instances); null = run_driver + judge
  sim::RunResult (*run)(const sim::Json& scenario);
  // optional: a fault-free scenario obtainable without running the driver (for properties whose generator runs it)
  sim::Json (*baseline)() = nullptr;
};
void register_property(const Property& p);
const Property* find_property(const std::string& id);

#define DRVSIM_REGISTER(p) static struct Reg_##p { Reg_##p() { drvsim::register_property(p); } } reg_##p

}  // namespace drvsim
