// A second, minimal driver party: derived from mp::BasicBackend only, the way a driver that does not use the
// StdBackend / model-manager stack is written.  Everything it does happens in RunFromNLFile(): hand its
// interrupt callbacks to the interrupter (scripted as for the main stub), "solve" with stop polls, print a message.
// Its application object (the real mp::BackendApp) can be run repeatedly.
#include "simbackend.h"

namespace drvsim {
namespace {

class MiniBackend : public mp::BasicBackend {
 public:
  void RunFromNLFile(const std::string& nl, const std::string&) override {
    sim::g.yield("stub", "stub.SetInterrupter");
    mp::Interrupter* inter = interrupter();
    do_registrations(inter, -1);
    long iters = g_script["solve_iters"].as_int(2);
    for (long it = 0; it < iters; ++it) {
      sim::g.yield("stub", "stub.solve.iter");
      do_registrations(inter, (int)it);
      bool st = inter->Stop();
      sim::g.event(std::string("STOP_POLL ") + (st ? "1" : "0"));
    }
    sim::g.yield("stub", "stub.solve.end");
    bool st = inter->Stop();
    sim::g.event(std::string("STOP_POLL ") + (st ? "1" : "0"));
    fmt::print("MINIDRV: done with {}\n", nl.size());
    std::fflush(stdout);
    st = inter->Stop();
    sim::g.event(std::string("STOP_POLL ") + (st ? "1" : "0"));
  }
  void ReadNL(const std::string&, const std::string&, char**) override {}
  void InputExtras() override {}
  void ReportResults() override {}
  void ReportError(int code, fmt::CStringRef msg) override { fmt::print(stderr, "MINIDRV error {}: {}\n", code, msg.c_str()); }
};

}  // namespace

std::unique_ptr<mp::BasicBackend> CreateMiniBackend() { return std::unique_ptr<mp::BasicBackend>{new MiniBackend()}; }

}  // namespace drvsim
