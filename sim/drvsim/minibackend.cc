// A second, minimal driver party: derived from mp::BasicBackend only, the way a driver that does not use the
// StdBackend / model-manager stack is written.  Everything it does happens in RunFromNLFile(): hand its
// interrupt callbacks to the interrupter (scripted as for the main stub), "solve" with stop polls, print a message.
// Its application object (the real mp::BackendApp) can be run repeatedly.
#include "simbackend.h"
#include "mp/backend-std.h"

namespace drvsim {
namespace {

class MiniBackend : public mp::BasicBackend {
 public:
  void RunFromNLFile(const std::string& nl, const std::string&) override {
    sim::g.yield("stub", "stub.SetInterrupter");
    mp::Interrupter* inter = interrupter();
    do_registrations(inter, -1);
    long iters = g_script["solve_iters"].as_int(2);
    for (long it = 0; it < iters; ++it) {
      sim::g.yield("stub", "stub.solve.iter");
      do_registrations(inter, (int)it);
      bool st = inter->Stop();
      sim::g.event(std::string("STOP_POLL ") + (st ? "1" : "0"));
    }
    sim::g.yield("stub", "stub.solve.end");
    bool st = inter->Stop();
    sim::g.event(std::string("STOP_POLL ") + (st ? "1" : "0"));
    fmt::print("MINIDRV: done with {}\n", nl.size());
    std::fflush(stdout);
    st = inter->Stop();
    sim::g.event(std::string("STOP_POLL ") + (st ? "1" : "0"));
  }
  void ReadNL(const std::string&, const std::string&, char**) override {}
  void InputExtras() override {}
  void ReportResults() override {}
  void ReportError(int code, fmt::CStringRef msg) override { fmt::print(stderr, "MINIDRV error {}: {}\n", code, msg.c_str()); }
};

// A third party: a driver on mp::StdBackend whose model manager does nothing (the model is the solver's business there), so
// that the same backend object can be handed a model file any number of times.  It opens a new solver session whenever its
// options have been parsed and registers the session in use when the framework asks for it (SetInterrupter).
class NoModelManager : public mp::BasicModelManager {
 public:
  void InitOptions() override {}
  void ReadNLModel(const std::string&, const std::string&, Checker_AMPLS_ModeltTraits, std::function<void()> after_header) override { after_header(); }
  mp::ArrayRef<double> InitialValues() override { return {}; }
  mp::ArrayRef<int> InitialValuesSparsity() override { return {}; }
  mp::ArrayRef<double> InitialDualValues() override { return {}; }
  mp::ArrayRef<int> InitialDualValuesSparsity() override { return {}; }
  mp::ArrayRef<int> ReadSuffix(const mp::SuffixDef<int>&) override { return {}; }
  mp::ArrayRef<double> ReadSuffix(const mp::SuffixDef<double>&) override { return {}; }
  void ReportSuffix(const mp::SuffixDef<int>&, mp::ArrayRef<int>) override {}
  void ReportSuffix(const mp::SuffixDef<double>&, mp::ArrayRef<double>) override {}
  size_t GetSuffixSize(int) override { return 0; }
  void SetSolutionFileName(const std::string&) override {}
  void HandleSolution(int, fmt::CStringRef, const double*, const double*, double) override {}
  void HandleFeasibleSolution(int, fmt::CStringRef, const double*, const double*, double) override {}
  const std::vector<bool>& IsVarInt() const override { return is_int_; }
  bool HasUnfixedIntVars() const override { return false; }
 private:
  std::vector<bool> is_int_;
};

class LeanBackend : public mp::StdBackend<LeanBackend> {
 public:
  LeanBackend() { SetMM(std::unique_ptr<mp::BasicModelManager>(new NoModelManager)); }
  static const char* GetSolverName() { return "LeanSolver"; }
  static std::string GetSolverVersion() { return "1.0"; }
  static const char* GetAMPLSolverName() { return "leandrv"; }
  static double Infinity() { return 1e100; }
  static double MinusInfinity() { return -1e100; }
  void FinishOptionParsing() override {
    sim::g.yield("stub", "stub.FinishOptionParsing");
    if (g_script["session_reopen"].as_bool(true)) { g_session = (g_session + 1) % 16; sim::g.event("SESSION_OPEN cell" + std::to_string(g_session)); }
  }
  mp::Solution GetSolution() override { return {}; }
  mp::ArrayRef<double> GetObjectiveValues() override { return {}; }
  bool IsMIP() const override { return false; }
  void SetInterrupter(mp::Interrupter* inter) override {
    sim::g.yield("stub", "stub.SetInterrupter");
    do_registrations(inter, -1);
  }
  void Solve() override {
    mp::Interrupter* inter = interrupter();
    sim::g.event("SOLVE_SESSION cell" + std::to_string(g_session));
    long iters = g_script["solve_iters"].as_int(2);
    for (long it = 0; it < iters; ++it) {
      sim::g.yield("stub", "stub.solve.iter");
      bool st = inter->Stop();
      sim::g.event(std::string("STOP_POLL ") + (st ? "1" : "0"));
    }
    sim::g.yield("stub", "stub.solve.end");
    bool st = inter->Stop();
    sim::g.event(std::string("STOP_POLL ") + (st ? "1" : "0"));
    sim::g.event("SOLVE_END");
  }
};

}  // namespace

std::unique_ptr<mp::BasicBackend> CreateLeanBackend() { return std::unique_ptr<mp::BasicBackend>{new LeanBackend()}; }

std::unique_ptr<mp::BasicBackend> CreateMiniBackend() { return std::unique_ptr<mp::BasicBackend>{new MiniBackend()}; }

}  // namespace drvsim
