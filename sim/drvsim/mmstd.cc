// ModelManagerWithPB<mp::Problem> instantiation (separate TU for compile speed)
#include "mp/model-mgr-with-std-pb.hpp"
