// C04 — solutions and suffixes return to the original model's items intact.
// The solver stub answers with unique tags per delivered variable / row; the oracle matches
// original linear constraints to delivered rows BY CONTENT (unique coefficient tags) and checks
// that each value came back to / arrived at the right item, in both directions, and that a
// transfer's result does not depend on the transfers performed before it.
#include <cmath>
#include <map>
#include <set>

#include <functional>
#include <cmath>
#include "harness.h"
#include "scen.h"
#include "simbackend.h"
#include "../oracle/solparse.h"

namespace drvsim {
namespace {

const int CG_LIN = 3, CG_QUAD = 4;   // mp::CG_Linear, mp::CG_Quadratic

sim::Json generate(const std::string& tier, uint64_t seed, uint64_t index) {
  (void)tier;
  sim::Rng rng(seed, "C04", index);
  gen::GenOptions go;
  go.p_nonlinear = 0.5; go.allow_unsupported = false; go.allow_unbounded = false;
  go.max_cons = 6; go.max_lcons = 2; go.max_objs = 2; go.max_depth = 2;
  go.want_suffixes = true;
  gen::Model m = gen::generate(rng, go);
  for (auto& v : m.vars) if (v.lb == v.ub) v.ub = v.lb + 2;
  // now and then one original variable is fixed by its bounds at a constant that also occurs in an expression of the model
  // (the converter keeps one fixed column per constant value; an original variable must not be taken for it)
  {
    std::vector<double> consts;
    std::function<void(const gen::Expr&)> walk = [&](const gen::Expr& e) { if (e.kind == 'n' && e.num == std::floor(e.num) && std::fabs(e.num) < 1000) consts.push_back(e.num); for (auto& a : e.args) walk(a); };
    for (auto& a : m.cons) if (a.has_nl) walk(a.nl);
    for (auto& o : m.objs) if (o.has_nl) walk(o.nl);
    consts.push_back(0.0); consts.push_back(1.0);
    bool fixone = rng.chance(0.15);
    int fj = (int)rng.below((uint64_t)m.nvars()); double fc = consts[rng.below(consts.size())];
    if (fixone && !(m.vars[(size_t)fj].integer && fc != std::floor(fc))) { m.vars[(size_t)fj].lb = m.vars[(size_t)fj].ub = fc; }
  }
  // input values inside the bounds (PresolveSolution clamps to bounds)
  m.x0.clear(); m.d0.clear();
  if (rng.chance(0.6)) for (int j = 0; j < m.nvars(); ++j) if (rng.chance(0.8)) {
    double lo = m.vars[j].lb, hi = m.vars[j].ub;
    double v = lo + (hi - lo) * (0.1 + 0.8 * rng.real());
    if (m.vars[j].integer) v = std::floor(v);
    if (v < lo) v = lo;
    m.x0.push_back({j, v});
  }
  if (rng.chance(0.5)) for (int i = 0; i < (int)m.cons.size(); ++i) if (rng.chance(0.8)) m.d0.push_back({i, 40000.0 + i + 0.375});
  // suffix inputs: make them frequent here
  auto has_suf = [&](const char* n, int kind) { for (auto& s : m.suffixes) if (s.name == n && s.kind == kind) return true; return false; };
  if (!has_suf("priority", 0) && rng.chance(0.5)) { gen::Suffix s; s.name = "priority"; s.kind = 0; for (int j = 0; j < m.nvars(); ++j) if (rng.chance(0.7)) s.values.push_back({j, (double)(100 + j)}); if (!s.values.empty()) m.suffixes.push_back(s); }
  if (!has_suf("lazy", 1) && !m.cons.empty() && rng.chance(0.5)) { gen::Suffix s; s.name = "lazy"; s.kind = 1; for (int i = 0; i < (int)m.cons.size(); ++i) if (rng.chance(0.7)) s.values.push_back({i, (double)((i % 2) ? 1 : -1)}); if (!s.values.empty()) m.suffixes.push_back(s); }
  if (!has_suf("sstatus", 0) && !m.cons.empty() && rng.chance(0.5)) {
    gen::Suffix s; s.name = "sstatus"; s.kind = 0; for (int j = 0; j < m.nvars(); ++j) s.values.push_back({j, (double)(1 + (j % 6))}); m.suffixes.push_back(s);
    gen::Suffix t; t.name = "sstatus"; t.kind = 1; for (int i = 0; i < (int)m.cons.size(); ++i) t.values.push_back({i, (double)(1 + ((i + 2) % 6))}); m.suffixes.push_back(t);
  }
  // drop SOS suffixes: they change the delivered model in ways unrelated to this property
  for (size_t k = 0; k < m.suffixes.size();) { if (m.suffixes[k].name == "sosno" || m.suffixes[k].name == "ref" || m.suffixes[k].name == "sos" || m.suffixes[k].name == "sosref") m.suffixes.erase(m.suffixes.begin() + k); else ++k; }

  sim::Json sc = model_scenario(m, true, rng.chance(0.3));
  std::vector<std::string> opts;
  int prof = (int)rng.below(4);
  if (prof == 0) { opts.push_back("acc:linrange=0"); opts.push_back("acc:quadrange=0"); }
  else if (prof == 1) { auto a = acc_profile(rng); opts.insert(opts.end(), a.begin(), a.end()); }
  else if (prof == 2) { opts.push_back("acc:linrange=0"); auto a = acc_profile(rng); for (auto& o : a) if (o.compare(0, 12, "acc:linrange") != 0) opts.push_back(o); }
  opts.push_back("sol:chk:mode=0");
  opts.push_back("mip:basis=1");
  opts.push_back("alg:basis=3");
  opts.push_back("alg:start=" + std::to_string(rng.below(3)));
  opts.push_back("mip:lazy=3");
  opts.push_back("mip:priorities=1");
  if (rng.chance(0.5)) opts.push_back("alg:iisfind=1");
  if (rng.chance(0.3)) opts.push_back("alg:sens=1");
  if (rng.chance(0.2)) opts.push_back("cvt:pre:all=0");
  place_options(rng, sc, opts);

  sim::Json& s = sc.ref("script");
  static const int codes[] = {0, 0, 0, 200, 200, 300, 400};
  s.set("status", codes[rng.below(7)]);
  static const char* pres[] = {"full", "full", "full", "none", "long"};
  s.set("primal", pres[rng.below(5)]);
  s.set("dual", pres[rng.below(5)]);
  s.set("solve_iters", 0);
  s.set("basis_salt", (long)rng.below(6));
  s.set("iis_salt", (long)rng.below(8));
  s.set("dual_mode", (long)(rng.chance(0.4) ? 0 : rng.range(1, 4)));
  s.set("orig_nvars", m.nvars());
  s.set("orig_ncons", (long)m.cons.size());
  // history of direct transfers through the presolver; the first op is repeated at the end
  sim::Json xf = sim::Json::array();
  static const char* kinds[] = {"PostSol", "PostBasis", "PostIIS", "PostDbl", "PreSol", "PreBasis", "PreInt", "PreLazy", "PreUnit", "PreUnit", "PreUnitDbl"};
  int nx = (int)rng.range(2, 7);
  for (int t = 0; t < nx; ++t) {
    sim::Json op = sim::Json::object();
    op.set("kind", kinds[rng.below(11)]);
    op.set("salt", (long)rng.below(5));
    static const char* lens[] = {"exact", "exact", "exact", "long", "empty"};
    op.set("len", lens[rng.below(5)]);
    xf.push(op);
  }
  int rep = (int)rng.below((uint64_t)nx - 1);
  xf.push(xf[(size_t)rep]);
  s.set("transfers", xf);
  sc.set("repeat_of_last", rep);

  // what the oracle needs to know about the original model
  sim::Json cons = sim::Json::array();
  for (auto& a : m.cons) {
    sim::Json c = sim::Json::object();
    sim::Json lin = sim::Json::array();
    for (auto& t : a.lin) { sim::Json p = sim::Json::array(); p.push(t.var); p.push(t.coef); lin.push(p); }
    c.set("lin", lin); c.set("lb", a.lb); c.set("ub", a.ub); c.set("has_nl", a.has_nl); c.set("compl", a.compl_var >= 0);
    cons.push(c);
  }
  sc.set("cons", cons);
  sim::Json in = sim::Json::object();
  for (auto& sf : m.suffixes) {
    sim::Json v = sim::Json::array();
    for (auto& p : sf.values) { sim::Json q = sim::Json::array(); q.push(p.first); q.push(p.second); v.push(q); }
    in.set(sf.name + (sf.kind == 0 ? ".var" : sf.kind == 1 ? ".con" : sf.kind == 2 ? ".obj" : ".prob"), v);
  }
  sim::Json x0 = sim::Json::array(), d0 = sim::Json::array();
  for (auto& p : m.x0) { sim::Json q = sim::Json::array(); q.push(p.first); q.push(p.second); x0.push(q); }
  for (auto& p : m.d0) { sim::Json q = sim::Json::array(); q.push(p.first); q.push(p.second); d0.push(q); }
  in.set("x0", x0); in.set("d0", d0);
  sc.set("in", in);
  return sc;
}

// ---- helpers
std::vector<double> parse_vec(const std::string& s, size_t from) {   // "[a,b,c]" starting at s[from]=='['
  std::vector<double> v;
  size_t i = from + 1;
  while (i < s.size() && s[i] != ']') {
    char* e = nullptr;
    double d = strtod(s.c_str() + i, &e);
    if (e == s.c_str() + i) break;
    v.push_back(d);
    i = (size_t)(e - s.c_str());
    if (i < s.size() && s[i] == ',') ++i;
  }
  return v;
}
bool find_field(const std::string& call, const std::string& name, std::vector<double>& out) {   // " name=[...]"
  size_t p = call.find(" " + name + "=[");
  if (p == std::string::npos) return false;
  out = parse_vec(call, p + name.size() + 2);
  return true;
}
const std::string* find_call(const RunRecord& rec, const char* prefix) {
  for (auto& c : rec.stub.calls) if (c.compare(0, strlen(prefix), prefix) == 0) return &c;
  return nullptr;
}
int reverse_lowupp(int st) { return st == 3 ? 4 : st == 4 ? 3 : st; }   // BasicStatus: low=3, upp=4

// kind: 0 none, 1 direct, 2 slack.  rev: the row is body + slack = ub, so the slack sits at its lower bound when the body is at
// its upper one (statuses exchange low/upp); body - slack = lb is the other algebraically valid form, without exchange.
struct Image { int kind = 0; int group = 0, idx = 0, slack_var = -1; bool rev = true; };

void judge(const sim::Json& sc, const RunRecord& rec, sim::RunResult& r) {
  std::string viol, key, detail;
  auto flag = [&](const std::string& v, const std::string& k, const std::string& d) { if (viol.empty()) { viol = v; key = k; detail = d; } };
  r.nontrivial = true;
  if (rec.escaped) flag("ESCAPED_EXCEPTION", "run", rec.escaped_what);
  long n = sc["expect"]["nvars"].as_int(), m = sc["expect"]["ncons"].as_int();
  bool delivered = rec.stub.finish_phase;
  bool solved = false;
  for (auto& c : rec.stub.calls) if (c == "Solve") solved = true;
  if (!delivered || !solved) { r.stats.set("not_delivered", 1); r.trace_sig = sim::fnv1a(std::string("nd"), r.trace_sig); if (!viol.empty()) { r.verdict = viol; r.sig = "C04:" + viol + ":" + key; r.detail = detail; } return; }
  const StubModel& sm = rec.stub;
  if ((long)sm.vars.size() < n) flag("FEWER_VARS", "delivery", "the solver received fewer variables than the NL model has");

  // ---- images of original linear constraints, by content
  std::vector<Image> img((size_t)m);
  int n_direct = 0, n_slack = 0;
  for (long i = 0; i < m; ++i) {
    const sim::Json& oc = sc["cons"][(size_t)i];
    if (oc["has_nl"].as_bool() || oc["compl"].as_bool() || oc["lin"].size() == 0) continue;
    std::set<std::pair<int, double>> want;
    for (auto& p : oc["lin"].arr()) want.insert({(int)p[(size_t)0].as_int(), p[(size_t)1].as_double()});
    double lb = oc["lb"].as_double(), ub = oc["ub"].as_double();
    int found = 0; Image im;
    for (auto& dc : sm.cons) {
      if (!dc.is_alg || !dc.quad.empty()) continue;
      std::set<std::pair<int, double>> got; std::vector<StubTerm> extra;
      for (auto& t : dc.lin) { if (t.var < n) got.insert({t.var, t.coef}); else extra.push_back(t); }
      if (got != want) continue;
      if (extra.empty() && dc.lb == lb && dc.ub == ub) { ++found; im.kind = 1; im.group = dc.group; im.idx = dc.idx_in_group; }
      else if (extra.size() == 1 && extra[0].coef == 1.0 && dc.kind == 0 && dc.lb == ub && extra[0].var < (int)sm.vars.size() &&
               sm.vars[extra[0].var].lb == 0.0 && sm.vars[extra[0].var].ub == ub - lb) {
        ++found; im.kind = 2; im.group = dc.group; im.idx = dc.idx_in_group; im.slack_var = extra[0].var; im.rev = true;
      }
      else if (extra.size() == 1 && extra[0].coef == -1.0 && dc.kind == 0 && dc.lb == lb && extra[0].var < (int)sm.vars.size() &&
               sm.vars[extra[0].var].lb == 0.0 && sm.vars[extra[0].var].ub == ub - lb) {
        ++found; im.kind = 2; im.group = dc.group; im.idx = dc.idx_in_group; im.slack_var = extra[0].var; im.rev = false;
      }
    }
    if (found == 1) { img[(size_t)i] = im; if (im.kind == 1) ++n_direct; else ++n_slack; }
  }
  r.stats.set("rows_matched_direct", n_direct);
  r.stats.set("rows_matched_slack", n_slack);

  // ---- the .sol file
  auto sit = rec.files_after.find("stub.sol");
  oracle::SolFile sf;
  if (sit == rec.files_after.end()) flag("NO_SOL", "sol", "no .sol written; stderr " + rec.err.substr(0, 200));
  else { sf = oracle::parse_sol(sit->second); if (!sf.ok) flag("MALFORMED_SOL", "sol", sf.error); }
  std::string pmode = sc["script"]["primal"].as_str(), dmode = sc["script"]["dual"].as_str();
  int bsalt = (int)sc["script"]["basis_salt"].as_int(), isalt = (int)sc["script"]["iis_salt"].as_int();
  if (sf.ok) {
    if (sf.nprimals != 0 && sf.nprimals != n) flag("WRONG_PRIMAL_COUNT", "sol", "nprimals=" + std::to_string(sf.nprimals) + " for " + std::to_string(n) + " variables");
    if (sf.nduals != 0 && sf.nduals != m) flag("WRONG_DUAL_COUNT", "sol", "nduals=" + std::to_string(sf.nduals) + " for " + std::to_string(m) + " constraints");
    if (pmode != "none" && sf.nprimals != n) flag("PRIMAL_MISSING", "sol", "the solver returned a primal solution, the .sol has " + std::to_string(sf.nprimals) + " primal values");
    if (pmode == "none" && sf.nprimals != 0) flag("PRIMAL_INVENTED", "sol", "the solver returned no primal solution, the .sol has " + std::to_string(sf.nprimals) + " primal values");
    for (long j = 0; j < n && j < (long)sf.primals.size(); ++j)
      if (sf.primals[(size_t)j] != SimBackend::VarTag((int)j))
        flag("WRONG_PRIMAL", "var", "original variable " + std::to_string(j) + " got " + gen::fmt_double(sf.primals[(size_t)j]) + ", the solver assigned " + gen::fmt_double(SimBackend::VarTag((int)j)));
    bool rows = sm.n_in_group(CG_LIN) + sm.n_in_group(CG_QUAD) > 0;   // the stub reports duals for these groups only
    if (dmode != "none" && m > 0 && rows && sf.nduals != m) flag("DUAL_MISSING", "sol", "the solver returned duals, the .sol has " + std::to_string(sf.nduals) + " for " + std::to_string(m) + " constraints");
    for (long i = 0; i < m && i < (long)sf.duals.size(); ++i) {
      const Image& im = img[(size_t)i];
      if (!im.kind) continue;
      double want = SimBackend::ConTag(im.group, im.idx);
      if (sf.duals[(size_t)i] != want)
        flag("WRONG_DUAL", im.kind == 1 ? "direct" : "slack", "original constraint " + std::to_string(i) + " (image: group " + std::to_string(im.group) + " row " + std::to_string(im.idx) +
             (im.kind == 2 ? ", equality+slack" : "") + ") got dual " + gen::fmt_double(sf.duals[(size_t)i]) + ", the row's dual is " + gen::fmt_double(want));
    }
    // basis
    const oracle::SolSuffix* vs = sf.find_suffix("sstatus", 0);
    const oracle::SolSuffix* cs = sf.find_suffix("sstatus", 1);
    if (vs) {
      r.stats.set("basis_reported", 1);
      std::map<int, double> mv; for (auto& e : vs->entries) mv[e.first] = e.second;
      for (long j = 0; j < n; ++j) {
        int want = SimBackend::StatusTag(bsalt, (int)j);
        if ((int)mv[(int)j] != want) flag("WRONG_VAR_STATUS", "var", "variable " + std::to_string(j) + " sstatus " + std::to_string((int)mv[(int)j]) + ", solver said " + std::to_string(want));
      }
    }
    if (cs) {
      std::map<int, double> mc; for (auto& e : cs->entries) mc[e.first] = e.second;
      for (long i = 0; i < m; ++i) {
        const Image& im = img[(size_t)i];
        if (!im.kind || im.group != CG_LIN) continue;
        int want = im.kind == 1 ? SimBackend::StatusTag(bsalt + CG_LIN, im.idx) : im.rev ? reverse_lowupp(SimBackend::StatusTag(bsalt, im.slack_var)) : SimBackend::StatusTag(bsalt, im.slack_var);
        if ((int)mc[(int)i] != want)
          flag("WRONG_CON_STATUS", im.kind == 1 ? "direct" : "slack", "constraint " + std::to_string(i) + " sstatus " + std::to_string((int)mc[(int)i]) + ", expected " + std::to_string(want) +
               (im.kind == 2 ? " (slack variable's status with low/upp exchanged)" : " (the row's status)"));
      }
    }
    // IIS
    const oracle::SolSuffix* vi = sf.find_suffix("iis", 0);
    const oracle::SolSuffix* ci = sf.find_suffix("iis", 1);
    if (vi || ci) r.stats.set("iis_reported", 1);
    // the solver was asked for an IIS and answered: the flags of the variables / of rows that reached it unchanged must arrive
    // (whatever the flags of other items are)
    if (find_call(rec, "GetIIS")) {
      bool var_flag = false, row_flag = false;
      for (long j = 0; j < n; ++j) if (SimBackend::IISTag(isalt, (int)j) != 0) var_flag = true;
      for (long i = 0; i < m; ++i) if (img[(size_t)i].kind == 1 && img[(size_t)i].group == CG_LIN && SimBackend::IISTag(isalt + CG_LIN, img[(size_t)i].idx) != 0) row_flag = true;
      r.stats.set("iis_answered", 1);
      if (var_flag && !vi) flag("IIS_LOST", "var", "the solver returned IIS flags for variables but the .sol has no variable suffix 'iis'; message: " + sf.message_text().substr(0, 200) + " stdout: " + rec.out.substr(0, 300));
      if (row_flag && !ci) flag("IIS_LOST", "con", "the solver returned IIS flags for rows that reached it unchanged but the .sol has no constraint suffix 'iis'; message: " + sf.message_text().substr(0, 200));
    }
    if (vi) {
      std::map<int, double> mv; for (auto& e : vi->entries) mv[e.first] = e.second;
      for (long j = 0; j < n; ++j) {
        int want = SimBackend::IISTag(isalt, (int)j);
        if ((int)mv[(int)j] != want) flag("WRONG_VAR_IIS", "var", "variable " + std::to_string(j) + " iis " + std::to_string((int)mv[(int)j]) + ", solver said " + std::to_string(want));
      }
    }
    if (ci) {
      std::map<int, double> mc; for (auto& e : ci->entries) mc[e.first] = e.second;
      for (long i = 0; i < m; ++i) {
        const Image& im = img[(size_t)i];
        if (im.kind != 1 || im.group != CG_LIN) continue;   // slack form: see range_con.h, depends on the slack's value; checked below
        int want = SimBackend::IISTag(isalt + CG_LIN, im.idx);
        if ((int)mc[(int)i] != want) flag("WRONG_CON_IIS", "direct", "constraint " + std::to_string(i) + " iis " + std::to_string((int)mc[(int)i]) + ", the row's flag is " + std::to_string(want));
      }
      for (long i = 0; i < m; ++i) {
        const Image& im = img[(size_t)i];
        if (im.kind != 2 || im.group != CG_LIN) continue;
        int sl = SimBackend::IISTag(isalt, im.slack_var);
        // the slack's flag with lower/upper exchanged (low<->upp, plow<->pupp; fix, mem, pmem as they are); the row's own flag if the slack has none
        int want = sl == 0 ? SimBackend::IISTag(isalt + CG_LIN, im.idx) : !im.rev ? sl : sl == 1 ? 3 : sl == 3 ? 1 : sl == 6 ? 7 : sl == 7 ? 6 : sl;
        if (want >= 0 && (int)mc[(int)i] != want) flag("WRONG_CON_IIS", "slack", "range constraint " + std::to_string(i) + " iis " + std::to_string((int)mc[(int)i]) + ", expected " + std::to_string(want) + " (slack flag " + std::to_string(sl) + ")");
      }
    }
  }

  // ---- the other direction: values given for original items must land on their images
  auto input = [&](const char* name) { std::map<int, double> mp_; for (auto& p : sc["in"][name].arr()) mp_[(int)p[(size_t)0].as_int()] = p[(size_t)1].as_double(); return mp_; };
  if (const std::string* c = find_call(rec, "VarPriorities ")) {
    auto pri = input("priority.var");
    auto v = parse_vec(*c, c->find('['));
    r.stats.set("priorities_received", 1);
    for (long j = 0; j < n && j < (long)v.size(); ++j)
      if (v[(size_t)j] != (pri.count((int)j) ? pri[(int)j] : 0.0))
        flag("WRONG_PRIORITY", "var", "priority of variable " + std::to_string(j) + " arrived as " + gen::fmt_double(v[(size_t)j]));
  }
  if (const std::string* c = find_call(rec, "MarkLazyOrUserCuts")) {
    auto lazy = input("lazy.con");
    std::vector<double> g;
    r.stats.set("lazy_received", 1);
    if (find_field(*c, "g3", g))
      for (long i = 0; i < m; ++i) {
        const Image& im = img[(size_t)i];
        if (!im.kind || im.group != CG_LIN || im.idx >= (int)g.size()) continue;
        double want = lazy.count((int)i) ? lazy[(int)i] : 0.0;
        if (g[(size_t)im.idx] != want) flag("WRONG_LAZY_FLAG", im.kind == 1 ? "direct" : "slack", "lazy flag " + gen::fmt_double(want) + " of constraint " + std::to_string(i) + " arrived as " + gen::fmt_double(g[(size_t)im.idx]) + " on its row");
      }
  }
  auto x0 = input("x0"), d0 = input("d0");
  auto clamp = [&](long j, double v) { double lo = sm.vars[(size_t)j].lb, hi = sm.vars[(size_t)j].ub; return v < lo ? lo : v > hi ? hi : v; };
  if (const std::string* c = find_call(rec, "AddMIPStart")) {
    std::vector<double> x, s;
    r.stats.set("mipstart_received", 1);
    if (find_field(*c, "x", x) && find_field(*c, "s", s))
      for (long j = 0; j < n && j < (long)x.size(); ++j) {
        if (x0.count((int)j)) {
          if (x[(size_t)j] != clamp(j, x0[(int)j]) || (j < (long)s.size() && s[(size_t)j] == 0))
            flag("WRONG_MIPSTART", "var", "start value " + gen::fmt_double(x0[(int)j]) + " of variable " + std::to_string(j) + " arrived as " + gen::fmt_double(x[(size_t)j]) + " (sparsity " + (j < (long)s.size() ? gen::fmt_double(s[(size_t)j]) : "?") + ")");
        } else if (j < (long)s.size() && s[(size_t)j] != 0)
          flag("WRONG_MIPSTART", "sparsity", "variable " + std::to_string(j) + " has no start value but is marked as given");
      }
  }
  if (const std::string* c = find_call(rec, "AddPrimalDualStart")) {
    std::vector<double> x, g;
    r.stats.set("pdstart_received", 1);
    if (find_field(*c, "x", x))
      for (long j = 0; j < n && j < (long)x.size(); ++j)
        if (x0.count((int)j) && x[(size_t)j] != clamp(j, x0[(int)j])) flag("WRONG_PRIMAL_START", "var", "start value of variable " + std::to_string(j) + " arrived as " + gen::fmt_double(x[(size_t)j]));
    if (find_field(*c, "g3", g))
      for (long i = 0; i < m; ++i) {
        const Image& im = img[(size_t)i];
        if (!im.kind || im.group != CG_LIN || im.idx >= (int)g.size()) continue;
        double want = d0.count((int)i) ? d0[(int)i] : 0.0;
        if (g[(size_t)im.idx] != want) flag("WRONG_DUAL_START", im.kind == 1 ? "direct" : "slack", "dual start " + gen::fmt_double(want) + " of constraint " + std::to_string(i) + " arrived as " + gen::fmt_double(g[(size_t)im.idx]));
      }
    // a row that is the image of no (linear) original constraint may carry the value of an original it derives from -
    // a nonlinear or multi-row one, which has no matched image - but never the value given for a constraint
    // that reached the solver as its own row
    if (find_field(*c, "g3", g)) {
      std::set<int> image_rows; std::set<double> unmatched_vals;
      for (long i = 0; i < m; ++i) { const Image& im = img[(size_t)i]; if (im.kind && im.group == CG_LIN) image_rows.insert(im.idx); else if (d0.count((int)i)) unmatched_vals.insert(d0[(int)i]); }
      for (size_t rix = 0; rix < g.size(); ++rix)
        if (g[rix] != 0 && !image_rows.count((int)rix) && !unmatched_vals.count(g[rix]))
          flag("FOREIGN_DUAL_START", "aux-row", "delivered row " + std::to_string(rix) + " is the image of no original linear constraint but received the dual start " + gen::fmt_double(g[rix]) + " given for another constraint's own row");
    }
  }
  if (const std::string* c = find_call(rec, "SetBasis")) {
    std::vector<double> v, g;
    auto bv = input("sstatus.var"), bc = input("sstatus.con");
    r.stats.set("basis_received", 1);
    if (find_field(*c, "var", v)) {
      for (long j = 0; j < n && j < (long)v.size(); ++j)
        if (v[(size_t)j] != (bv.count((int)j) ? bv[(int)j] : 0.0)) flag("WRONG_BASIS_IN", "var", "status of variable " + std::to_string(j) + " arrived as " + gen::fmt_double(v[(size_t)j]));
      if (find_field(*c, "g3", g))
        for (long i = 0; i < m; ++i) {
          const Image& im = img[(size_t)i];
          if (!im.kind || im.group != CG_LIN || im.idx >= (int)g.size()) continue;
          double want = bc.count((int)i) ? bc[(int)i] : 0.0;
          if (im.kind == 1) { if (g[(size_t)im.idx] != want) flag("WRONG_BASIS_IN", "direct", "status " + gen::fmt_double(want) + " of constraint " + std::to_string(i) + " arrived as " + gen::fmt_double(g[(size_t)im.idx])); }
          else {
            if (g[(size_t)im.idx] != 5.0) flag("WRONG_BASIS_IN", "slack-row", "equality row of range constraint " + std::to_string(i) + " got status " + gen::fmt_double(g[(size_t)im.idx]) + " instead of 'equ'");
            if (im.slack_var < (int)v.size() && v[(size_t)im.slack_var] != (double)(im.rev ? reverse_lowupp((int)want) : (int)want))
              flag("WRONG_BASIS_IN", "slack-var", "status " + gen::fmt_double(want) + " of range constraint " + std::to_string(i) + " arrived on its slack as " + gen::fmt_double(v[(size_t)im.slack_var]));
          }
        }
    }
  }

  // ---- history independence: the repeated transfer must give the same answer
  {
    std::vector<std::string> xr;
    for (auto& c : rec.stub.calls) if (c.compare(0, 5, "XFER ") == 0) xr.push_back(c);
    // every postsolved vector has one entry per original item: n variables, and one per algebraic + logical constraint
    long nlc = sc["expect"]["nlcons"].as_int();
    for (auto& x : xr) {
      if (x.compare(0, 9, "XFER Post") != 0 || x.find("EXC ") != std::string::npos) continue;
      for (const char* fld : {" c=[", " y=["}) {
        size_t p = x.find(fld);
        if (p == std::string::npos) continue;
        auto v = parse_vec(x, p + 3);
        if (!v.empty() && (long)v.size() != m + nlc)
          flag("POSTSOLVED_CON_COUNT", x.substr(5, x.find(' ', 5) - 5), "postsolved constraint vector has " + std::to_string(v.size()) + " entries for " + std::to_string(m) + " algebraic + " + std::to_string(nlc) + " logical original constraints");
      }
      for (const char* fld : {" v=[", " x=["}) {
        size_t p = x.find(fld);
        if (p == std::string::npos) continue;
        auto v = parse_vec(x, p + 3);
        if (!v.empty() && (long)v.size() != n)
          flag("POSTSOLVED_VAR_COUNT", x.substr(5, x.find(' ', 5) - 5), "postsolved variable vector has " + std::to_string(v.size()) + " entries for " + std::to_string(n) + " original variables");
      }
    }
    size_t nx = sc["script"]["transfers"].size();
    if (xr.size() == nx && nx >= 2) {
      size_t rep = (size_t)sc["repeat_of_last"].as_int();
      // an absent group and an empty group carry the same values: strip " gN=[]"
      auto body = [](const std::string& s0) {
        size_t p = s0.find(' ', 5);
        std::string s = p == std::string::npos ? s0 : s0.substr(p + 1), o;
        for (size_t i = 0; i < s.size();) {
          if (s[i] == ' ' && i + 1 < s.size() && s[i + 1] == 'g') {
            size_t q = s.find('=', i);
            if (q != std::string::npos && s.compare(q, 3, "=[]") == 0) { i = q + 3; continue; }
          }
          o += s[i++];
        }
        return o;
      };
      std::string a = body(xr[rep]), b = body(xr.back());
      r.stats.set("transfers_run", (long)nx);
      if (a != b) flag("HISTORY_DEPENDENT", sc["script"]["transfers"][rep]["kind"].as_str(), "transfer '" + a.substr(0, 160) + "' gave '" + b.substr(0, 160) + "' when repeated after " + std::to_string(nx - 1 - rep) + " other transfer(s)");
      // postsolved direct transfers: original variables get the solver's values
      for (size_t t = 0; t < nx; ++t) {
        const sim::Json& op = sc["script"]["transfers"][t];
        if (op["kind"].as_str() != "PostSol" || op["len"].as_str() == "empty") continue;
        std::vector<double> x;
        if (find_field(" " + body(xr[t]), "x", x) || true) {
          size_t p = xr[t].find(" x=[");
          if (p == std::string::npos) continue;
          x = parse_vec(xr[t], p + 3);
          double shift = 1000000.0 * (double)op["salt"].as_int();
          for (long j = 0; j < n && j < (long)x.size(); ++j)
            if (x[(size_t)j] != SimBackend::VarTag((int)j) + shift) flag("WRONG_PRIMAL", "transfer", "direct postsolve: original variable " + std::to_string(j) + " got " + gen::fmt_double(x[(size_t)j]));
          if ((long)x.size() != n) flag("WRONG_PRIMAL_COUNT", "transfer", "direct postsolve returned " + std::to_string(x.size()) + " values for " + std::to_string(n) + " original variables");
        }
      }
    }
    // a value given for one original constraint reaches the same delivered items whatever its sign
    for (auto& c : xr) {
      size_t pp = c.find(" pos:"), pn = c.find(" | neg:");
      if (c.find(" PreUnit") == std::string::npos || pp == std::string::npos || pn == std::string::npos) continue;
      std::string a = c.substr(pp + 5, pn - pp - 5), b = c.substr(pn + 7);
      r.stats.set("unit_transfers", r.stats["unit_transfers"].as_int(0) + 1);
      if (a.find('#') != std::string::npos) r.stats.set("unit_transfers_with_image", r.stats["unit_transfers_with_image"].as_int(0) + 1);
      if (a != b) flag("IMAGE_DEPENDS_ON_SIGN", c.find("PreUnitDbl") != std::string::npos ? "dbl" : "int", "a value given for one original constraint (others 0) reaches different delivered items as +7 and as -7: " + c.substr(0, 300));
      if (a.find('?') != std::string::npos || b.find('?') != std::string::npos) flag("FOREIGN_VALUE", "unit", "a unit transfer delivered a value that was never given: " + c.substr(0, 300));
    }
    for (auto& c : xr) if (c.find(" EXC ") != std::string::npos) r.stats.set("transfer_exceptions", r.stats["transfer_exceptions"].as_int(0) + 1);
  }
  std::string cfg = std::string(n_slack ? "S" : "-") + (n_direct ? "D" : "-") + ":" + pmode + ":" + dmode + ":" + std::to_string(sc["script"]["status"].as_int());
  r.trace_sig = sim::fnv1a(cfg + sc["expect"]["features"].as_str() + std::to_string(sm.cons.size()), r.trace_sig);
  r.stats.set("judged", 1);
  if (!viol.empty()) { r.verdict = viol; r.sig = "C04:" + viol + ":" + key; r.detail = detail; }
}

Property prop = {"C04", generate, nullptr, judge, nullptr};
DRVSIM_REGISTER(prop);

}  // namespace
}  // namespace drvsim
