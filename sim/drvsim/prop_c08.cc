// C08 — matrix-based model API writes the given LP/QP and un-permutes solutions.
// Full loop in one process: client (real NLModel / NLSolver) -> simulated disk -> driver
// (real mp driver, started through the intercepted system()) -> simulated disk -> client.
#include <cmath>
#include <csetjmp>
#include <cstring>
#include <map>
#include <set>

#include "mp/nl-solver.h"
extern "C" {
#include "api/c/nl-model-c.h"
#include "api/c/nl-solver-c.h"
#include "api/c/nl-writer2-misc-c.h"
}
#include "mp/nl-reader.h"
#include "mp/problem.h"
#include "mp/backend-base.h"

#include "harness.h"
#include "scen.h"
#include "simbackend.h"
#include "../core/shim.h"

namespace mp { int RunBackendApp_forC08(char** argv); }   // defined in harness.cc (backend-app.h may be included once only)

namespace drvsim {
namespace {

sim::Json jarr(const std::vector<double>& v) { sim::Json a = sim::Json::array(); for (double d : v) a.push(d); return a; }
std::vector<double> dvec(const sim::Json& a) { std::vector<double> v; for (auto& e : a.arr()) v.push_back(e.as_double()); return v; }

sim::Json generate(const std::string& tier, uint64_t seed, uint64_t index) {
  (void)tier;
  sim::Rng rng(seed, "C08", index);
  sim::Json sc = sim::Json::object();
  int n = (int)rng.range(1, 8), m = (int)rng.range(0, 6);
  std::vector<double> lb(n), ub(n), ty(n);
  for (int j = 0; j < n; ++j) {
    bool integer = rng.chance(0.4);
    ty[j] = integer;
    if (integer) { if (rng.chance(0.4)) { lb[j] = 0; ub[j] = 1; } else if (rng.chance(0.5)) { lb[j] = 0; ub[j] = (double)rng.range(2, 9); } else { lb[j] = -2; ub[j] = 5; } }
    else { lb[j] = (double)rng.range(-10, 0) + (rng.chance(0.2) ? 0.5 : 0); ub[j] = lb[j] + (double)rng.range(1, 20); if (rng.chance(0.1)) ub[j] = INFINITY; if (rng.chance(0.08)) lb[j] = -INFINITY; }
  }
  sc.set("lb", jarr(lb)); sc.set("ub", jarr(ub)); sc.set("type", jarr(ty));
  // rows (row-wise sparse)
  std::vector<double> rlb(m), rub(m), astart, aindex, avalue;
  for (int i = 0; i < m; ++i) {
    astart.push_back((double)aindex.size());
    int nt = rng.chance(0.1) ? 0 : (int)rng.range(1, std::min(n, 4));
    std::set<int> used;
    for (int t = 0; t < nt; ++t) { int j = (int)rng.below((uint64_t)n); if (used.insert(j).second) { aindex.push_back(j); avalue.push_back((double)((i + 1) * 100 + j + 1) * (rng.chance(0.3) ? -1 : 1)); } }
    int shape = (int)rng.below(5);
    double base = 1000 + 10 * i;
    if (shape == 0) { rlb[i] = -base; rub[i] = base + 1; } else if (shape == 1) { rlb[i] = -INFINITY; rub[i] = base; } else if (shape == 2) { rlb[i] = -base; rub[i] = INFINITY; }
    else if (shape == 3) { rlb[i] = rub[i] = i + 4; } else { rlb[i] = -INFINITY; rub[i] = INFINITY; }
  }
  sc.set("rlb", jarr(rlb)); sc.set("rub", jarr(rub)); sc.set("astart", jarr(astart)); sc.set("aindex", jarr(aindex)); sc.set("avalue", jarr(avalue));
  // objective
  sc.set("maximize", rng.chance(0.4));
  static const double kBigInt[] = {2147483648.0, 1e10, -5e12, 1e15, 4294967296.0, -2147483649.0, 9007199254740992.0};   // integral, beyond 32 bits
  sc.set("c0", rng.chance(0.1) ? kBigInt[rng.below(7)] : rng.chance(0.5) ? 0.0 : (double)rng.range(-9, 9) + 0.25);
  bool have_c = rng.chance(0.85);
  sc.set("have_c", have_c);
  std::vector<double> c(n, 0.0);
  for (int j = 0; j < n; ++j) if (rng.chance(0.7)) c[j] = (double)(50 + j) * (rng.chance(0.3) ? -1 : 1);
  sc.set("c", jarr(c));
  bool quad = rng.chance(0.55);
  std::vector<double> qstart, qindex, qvalue;
  int qshape = (int)rng.below(5);   // 0 general, 1 diagonal only, 2 off-diagonal only, 3 with duplicates, 4 single column
  if (quad) {
    int onecol = (int)rng.below((uint64_t)n);
    for (int i = 0; i < n; ++i) {
      qstart.push_back((double)qindex.size());
      int k = (int)rng.below(3);
      for (int t = 0; t < k; ++t) {
        int j = (int)rng.below((uint64_t)n);
        if (qshape == 1) j = i;
        if (qshape == 2 && j == i) { if (n == 1) continue; j = (i + 1) % n; }
        if (qshape == 4) j = onecol;
        double v = (double)(7 + (i * 3 + j) % 11) * (rng.chance(0.25) ? -1 : 1);
        if (rng.chance(0.06)) v = 2 * kBigInt[rng.below(6)];          // 0.5*Q integral and beyond 32 bits
        qindex.push_back(j); qvalue.push_back(v);
        if (qshape == 3 && rng.chance(0.5)) { qindex.push_back(j); qvalue.push_back(v + 1); }
      }
    }
  }
  sc.set("quad", quad && !qindex.empty());
  sc.set("qformat", (long)rng.range(1, 2));
  sc.set("qstart", jarr(qstart)); sc.set("qindex", jarr(qindex)); sc.set("qvalue", jarr(qvalue));
  // warm starts
  sim::Json wx = sim::Json::array(), wy = sim::Json::array();
  if (rng.chance(0.5)) for (int j = 0; j < n; ++j) if (rng.chance(0.6)) { sim::Json p = sim::Json::array(); p.push(j); p.push(300.0 + j + 0.125); wx.push(p); }
  if (rng.chance(0.4)) for (int i = 0; i < m; ++i) if (rng.chance(0.6)) { sim::Json p = sim::Json::array(); p.push(i); p.push(400.0 + i + 0.375); wy.push(p); }
  sc.set("ws_x", wx); sc.set("ws_y", wy);
  // suffixes (dense value vectors)
  sim::Json sufs = sim::Json::array();
  auto add_suf = [&](const char* name, int kind, bool real, int size, double base) {
    sim::Json s = sim::Json::object(); s.set("name", name); s.set("kind", kind | (real ? 4 : 0));
    std::vector<double> v(size);
    double sign = rng.chance(0.3) ? -1.0 : 1.0;      // negative values too (.sosno < 0, .direction -1, ...)
    for (int k = 0; k < size; ++k) v[k] = rng.chance(0.3) ? 0.0 : sign * (base + k + (real ? 0.5 : 0.0));
    s.set("values", jarr(v)); sufs.push(s);
  };
  if (rng.chance(0.5)) add_suf("priority", 0, false, n, 100);
  if (rng.chance(0.3)) add_suf("vreal", 0, true, n, 200);
  if (rng.chance(0.4) && m > 0) add_suf("lazy", 1, false, m, 1);
  if (rng.chance(0.3) && m > 0) add_suf("creal", 1, true, m, 500);
  if (rng.chance(0.2)) add_suf("objsuf", 2, false, 1, 9);
  if (rng.chance(0.25) && m > 0) {      // one name on several kinds of items (the way .sstatus is used)
    add_suf("zsame", 0, false, n, 600); add_suf("zsame", 1, false, m, 700);
    if (rng.chance(0.5)) add_suf("zsame", 2, true, 1, 800);
  }
  if (rng.chance(0.2)) add_suf("probsuf", 3, true, 1, 77);
  sc.set("suffixes", sufs);
  sc.set("names", rng.chance(0.5));
  // a caller that names only the items it cares about: some columns / rows carry the empty name
  if (rng.chance(0.25)) sc.set("empty_names_seed", (long)(1 + rng.below(1000000)));
  sc.set("text", rng.chance(0.5)); sc.set("comments", rng.chance(0.5));
  sc.set("points_seed", (double)rng.below(1000000));
  sc.set("default_nlopts", rng.chance(0.15));   // the caller never calls SetNLOptions(): "if not provided, default is used" (binary, no comments)
  sc.set("capi", rng.chance(0.35));       // build the model and drive the solver through the C flavour of the same API (api/c/*.h)
  sc.set("sens", rng.chance(0.5));        // ask for sensitivity ranges: real-valued variable and constraint suffixes come back
  // history: in 35 % of the scenarios the same NLSolver object, the same PreprocessData and the same file stub have already
  // served another model (other size, other column classes, names and suffixes of its own)
  if (rng.chance(0.35)) {
    sim::Json pv = sim::Json::object();
    int pn = (int)rng.range(1, 10), pm = (int)rng.range(0, 7);
    std::vector<double> plb(pn), pub(pn), pty(pn);
    for (int j = 0; j < pn; ++j) { pty[j] = rng.chance(0.5); plb[j] = 0; pub[j] = pty[j] && rng.chance(0.5) ? 1 : (double)rng.range(2, 9); }
    pv.set("lb", jarr(plb)); pv.set("ub", jarr(pub)); pv.set("type", jarr(pty));
    pv.set("m", pm);
    pv.set("names", rng.chance(0.6));
    pv.set("quad", rng.chance(0.3));
    pv.set("suffix", rng.chance(0.5));
    pv.set("mode", (long)rng.range(1, 2));     // 1: written and loaded only; 2: also solved and its solution read
    sc.set("prev", pv);
  }
  // the one-call entry Solve(model, solver, options) / NLW2_SolveNLModel_C instead of LoadModel + Solve + ReadSolution
  sc.set("one_call", rng.chance(0.3));
  // fault: the solver command for the caller's model fails before anything is written (exit code, system() failure, killed)
  if (rng.chance(0.1)) sc.set("solver_fails", (long)rng.range(1, 3));
  sim::Json script = sim::Json::object();
  static const int codes[] = {0, 0, 0, 100, 200, 400};
  script.set("status", codes[rng.below(6)]);
  script.set("solve_iters", 0);
  script.set("basis_salt", (long)rng.below(6));
  script.set("dual_mode", (long)(rng.chance(0.5) ? 0 : rng.range(1, 3)));
  // an answer without a primal point (infeasible / failed / duals only): the .sol holds fewer primal values than the problem has columns
  if (rng.chance(0.15)) script.set("primal", "none");
  sc.set("script", script);
  // bounds and row ranges that need all 17 significant digits (0.1+0.2, 1.1*1.1, thirds)
  if (rng.chance(0.25)) {
    static const double aw[] = {0.1 + 0.2, 1.1 * 1.1, 1.0 / 3.0, 2.0 / 3.0, 0.7 * 3, 1e-7 / 3, 123456.789 * 1.000001};
    for (int j = 0; j < n; ++j) if (!ty[j] && rng.chance(0.6)) { if (std::isfinite(lb[j])) lb[j] -= aw[rng.below(7)]; if (std::isfinite(ub[j])) ub[j] += aw[rng.below(7)]; }
    for (int i = 0; i < m; ++i) if (rng.chance(0.6)) { if (std::isfinite(rlb[i]) && rlb[i] != rub[i]) rlb[i] -= aw[rng.below(7)]; else if (std::isfinite(rub[i])) { rub[i] += aw[rng.below(7)]; if (rlb[i] > -INFINITY && rlb[i] + 5 > rub[i] - 5 && rlb[i] != rub[i]) {} } }
    for (int i = 0; i < m; ++i) if (std::isfinite(rlb[i]) && std::isfinite(rub[i]) && rlb[i] > rub[i]) rlb[i] = rub[i];
    sc.set("lb", jarr(lb)); sc.set("ub", jarr(ub)); sc.set("rlb", jarr(rlb)); sc.set("rub", jarr(rub));
    sc.set("awkward_bounds", true);
  }
  return sc;
}

// ---- evaluation of the objective expression mp::Problem read from the file
double eval(mp::NumericExpr e, const std::vector<double>& x) {
  namespace ex = mp::expr;
  ex::Kind k = e.kind();
  if (k == ex::NUMBER) return mp::Cast<mp::NumericConstant>(e).value();
  if (k == ex::VARIABLE) return x.at((size_t)mp::Cast<mp::Reference>(e).index());
  if (k >= ex::FIRST_BINARY && k <= ex::LAST_BINARY) {
    mp::BinaryExpr b = mp::Cast<mp::BinaryExpr>(e);
    double l = eval(b.lhs(), x), r = eval(b.rhs(), x);
    switch (k) { case ex::ADD: return l + r; case ex::SUB: return l - r; case ex::MUL: return l * r; case ex::DIV: return l / r; default: break; }
    throw std::runtime_error("evaluator: unexpected binary operator in a QP objective");
  }
  if (k == ex::MINUS) return -eval(mp::Cast<mp::UnaryExpr>(e).arg(), x);
  if (k == ex::POW2) { double a = eval(mp::Cast<mp::UnaryExpr>(e).arg(), x); return a * a; }
  if (k == ex::SUM) { mp::IteratedExpr s = mp::Cast<mp::IteratedExpr>(e); double v = 0; for (int i = 0; i < s.num_args(); ++i) v += eval(s.arg(i), x); return v; }
  throw std::runtime_error("evaluator: unexpected expression kind in a QP objective");
}

// sums are compared relative to the magnitude of their terms (cancellation between huge terms legitimately loses the small ones)
bool near(double a, double b, double scale = 0) { return a == b || std::fabs(a - b) <= 1e-9 * std::max(std::max(1.0, scale), std::max(std::fabs(a), std::fabs(b))); }

// fault: the run of the solver for the caller's model fails without a solution being written
// (1: the command exits with code 3 at once, 2: system() itself fails, 3: the process is killed by signal 9)
int g_sys_fail = 0, g_sys_fail_at = 0, g_sys_calls = 0;

int driver_via_system(const char* cmd) {
  // "simdrv <stub> -AMPL <opts...>"  -> in-process driver run
  {
    int idx = g_sys_calls++;
    if (g_sys_fail && idx == g_sys_fail_at) {
      sim::g.event("SYSTEM fault " + std::to_string(g_sys_fail));
      ++sim::g.fired["solver_run_fails"];
      return g_sys_fail == 1 ? 3 << 8 : g_sys_fail == 2 ? -1 : 9;
    }
  }
  std::vector<std::string> tok;
  std::string cur;
  for (const char* p = cmd; ; ++p) { if (*p == ' ' || !*p) { if (!cur.empty()) tok.push_back(cur); cur.clear(); if (!*p) break; } else cur += *p; }
  std::vector<char*> argv;
  for (auto& s : tok) { char* q = (char*)malloc(s.size() + 1); memcpy(q, s.c_str(), s.size() + 1); argv.push_back(q); }
  argv.push_back(nullptr);
  sim::g.event(std::string("SYSTEM ") + (tok.empty() ? "" : tok[0]));
  int rc = mp::RunBackendApp_forC08(argv.data());
  for (char* q : argv) free(q);
  return rc;
}

sim::RunResult run(const sim::Json& sc) {
  sim::RunResult r;
  using sim::g;
  std::string viol, key, detail;
  auto flag = [&](const std::string& v, const std::string& k, const std::string& d) { if (viol.empty()) { viol = v; key = k; detail = d; } };
  // ---- the caller's model
  std::vector<double> lb = dvec(sc["lb"]), ub = dvec(sc["ub"]), tyd = dvec(sc["type"]), rlb = dvec(sc["rlb"]), rub = dvec(sc["rub"]), c = dvec(sc["c"]);
  int n = (int)lb.size(), m = (int)rlb.size();
  std::vector<int> ty(n); for (int j = 0; j < n; ++j) ty[j] = (int)tyd[j];
  std::vector<size_t> astart; for (double d : dvec(sc["astart"])) astart.push_back((size_t)d);
  std::vector<int> aindex; for (double d : dvec(sc["aindex"])) aindex.push_back((int)d);
  std::vector<double> avalue = dvec(sc["avalue"]);
  std::vector<size_t> qstart; for (double d : dvec(sc["qstart"])) qstart.push_back((size_t)d);
  std::vector<int> qindex; for (double d : dvec(sc["qindex"])) qindex.push_back((int)d);
  std::vector<double> qvalue = dvec(sc["qvalue"]);
  bool quad = sc["quad"].as_bool() && !qindex.empty() && (int)qstart.size() == n;
  bool have_c = sc["have_c"].as_bool();
  double c0 = sc["c0"].as_double();
  std::vector<std::string> cn, rn; std::vector<const char*> cnp, rnp;
  bool names = sc["names"].as_bool();
  for (int j = 0; j < n; ++j) cn.push_back("col" + std::to_string(j + 1) + (j % 3 == 1 ? "['a b']" : ""));
  for (int i = 0; i < m; ++i) rn.push_back("row" + std::to_string(i + 1));
  if (sc.has("empty_names_seed")) {
    sim::Rng er((uint64_t)sc["empty_names_seed"].as_int(), "C08empty", 0);
    for (auto& q : cn) if (er.chance(0.3)) q.clear();
    for (auto& q : rn) if (er.chance(0.3)) q.clear();
  }
  for (auto& s : cn) cnp.push_back(s.c_str());
  for (auto& s : rn) rnp.push_back(s.c_str());
  std::vector<int> wxi, wyi; std::vector<double> wxv, wyv;
  for (auto& p : sc["ws_x"].arr()) { wxi.push_back((int)p[(size_t)0].as_int()); wxv.push_back(p[(size_t)1].as_double()); }
  for (auto& p : sc["ws_y"].arr()) { wyi.push_back((int)p[(size_t)0].as_int()); wyv.push_back(p[(size_t)1].as_double()); }

  auto ref_scale = [&](const std::vector<double>& x) {
    double v = std::fabs(c0);
    if (have_c) for (int j = 0; j < n; ++j) v += std::fabs(c[j] * x[j]);
    if (quad) for (int i = 0; i < n; ++i) { size_t e = i + 1 < n ? qstart[i + 1] : qindex.size(); for (size_t p = qstart[i]; p < e; ++p) v += std::fabs(0.5 * qvalue[p] * x[i] * x[qindex[p]]); }
    return v;
  };
  auto ref_obj = [&](const std::vector<double>& x) {
    double v = c0;
    if (have_c) for (int j = 0; j < n; ++j) v += c[j] * x[j];
    if (quad) for (int i = 0; i < n; ++i) { size_t e = i + 1 < n ? qstart[i + 1] : qindex.size(); for (size_t p = qstart[i]; p < e; ++p) v += 0.5 * qvalue[p] * x[i] * x[qindex[p]]; }
    return v;
  };

  // ---- the earlier model of the history, if any
  const bool has_prev = sc.has("prev");
  std::vector<double> plb, pub, prlb, prub, pc, pav, pqv, psuf; std::vector<int> pty, pai, pqi; std::vector<size_t> pas, pqs;
  std::vector<std::string> pcn, prn; std::vector<const char*> pcnp, prnp;
  int pn = 0, pm = 0;
  if (has_prev) {
    const sim::Json& pv = sc["prev"];
    plb = dvec(pv["lb"]); pub = dvec(pv["ub"]); for (double d : dvec(pv["type"])) pty.push_back((int)d);
    pn = (int)plb.size(); pm = (int)pv["m"].as_int();
    for (int i = 0; i < pm; ++i) { pas.push_back(pai.size()); pai.push_back(i % pn); pav.push_back(9000.0 + i); if (pn > 1) { pai.push_back((i + 1) % pn); pav.push_back(-9100.0 - i); } prlb.push_back(-50.0 - i); prub.push_back(60.0 + i); }
    for (int j = 0; j < pn; ++j) { pc.push_back(3.0 + j); pcn.push_back("pcol" + std::to_string(j + 1)); psuf.push_back(900.0 + j); }
    for (int i = 0; i < pm; ++i) prn.push_back("prow" + std::to_string(i + 1));
    for (auto& q : pcn) pcnp.push_back(q.c_str());
    for (auto& q : prn) prnp.push_back(q.c_str());
    for (int j = 0; j < pn; ++j) { pqs.push_back(pqi.size()); if (j % 2 == 0) { pqi.push_back((j + 1) % pn); pqv.push_back(4.0 + j); } }
  }

  g.reset(); sim::shim_reset();
  g.scratch = sim::scratch_dir();
  sim::clean_scratch();
  g_stub.clear();
  g_script = sc["script"];
  g_dual_mode = (int)g_script["dual_mode"].as_int(0);
  g_sys_calls = 0; g_sys_fail = (int)sc["solver_fails"].as_int(0);
  g_sys_fail_at = sc.has("prev") && sc["prev"]["mode"].as_int() == 2 ? 1 : 0;
  const bool one_call = sc["one_call"].as_bool();
  sim::system_hook = driver_via_system;
  sim::capture_begin();
  static sigjmp_buf jb;
  g.exit_jmp = &jb;
  g.begin();
  bool exited = false;
  std::string err_a, err_b;
  std::vector<int> vperm, vperm_inv;
  mp::NLSolution sol;
  bool solved = false;
  double one_call_obj = 0;
  std::string exc;
  if (sigsetjmp(jb, 1) == 0) {
    try {
      const bool capi = sc["capi"].as_bool();
      mp::NLModel mdl_cpp("c08");
      NLW2_NLModel_C cm{};
      std::vector<std::vector<double>> sufvals;      // C API: suffix value arrays must outlive the call
      std::vector<std::string> sufnames;
      if (!capi) {
        mp::NLModel& mdl = mdl_cpp;
        mdl.SetCols({n, lb.data(), ub.data(), ty.data()});
        if (names) mdl.SetColNames(cnp.data());
        mdl.SetRows(m, rlb.data(), rub.data(), {m, NLW2_MatrixFormatRowwise, aindex.size(), astart.data(), aindex.data(), avalue.data()});
        if (names) mdl.SetRowNames(rnp.data());
        mdl.SetLinearObjective(sc["maximize"].as_bool() ? NLW2_ObjSenseMaximize : NLW2_ObjSenseMinimize, c0, have_c ? c.data() : nullptr);
        if (quad) mdl.SetHessian((NLW2_HessianFormat)sc["qformat"].as_int(), {n, NLW2_MatrixFormatIrrelevant, qindex.size(), qstart.data(), qindex.data(), qvalue.data()});
        if (names) mdl.SetObjName("myobj");
        if (!wxi.empty()) mdl.SetWarmstart({(int)wxi.size(), wxi.data(), wxv.data()});
        if (!wyi.empty()) mdl.SetDualWarmstart({(int)wyi.size(), wyi.data(), wyv.data()});
        for (auto& s : sc["suffixes"].arr()) mdl.AddSuffix(mp::NLSuffix(s["name"].as_str(), (int)s["kind"].as_int(), dvec(s["values"])));
      } else {
        cm = NLW2_MakeNLModel_C("c08");
        NLW2_SetCols_C(&cm, n, lb.data(), ub.data(), ty.data());
        if (names) NLW2_SetColNames_C(&cm, cnp.data());
        NLW2_SetRows_C(&cm, m, rlb.data(), rub.data(), NLW2_MatrixFormatRowwise, aindex.size(), astart.data(), aindex.data(), avalue.data());
        if (names) NLW2_SetRowNames_C(&cm, rnp.data());
        NLW2_SetLinearObjective_C(&cm, sc["maximize"].as_bool() ? NLW2_ObjSenseMaximize : NLW2_ObjSenseMinimize, c0, have_c ? c.data() : nullptr);
        if (quad) NLW2_SetHessian_C(&cm, (NLW2_HessianFormat)sc["qformat"].as_int(), n, qindex.size(), qstart.data(), qindex.data(), qvalue.data());
        if (names) NLW2_SetObjName_C(&cm, "myobj");
        if (!wxi.empty()) NLW2_SetWarmstart_C(&cm, {(int)wxi.size(), wxi.data(), wxv.data()});
        if (!wyi.empty()) NLW2_SetDualWarmstart_C(&cm, {(int)wyi.size(), wyi.data(), wyv.data()});
        sufvals.reserve(sc["suffixes"].size()); sufnames.reserve(sc["suffixes"].size());
        for (auto& s : sc["suffixes"].arr()) {
          sufvals.push_back(dvec(s["values"])); sufnames.push_back(s["name"].as_str());
          NLW2_NLSuffix_C sf; sf.name_ = sufnames.back().c_str(); sf.table_ = ""; sf.kind_ = (int)s["kind"].as_int();
          sf.numval_ = (int)sufvals.back().size(); sf.values_ = sufvals.back().data();
          NLW2_AddSuffix_C(&cm, sf);
        }
        r.stats.set("front_end.c_api", 1);
      }
      // the C object wraps the same C++ class: everything below looks at the model through it
      mp::NLModel& mdl = capi ? *static_cast<mp::NLModel*>(cm.p_data_) : mdl_cpp;
      NLW2_NLOptionsBasic_C opts = NLW2_MakeNLOptionsBasic_C_Default();
      opts.n_text_mode_ = sc["text"].as_bool(); opts.want_nl_comments_ = sc["comments"].as_bool();
      mp::NLUtils utils;
      // the earlier model, built through the same flavour of the API
      mp::NLModel prev_cpp("c08prev");
      NLW2_NLModel_C pcm{};
      if (has_prev) {
        const sim::Json& pv = sc["prev"];
        if (!capi) {
          prev_cpp.SetCols({pn, plb.data(), pub.data(), pty.data()});
          if (pv["names"].as_bool()) prev_cpp.SetColNames(pcnp.data());
          prev_cpp.SetRows(pm, prlb.data(), prub.data(), {pm, NLW2_MatrixFormatRowwise, pai.size(), pas.data(), pai.data(), pav.data()});
          if (pv["names"].as_bool() && pm) prev_cpp.SetRowNames(prnp.data());
          prev_cpp.SetLinearObjective(NLW2_ObjSenseMinimize, 1.5, pc.data());
          if (pv["quad"].as_bool() && !pqi.empty()) prev_cpp.SetHessian(NLW2_HessianFormatSquare, {pn, NLW2_MatrixFormatIrrelevant, pqi.size(), pqs.data(), pqi.data(), pqv.data()});
          if (pv["names"].as_bool()) prev_cpp.SetObjName("prevobj");
          if (pv["suffix"].as_bool()) { prev_cpp.AddSuffix(mp::NLSuffix("priority", 0, psuf)); prev_cpp.AddSuffix(mp::NLSuffix("prevonly", 0, psuf)); }
        } else {
          pcm = NLW2_MakeNLModel_C("c08prev");
          NLW2_SetCols_C(&pcm, pn, plb.data(), pub.data(), pty.data());
          if (pv["names"].as_bool()) NLW2_SetColNames_C(&pcm, pcnp.data());
          NLW2_SetRows_C(&pcm, pm, prlb.data(), prub.data(), NLW2_MatrixFormatRowwise, pai.size(), pas.data(), pai.data(), pav.data());
          if (pv["names"].as_bool() && pm) NLW2_SetRowNames_C(&pcm, prnp.data());
          NLW2_SetLinearObjective_C(&pcm, NLW2_ObjSenseMinimize, 1.5, pc.data());
          if (pv["quad"].as_bool() && !pqi.empty()) NLW2_SetHessian_C(&pcm, NLW2_HessianFormatSquare, pn, pqi.size(), pqs.data(), pqi.data(), pqv.data());
          if (pv["names"].as_bool()) NLW2_SetObjName_C(&pcm, "prevobj");
          if (pv["suffix"].as_bool()) { NLW2_NLSuffix_C sf; sf.name_ = "priority"; sf.table_ = ""; sf.kind_ = 0; sf.numval_ = pn; sf.values_ = psuf.data(); NLW2_AddSuffix_C(&pcm, sf); sf.name_ = "prevonly"; NLW2_AddSuffix_C(&pcm, sf); }
        }
        r.stats.set("history.prev_model", 1);
      }
      mp::NLModel& prev = capi && has_prev ? *static_cast<mp::NLModel*>(pcm.p_data_) : prev_cpp;
      // ---- (a) write, then read the files back with mp's NL reader
      mp::NLModel::PreprocessData pd;
      if (has_prev) { std::string e0 = prev.WriteNL(g.scratch + "a", opts, utils, pd); if (!e0.empty()) err_a = "earlier model: " + e0; }   // same stub, same PreprocessData
      if (err_a.empty()) err_a = mdl.WriteNL(g.scratch + "a", opts, utils, pd);
      vperm = pd.vperm_; vperm_inv = pd.vperm_inv_;
      if (err_a.empty()) {
        mp::Problem P;
        mp::ReadNLFile(g.scratch + "a.nl", P);
        if (P.num_vars() != n || P.num_algebraic_cons() != m) flag("WRONG_SIZE", "header", "written problem has " + std::to_string(P.num_vars()) + " vars / " + std::to_string(P.num_algebraic_cons()) + " rows, model has " + std::to_string(n) + " / " + std::to_string(m));
        else {
          if ((int)vperm.size() != n) flag("NO_PERMUTATION", "pd", "writer reported a permutation of size " + std::to_string(vperm.size()));
          std::set<int> img(vperm.begin(), vperm.end());
          if ((int)img.size() != n) flag("BAD_PERMUTATION", "pd", "reported permutation is not a bijection");
          for (int j = 0; j < n && viol.empty(); ++j) {
            int p = vperm[j];
            auto v = P.var(p);
            if (v.lb() != lb[j] || v.ub() != ub[j]) flag("WRONG_BOUNDS", "var", "column " + std::to_string(j) + " -> position " + std::to_string(p) + " has bounds [" + gen::fmt_double(v.lb()) + "," + gen::fmt_double(v.ub()) + "], given [" + gen::fmt_double(lb[j]) + "," + gen::fmt_double(ub[j]) + "]");
            if ((v.type() == mp::var::INTEGER) != (ty[j] != 0)) flag("WRONG_TYPE", "var", "column " + std::to_string(j) + " (" + (ty[j] ? "integer" : "continuous") + ") -> position " + std::to_string(p) + " is read as " + (v.type() == mp::var::INTEGER ? "integer" : "continuous"));
          }
          for (int i = 0; i < m && viol.empty(); ++i) {
            auto con = P.algebraic_con(i);
            if (con.lb() != rlb[i] || con.ub() != rub[i]) flag("WRONG_ROW_RANGE", "row", "row " + std::to_string(i) + " range differs");
            std::set<std::pair<int, double>> want, got;
            size_t e = i + 1 < m ? astart[i + 1] : aindex.size();
            for (size_t q = astart[i]; q < e; ++q) want.insert({vperm[aindex[q]], avalue[q]});
            for (auto t : con.linear_expr()) got.insert({t.var_index(), t.coef()});
            if (want != got) flag("WRONG_ROW_COEFS", "row", "row " + std::to_string(i) + " coefficients differ after the permutation");
          }
          // header class counts == sizes of the permuted blocks (the header is text in both formats)
          if (viol.empty()) {
            std::string nl; sim::read_file(g.scratch + "a.nl", nl);
            std::vector<std::string> hl; size_t p0 = 0;
            for (int k = 0; k < 10 && p0 < nl.size(); ++k) { size_t q = nl.find('\n', p0); if (q == std::string::npos) break; hl.push_back(nl.substr(p0, q - p0)); p0 = q + 1; }
            std::vector<bool> nonlin(n, false);
            if (quad) for (int i = 0; i < n; ++i) { size_t e = i + 1 < n ? qstart[i + 1] : qindex.size(); for (size_t q = qstart[i]; q < e; ++q) { nonlin[i] = true; nonlin[qindex[q]] = true; } }
            int nlv = 0, nlvi = 0, nbv = 0, niv = 0;
            for (int j = 0; j < n; ++j) {
              if (nonlin[j]) { ++nlv; if (ty[j]) ++nlvi; }
              else if (ty[j]) { if (lb[j] == 0 && ub[j] == 1) ++nbv; else ++niv; }
            }
            int h_nlvc = -1, h_nlvo = -1, h_nlvb = -1, h_nbv = -1, h_niv = -1, h_b = -1, h_c = -1, h_o = -1;
            if (hl.size() >= 7) { sscanf(hl[4].c_str(), "%d %d %d", &h_nlvc, &h_nlvo, &h_nlvb); sscanf(hl[6].c_str(), "%d %d %d %d %d", &h_nbv, &h_niv, &h_b, &h_c, &h_o); }
            if (h_nlvo != nlv || h_o != nlvi || h_nbv != nbv || h_niv != niv || h_nlvc != 0)
              flag("WRONG_HEADER_CLASSES", quad ? "qp" : "lp", "header says nonlinear-in-objective " + std::to_string(h_nlvo) + " (integer " + std::to_string(h_o) + "), linear binary " + std::to_string(h_nbv) + ", linear integer " + std::to_string(h_niv) +
                   "; the model has " + std::to_string(nlv) + " (" + std::to_string(nlvi) + "), " + std::to_string(nbv) + ", " + std::to_string(niv));
            // block order: nonlinear continuous, nonlinear integer, linear continuous, linear binary, linear integer
            auto cls = [&](int j) { return nonlin[j] ? (ty[j] ? 1 : 0) : (!ty[j] ? 2 : (lb[j] == 0 && ub[j] == 1) ? 3 : 4); };
            for (int a = 0; a < n && viol.empty(); ++a) for (int b = 0; b < n; ++b)
              if (cls(a) < cls(b) && vperm[a] > vperm[b]) { flag("WRONG_BLOCK_ORDER", quad ? "qp" : "lp", "column " + std::to_string(a) + " (class " + std::to_string(cls(a)) + ") is written after column " + std::to_string(b) + " (class " + std::to_string(cls(b)) + ")"); break; }
          }
          if (P.num_objs() != 1) flag("WRONG_SIZE", "objs", std::to_string(P.num_objs()) + " objectives written");
          else if (viol.empty()) {
            auto obj = P.obj(0);
            if ((obj.type() == mp::obj::MAX) != sc["maximize"].as_bool()) flag("WRONG_SENSE", "obj", "objective sense differs");
            sim::Rng pr((uint64_t)sc["points_seed"].as_double(), "C08pts", 0);
            for (int t = 0; t < 16 && viol.empty(); ++t) {
              std::vector<double> x(n), xp(n);
              for (int j = 0; j < n; ++j) { x[j] = (double)pr.range(-6, 6) + (pr.chance(0.5) ? 0.5 : 0.0); xp[vperm[j]] = x[j]; }
              double lin = 0;
              for (auto tm : obj.linear_expr()) lin += tm.coef() * xp[tm.var_index()];
              double nlv = obj.nonlinear_expr() ? eval(obj.nonlinear_expr(), xp) : 0.0;
              double want = ref_obj(x);
              if (!near(lin + nlv, want, ref_scale(x))) flag("WRONG_OBJECTIVE", quad ? "quadratic" : "linear", "at a test point the written objective evaluates to " + gen::fmt_double(lin + nlv) + ", the given one to " + gen::fmt_double(want));
              if (!near(mdl.ComputeObjValue(x.data()), want, ref_scale(x))) flag("WRONG_OBJ_RECOMPUTED", quad ? "quadratic" : "linear", "ComputeObjValue gives " + gen::fmt_double(mdl.ComputeObjValue(x.data())) + ", reference " + gen::fmt_double(want));
            }
          }
          // warm starts
          if (viol.empty()) {
            auto iv = P.InitialValues(); auto ivs = P.InitialValuesSparsity();
            std::map<int, double> wsx; for (size_t k = 0; k < wxi.size(); ++k) wsx[wxi[k]] = wxv[k];
            for (int j = 0; j < n; ++j) {
              int p = vperm[j];
              double got = (size_t)p < iv.size() ? iv[p] : 0.0;
              bool given = (size_t)p < ivs.size() ? ivs[p] != 0 : false;
              if (wsx.count(j) ? (!given || got != wsx[j]) : given) flag("WRONG_WARMSTART", "primal", "warm start of column " + std::to_string(j) + " read back as " + gen::fmt_double(got) + (given ? "" : " (not given)"));
            }
            auto dv = P.InitialDualValues(); auto dvs = P.InitialDualValuesSparsity();
            std::map<int, double> wsy; for (size_t k = 0; k < wyi.size(); ++k) wsy[wyi[k]] = wyv[k];
            for (int i = 0; i < m; ++i) {
              double got = (size_t)i < dv.size() ? dv[i] : 0.0;
              bool given = (size_t)i < dvs.size() ? dvs[i] != 0 : false;
              if (wsy.count(i) ? (!given || got != wsy[i]) : given) flag("WRONG_WARMSTART", "dual", "dual warm start of row " + std::to_string(i) + " read back as " + gen::fmt_double(got));
            }
          }
          // suffixes
          for (auto& s : sc["suffixes"].arr()) {
            if (!viol.empty()) break;
            int kind = (int)s["kind"].as_int(); bool real = kind & 4; int ik = kind & 3;
            std::vector<double> vals = dvec(s["values"]);
            const mp::Problem& CP = P;
            mp::Suffix suf = CP.suffixes((mp::suf::Kind)ik).Find(s["name"].as_str().c_str());
            bool any = false; for (double v : vals) any |= v != 0;
            if (!suf) { if (any) flag("SUFFIX_LOST", s["name"].as_str(), "suffix " + s["name"].as_str() + " not found in the written file"); continue; }
            for (size_t k = 0; k < vals.size(); ++k) {
              int pos = ik == 0 ? vperm[k] : (int)k;
              double got;
              if (real) got = mp::Cast<mp::DoubleSuffix>(suf).value(pos); else got = mp::Cast<mp::IntSuffix>(suf).value(pos);
              if (got != vals[k]) flag("WRONG_SUFFIX", ik == 0 ? "var" : ik == 1 ? "con" : "other", "suffix " + s["name"].as_str() + " of item " + std::to_string(k) + " read back as " + gen::fmt_double(got) + ", given " + gen::fmt_double(vals[k]));
            }
          }
          // names: a model without names leaves no name files behind, whatever was written to the stub before
          if (!names && viol.empty()) {
            std::string tmp;
            if (sim::read_file(g.scratch + "a.col", tmp) && !tmp.empty()) flag("STALE_NAMES", "col", "the model has no column names but a.col exists after WriteNL: " + tmp.substr(0, 60));
            if (sim::read_file(g.scratch + "a.row", tmp) && !tmp.empty()) flag("STALE_NAMES", "row", "the model has no row names but a.row exists after WriteNL: " + tmp.substr(0, 60));
          }
          if (names && viol.empty()) {
            std::string col, row;
            sim::read_file(g.scratch + "a.col", col); sim::read_file(g.scratch + "a.row", row);
            std::vector<std::string> cl; size_t p0 = 0; while (p0 < col.size()) { size_t q = col.find('\n', p0); if (q == std::string::npos) break; cl.push_back(col.substr(p0, q - p0)); p0 = q + 1; }
            if ((int)cl.size() < n) flag("WRONG_NAMES", "col", ".col has " + std::to_string(cl.size()) + " lines for " + std::to_string(n) + " columns");
            else for (int j = 0; j < n; ++j) if (cl[vperm[j]] != cn[j]) flag("WRONG_NAMES", "col", "column " + std::to_string(j) + " named '" + cn[j] + "' appears as '" + cl[vperm[j]] + "' at its position");
            std::vector<std::string> rl; p0 = 0; while (p0 < row.size()) { size_t q = row.find('\n', p0); if (q == std::string::npos) break; rl.push_back(row.substr(p0, q - p0)); p0 = q + 1; }
            for (int i = 0; i < m && i < (int)rl.size(); ++i) if (rl[i] != rn[i]) flag("WRONG_NAMES", "row", "row " + std::to_string(i) + " named '" + rn[i] + "' appears as '" + rl[i] + "'");
            if ((int)rl.size() < m) flag("WRONG_NAMES", "row", ".row has " + std::to_string(rl.size()) + " lines for " + std::to_string(m) + " rows");
          }
        }
      }
      // ---- (b) solve through the driver and read the solution back
      const char* drv_opts = sc["sens"].as_bool() ? "sol:chk:mode=0 mip:basis=1 alg:basis=3 alg:sens=1" : "sol:chk:mode=0 mip:basis=1 alg:basis=3";
      if (!capi) {
        mp::NLSolver nls(&utils);
        nls.SetFileStub(g.scratch + "stub");
        if (!sc["default_nlopts"].as_bool()) nls.SetNLOptions(opts);
        if (has_prev) {
          if (!nls.LoadModel(static_cast<const mp::NLModel&>(prev))) err_b = std::string("LoadModel(earlier): ") + nls.GetErrorMessage();
          else if (sc["prev"]["mode"].as_int() == 2) { if (nls.Solve("simdrv", drv_opts)) { mp::NLSolution s0 = nls.ReadSolution(); (void)s0; } }
          g_stub.clear();
        }
        if (!err_b.empty()) {}
        else if (one_call) {
          sol = nls.Solve(mdl, "simdrv", drv_opts); solved = true; one_call_obj = sol.obj_val_;
          if (!sol) err_b = std::string("Solve(model): ") + nls.GetErrorMessage();
        }
        else if (!nls.LoadModel(static_cast<const mp::NLModel&>(mdl))) err_b = std::string("LoadModel: ") + nls.GetErrorMessage();
        else if (!nls.Solve("simdrv", drv_opts)) err_b = std::string("Solve: ") + nls.GetErrorMessage();
        else { sol = nls.ReadSolution(); solved = true; if (!sol) err_b = std::string("ReadSolution: ") + nls.GetErrorMessage(); }
      } else {
        NLW2_NLUtils_C cu = NLW2_MakeNLUtils_C_Default();
        NLW2_NLSolver_C cs = NLW2_MakeNLSolver_C(&cu);
        NLW2_SetFileStub_C(&cs, (g.scratch + "stub").c_str());
        if (!sc["default_nlopts"].as_bool()) NLW2_SetNLOptions_C(&cs, opts);
        if (has_prev) {
          if (!NLW2_LoadNLModel_C(&cs, &pcm)) err_b = std::string("LoadModel(earlier): ") + NLW2_GetErrorMessage_C(&cs);
          else if (sc["prev"]["mode"].as_int() == 2) { if (NLW2_RunSolver_C(&cs, "simdrv", drv_opts)) { NLW2_NLSolution_C s0 = NLW2_ReadSolution_C(&cs); (void)s0; } }
          g_stub.clear();
        }
        if (!err_b.empty()) {}
        else if (!one_call && !NLW2_LoadNLModel_C(&cs, &cm)) err_b = std::string("LoadModel: ") + NLW2_GetErrorMessage_C(&cs);
        else if (!one_call && !NLW2_RunSolver_C(&cs, "simdrv", drv_opts)) err_b = std::string("Solve: ") + NLW2_GetErrorMessage_C(&cs);
        else {
          NLW2_NLSolution_C cs_sol = one_call ? NLW2_SolveNLModel_C(&cs, &cm, "simdrv", drv_opts) : NLW2_ReadSolution_C(&cs);
          solved = true; one_call_obj = cs_sol.obj_val_;
          sol.solve_result_ = cs_sol.solve_result_;
          sol.nbs_ = cs_sol.nbs_;
          sol.solve_message_ = cs_sol.solve_message_ ? cs_sol.solve_message_ : "";
          sol.x_.assign(cs_sol.x_, cs_sol.x_ + cs_sol.n_primal_values_);
          sol.y_.assign(cs_sol.y_, cs_sol.y_ + cs_sol.n_dual_values_);
          for (int k = 0; k < cs_sol.nsuf_; ++k) {
            const NLW2_NLSuffix_C& sf = cs_sol.suffixes_[k];
            sol.suffixes_.Add(mp::NLSuffix{sf.name_, sf.table_ ? sf.table_ : "", sf.kind_, std::vector<double>(sf.values_, sf.values_ + sf.numval_)});
          }
          if (!sol) err_b = std::string(one_call ? "Solve(model): " : "ReadSolution: ") + NLW2_GetErrorMessage_C(&cs);
        }
        NLW2_DestroyNLSolver_C(&cs);
        NLW2_DestroyNLUtils_C_Default(&cu);
      }
      if (capi) NLW2_DestroyNLModel_C(&cm);
      if (capi && has_prev) NLW2_DestroyNLModel_C(&pcm);
    } catch (const std::exception& e) { exc = e.what(); }
    catch (...) { exc = "non-std exception"; }
  } else exited = true;
  g.end();
  sim::system_hook = nullptr;
  std::string out, err;
  sim::capture_end(out, err);
  g.exit_jmp = nullptr;

  if (::getenv("VERIF_DUMP")) {
    std::string nl; sim::read_file(g.scratch + "a.nl", nl);
    fprintf(stderr, "---- a.nl (%zu bytes):\n%s\n---- exc=%s err_a=%s err_b=%s\n", nl.size(), nl.substr(0, 1500).c_str(), exc.c_str(), err_a.c_str(), err_b.c_str());
  }
  if (sc["default_nlopts"].as_bool() && err_b.empty()) {
    std::string nl; sim::read_file(g.scratch + "stub.nl", nl);
    r.stats.set("default_nlopts", 1);
    if (!nl.empty() && nl[0] != 'b') flag("WRONG_DEFAULT_FORMAT", "nlopts", "SetNLOptions() was never called: the documented default is binary without comments, the file starts with '" + nl.substr(0, 12) + "'");
    if (nl.find("# problem") != std::string::npos && nl.find("\t#") != std::string::npos && nl[0] == 'g') flag("WRONG_DEFAULT_FORMAT", "comments", "default options: comments written");
  }
  if (!exc.empty()) flag("EXCEPTION", "client", exc);
  if (exited) flag("EXITED", "client", "simulated process exit inside the loop");
  if (!err_a.empty()) flag("WRITE_FAILED", "nl", err_a);
  const StubModel& sm = g_stub;
  if (g_sys_fail && g_sys_calls > g_sys_fail_at) {
    // the solver never ran for the caller's model: the caller is told so and receives no solution,
    // whatever an earlier solve left at the stub
    r.stats.set("solver_run_failed", 1);
    if (viol.empty() && err_b.empty()) flag("FAILED_RUN_NOT_REPORTED", one_call ? "one-call" : "stepwise", "the solver command failed and no solution file was written for this model, but the caller was given a result: solve_result " + std::to_string(sol.solve_result_) + ", " + std::to_string(sol.x_.size()) + " primal values");
    if (viol.empty() && (sol || !sol.x_.empty())) flag("STALE_SOLUTION", one_call ? "one-call" : "stepwise", "the solver command failed, yet a solution with " + std::to_string(sol.x_.size()) + " primal values came back (" + err_b.substr(0, 120) + ")");
    err_b.clear(); solved = false;
  }
  if (viol.empty() && !err_b.empty()) flag("LOOP_FAILED", err_b.substr(0, err_b.find(':')), err_b.substr(0, 300));
  if (viol.empty() && solved && sol) {
    long status = sc["script"]["status"].as_int();
    if (sol.solve_result_ != status) flag("WRONG_SOLVE_RESULT", "code", "solver reported " + std::to_string(status) + ", the caller received " + std::to_string(sol.solve_result_));
    const bool pnone = sc["script"]["primal"].as_str() == "none";
    if (pnone) {
      r.stats.set("answer_without_primal", 1);
      for (double xv : sol.x_) if (xv != 0) { flag("WRONG_PRIMAL", "x-none", "the solver returned no primal point, the caller received a non-zero value " + gen::fmt_double(xv)); break; }
    }
    else if ((int)sol.x_.size() != n) flag("WRONG_SOLUTION_SIZE", "x", "solution has " + std::to_string(sol.x_.size()) + " values for " + std::to_string(n) + " columns");
    else for (int j = 0; j < n; ++j) {
      double want = SimBackend::VarTag(vperm[j]);
      if (sol.x_[j] != want) flag("WRONG_PRIMAL", "x", "column " + std::to_string(j) + " (written at position " + std::to_string(vperm[j]) + ") received " + gen::fmt_double(sol.x_[j]) + ", the solver assigned " + gen::fmt_double(want) + " to that position");
    }
    if (viol.empty() && (int)sol.x_.size() == n && !pnone) {
      // the caller recomputes the objective from x in its own order
      mp::NLModel m2("c08b");   // only ComputeObjValue's inputs matter
      m2.SetCols({n, lb.data(), ub.data(), ty.data()});
      m2.SetLinearObjective(NLW2_ObjSenseMinimize, c0, have_c ? c.data() : nullptr);
      if (quad) m2.SetHessian((NLW2_HessianFormat)sc["qformat"].as_int(), {n, NLW2_MatrixFormatIrrelevant, qindex.size(), qstart.data(), qindex.data(), qvalue.data()});
      if (have_c && !near(m2.ComputeObjValue(sol.x_.data()), ref_obj(sol.x_), ref_scale(sol.x_))) flag("WRONG_OBJ_RECOMPUTED", "solution", "objective recomputed from the returned solution differs from the reference");
      // the one-call entry delivers that value itself
      if (one_call && have_c) { r.stats.set("one_call", 1); if (!near(one_call_obj, ref_obj(sol.x_), ref_scale(sol.x_))) flag("WRONG_OBJ_RECOMPUTED", "one-call", "Solve(model, ...) returned obj_val_ " + gen::fmt_double(one_call_obj) + ", the objective at the returned solution is " + gen::fmt_double(ref_obj(sol.x_))); }
    }
    // duals by content matching of rows
    if (viol.empty() && !sol.y_.empty()) {
      if ((int)sol.y_.size() != m) flag("WRONG_SOLUTION_SIZE", "y", "dual solution has " + std::to_string(sol.y_.size()) + " values for " + std::to_string(m) + " rows");
      else for (int i = 0; i < m; ++i) {
        std::set<std::pair<int, double>> want;
        size_t e = i + 1 < m ? astart[i + 1] : aindex.size();
        for (size_t q = astart[i]; q < e; ++q) want.insert({vperm[aindex[q]], avalue[q]});
        if (want.empty()) continue;
        int found = 0, gidx = -1, grp = 0;
        for (auto& dc : sm.cons) {
          if (!dc.is_alg || !dc.quad.empty()) continue;
          std::set<std::pair<int, double>> got;
          for (auto& t : dc.lin) got.insert({t.var, t.coef});
          if (got == want && dc.lb == rlb[i] && dc.ub == rub[i]) { ++found; gidx = dc.idx_in_group; grp = dc.group; }
        }
        if (found == 1 && sol.y_[i] != SimBackend::ConTag(grp, gidx)) flag("WRONG_DUAL", "y", "row " + std::to_string(i) + " received dual " + gen::fmt_double(sol.y_[i]) + ", its image row has " + gen::fmt_double(SimBackend::ConTag(grp, gidx)));
      }
    }
    // a solver-side suffix: variable basis statuses come back in the caller's order
    if (viol.empty()) {
      const mp::NLSuffix* ss = sol.suffixes_.Find("sstatus", 0);
      if (ss) {
        int salt = (int)sc["script"]["basis_salt"].as_int();
        r.stats.set("sstatus_returned", 1);
        if ((int)ss->values_.size() != n) flag("WRONG_SOLUTION_SIZE", "sstatus", "sstatus has " + std::to_string(ss->values_.size()) + " values");
        else for (int j = 0; j < n; ++j) if ((int)ss->values_[j] != SimBackend::StatusTag(salt, vperm[j])) flag("WRONG_SUFFIX_BACK", "sstatus", "column " + std::to_string(j) + " received status " + std::to_string((int)ss->values_[j]) + ", position " + std::to_string(vperm[j]) + " had " + std::to_string(SimBackend::StatusTag(salt, vperm[j])));
      }
    }
  }
  // names follow their items all the way to the solver: the driver reads <stub>.col / .row with the library's name reader
  if (viol.empty() && solved && sol && names && (int)sm.vars.size() >= n) {
    int named = 0;
    for (int j = 0; j < n; ++j) {
      const StubVar& sv = sm.vars[(size_t)vperm[j]];
      if (cn[j].empty()) continue;
      ++named;
      if (sv.has_name && sv.name != cn[j]) { flag("WRONG_NAMES", "solver-col", "column " + std::to_string(j) + " named '" + cn[j] + "' (position " + std::to_string(vperm[j]) + ") reached the solver as '" + sv.name + "'"); break; }
    }
    if (named) r.stats.set("names_checked_at_solver", 1);
    if (sc.has("empty_names_seed")) r.stats.set("some_names_empty", 1);
    for (int i = 0; i < m && viol.empty(); ++i) {
      if (rn[i].empty()) continue;
      std::set<std::pair<int, double>> want;
      size_t e = i + 1 < m ? astart[i + 1] : aindex.size();
      for (size_t q = astart[i]; q < e; ++q) want.insert({vperm[aindex[q]], avalue[q]});
      if (want.empty()) continue;
      int found = 0; const StubCon* img = nullptr;
      for (auto& dc : sm.cons) {
        if (!dc.is_alg || !dc.quad.empty()) continue;
        std::set<std::pair<int, double>> got;
        for (auto& t : dc.lin) got.insert({t.var, t.coef});
        if (got == want && dc.lb == rlb[i] && dc.ub == rub[i]) { ++found; img = &dc; }
      }
      if (found == 1 && !img->name.empty() && img->name != rn[i]) flag("WRONG_NAMES", "solver-row", "row " + std::to_string(i) + " named '" + rn[i] + "' reached the solver as '" + img->name + "'");
    }
  }
  // constraint basis statuses come back too (same suffix name on another kind), matched by row content
  if (viol.empty() && solved && sol) {
    const mp::NLSuffix* vs = sol.suffixes_.Find("sstatus", 0);
    const mp::NLSuffix* cs = sol.suffixes_.Find("sstatus", 1);
    int nlin = 0; for (auto& dc : sm.cons) if (dc.is_alg && dc.group == mp::CG_Linear) ++nlin;
    if (vs && !cs && nlin > 0 && m > 0) flag("SUFFIX_LOST_BACK", "sstatus/con", "the solution carries .sstatus for variables but none for constraints (" + std::to_string(sol.suffixes_.size()) + " suffixes returned)");
    if (cs && (int)cs->values_.size() == m) {
      int salt = (int)sc["script"]["basis_salt"].as_int();
      r.stats.set("con_sstatus_returned", 1);
      for (int i = 0; i < m; ++i) {
        std::set<std::pair<int, double>> want;
        size_t e = i + 1 < m ? astart[i + 1] : aindex.size();
        for (size_t q = astart[i]; q < e; ++q) want.insert({vperm[aindex[q]], avalue[q]});
        if (want.empty()) continue;
        int found = 0, gidx = -1, grp = 0;
        for (auto& dc : sm.cons) {
          if (!dc.is_alg || !dc.quad.empty()) continue;
          std::set<std::pair<int, double>> got;
          for (auto& t : dc.lin) got.insert({t.var, t.coef});
          if (got == want && dc.lb == rlb[i] && dc.ub == rub[i]) { ++found; gidx = dc.idx_in_group; grp = dc.group; }
        }
        if (found == 1 && grp == mp::CG_Linear && (int)cs->values_[i] != SimBackend::StatusTag(salt + grp, gidx))
          flag("WRONG_SUFFIX_BACK", "sstatus/con", "row " + std::to_string(i) + " received status " + std::to_string((int)cs->values_[i]) + ", its image row has " + std::to_string(SimBackend::StatusTag(salt + grp, gidx)));
      }
    }
  }
  // real-valued solver-side suffixes (sensitivity ranges): variables in the caller's order, rows by content
  if (viol.empty() && solved && sol && sc["sens"].as_bool()) {
    static const struct { const char* name; double shift; } kVarSens[] = {
      {"senslbhi", 1e5}, {"senslblo", 2e5}, {"sensubhi", 3e5}, {"sensublo", 4e5}, {"sensobjhi", 5e5}, {"sensobjlo", 6e5}};
    for (auto& vs : kVarSens) {
      const mp::NLSuffix* ss = sol.suffixes_.Find(vs.name, 0);
      if (!ss) continue;
      r.stats.set("sens_var_suffix_returned", r.stats["sens_var_suffix_returned"].as_int(0) + 1);
      if ((int)ss->values_.size() != n) { flag("WRONG_SOLUTION_SIZE", vs.name, std::string(vs.name) + " has " + std::to_string(ss->values_.size()) + " values"); continue; }
      for (int j = 0; j < n; ++j) {
        double want = SimBackend::VarTag(vperm[j]) + vs.shift;
        if (ss->values_[j] != want) flag("WRONG_SUFFIX_BACK", "var-real", "column " + std::to_string(j) + " received ." + vs.name + " = " + gen::fmt_double(ss->values_[j]) + ", position " + std::to_string(vperm[j]) + " had " + gen::fmt_double(want));
      }
    }
    const mp::NLSuffix* cs = sol.suffixes_.Find("sensrhshi", 1);
    if (cs && (int)cs->values_.size() == m) {
      r.stats.set("sens_con_suffix_returned", 1);
      for (int i = 0; i < m; ++i) {
        std::set<std::pair<int, double>> want;
        size_t e = i + 1 < m ? astart[i + 1] : aindex.size();
        for (size_t q = astart[i]; q < e; ++q) want.insert({vperm[aindex[q]], avalue[q]});
        if (want.empty()) continue;
        int found = 0, gidx = -1, grp = 0;
        for (auto& dc : sm.cons) {
          if (!dc.is_alg || !dc.quad.empty()) continue;
          std::set<std::pair<int, double>> got;
          for (auto& t : dc.lin) got.insert({t.var, t.coef});
          if (got == want && dc.lb == rlb[i] && dc.ub == rub[i]) { ++found; gidx = dc.idx_in_group; grp = dc.group; }
        }
        if (found == 1 && grp == mp::CG_Linear && cs->values_[i] != SimBackend::ConTag(grp, gidx) + 7e5)
          flag("WRONG_SUFFIX_BACK", "con-real", "row " + std::to_string(i) + " received .sensrhshi = " + gen::fmt_double(cs->values_[i]) + ", its image row has " + gen::fmt_double(SimBackend::ConTag(grp, gidx) + 7e5));
      }
    }
  }
  // ---- result bookkeeping
  uint64_t h = g.hash;
  for (auto& f : sim::list_scratch()) { std::string d; if (sim::read_file(g.scratch + f, d)) { h = sim::fnv1a(f, h); h = sim::fnv1a(d, h); } }
  h = sim::fnv1a(exc + err_a + err_b, h);
  for (double v : sol.x_) h = sim::fnv1a(&v, sizeof v, h);
  r.fingerprint = h;
  bool permuted = false; for (int j = 0; j < (int)vperm.size(); ++j) permuted |= vperm[j] != j;
  std::string cls = std::string(quad ? "Q" : "L") + (sc["text"].as_bool() ? "t" : "b") + (permuted ? "P" : "-") + (names ? "n" : "-") + std::to_string(n) + "x" + std::to_string(m) + (solved ? "S" : "-");
  r.trace_sig = sim::fnv1a(cls + std::to_string(sc["qformat"].as_int()) + std::to_string(sc["suffixes"].size()));
  r.nontrivial = true;
  if (!r.stats.is_obj()) r.stats = sim::Json::object();
  r.stats.set("loops_completed", solved && sol ? 1 : 0);
  r.stats.set("permuted", permuted ? 1 : 0);
  r.stats.set(quad ? "qp" : "lp", 1);
  r.stats.set(sc["text"].as_bool() ? "text" : "binary", 1);
  r.sim_time_s = (g.clock_ns - g.clock_start_ns) * 1e-9;
  if (!viol.empty()) { r.verdict = viol; r.sig = "C08:" + viol + ":" + key; r.detail = detail; }
  return r;
}

void judge_unused(const sim::Json&, const RunRecord&, sim::RunResult&) {}
Property prop = {"C08", generate, nullptr, judge_unused, run};
DRVSIM_REGISTER(prop);

}  // namespace
}  // namespace drvsim
