// C09 — a driver run always ends in a well-formed result or a diagnosed failure.
#include <cstring>

#include "harness.h"
#include "scen.h"
#include "../oracle/solparse.h"

namespace drvsim {
namespace {

const char* kValidOpts[] = {
  "tech:timing=1", "tech:reporttimes=1", "sol:chk:mode=0", "sol:chk:mode=1023", "cvt:pre:all=0", "cvt:pre:eqbinary=0",
  "cvt:pre:eqresult=0", "cvt:pre:unnest=0", "cvt:quadcon=0", "cvt:quadobj=0", "cvt:sos=0", "cvt:sos2=0", "alg:relax=1", "alg:basis=3",
  "alg:start=2", "alg:rays=3", "alg:iisfind=1", "alg:kappa=3", "alg:sens=1", "mip:round=7", "mip:return_gap=7", "mip:bestbound=1",
  "mip:basis=1", "mip:lazy=3", "mip:priorities=1", "tech:intopt=7", "tech:dblopt=1.5", "tech:stropt=abc", "tech:stropt='a b'",
  "tech:flagopt", "tech:listopt=3", "alg:feasrelax=1", "obj:multi=1", "tech:debug=1", "sol:chk:fail", "sol:chk:infeas",
  "cvt:names=0", "cvt:names=2", "cvt:names=3", "cvt:mip:eps=1e-3", "cvt:bigM=1e4", "cvt:plapprox:reltol=0.1", "cvt:uenc:ratio=0.5"};
const char* kBadOpts[] = {
  "nosuchoption=1", "acc:nosuch=0", "outlev=abc", "tech:intopt=1.5x", "tech:flagopt=3", "cvt:names=", "tech:dblopt='", "wantsol=99",
  "objno=-1", "tech:intopt=99999999999999999999", "=5", "tech:stropt=\"unterminated", "obj:no=17", "sol:chk:mode=q"};

sim::Json generate(const std::string& tier, uint64_t seed, uint64_t index) {
  (void)tier;
  sim::Rng rng(seed, "C09", index);
  gen::GenOptions go;
  go.p_nonlinear = 0.6;
  go.allow_infeasible_bounds = true;
  go.want_names = rng.chance(0.35);
  go.linear_only = rng.chance(0.15);
  gen::Model m = gen::generate(rng, go);

  bool ampl = rng.chance(0.7);
  sim::Json sc = model_scenario(m, ampl, rng.chance(0.3));
  std::string label = m.linear_clean ? "LINEAR_CLEAN" : "GENERAL";
  int wantsol = ampl ? 1 : 0;
  if (!ampl) {
    int k = (int)rng.below(5);
    if (k == 0) { sc.ref("argv").arr().insert(sc.ref("argv").arr().begin() + 1, sim::Json("-s")); wantsol = 1; }
    else if (k == 1) { wantsol = (int)rng.range(0, 15); sc.ref("argv").push("wantsol=" + std::to_string(wantsol)); }
    if (rng.chance(0.2)) sc.ref("argv").arr().insert(sc.ref("argv").arr().begin() + 1, sim::Json("-e"));
  }

  // tuning knob: size of the stdio buffers of the simulated process (small: the .sol is flushed in many pieces)
  if (rng.chance(0.35)) { static const int bs[] = {1, 16, 64, 200, 1024}; sc.set("stdio_bufsize", bs[rng.below(5)]); }

  // names files
  if (go.want_names && rng.chance(0.2)) sc.set("names_shape", apply_long_names(rng, m));
  if (go.want_names) {
    int nm = 1 + (int)rng.below(NAMES_MODES - 1);
    add_names_files(sc, m, nm);
    if (nm == NAMES_TORN && label == "LINEAR_CLEAN") label = "NAMES_TORN";   // a torn names file is a legitimate diagnosed failure
  }

  // damaged NL
  if (rng.chance(0.08)) {
    std::string nl = sc["files"]["stub.nl"].as_str();
    int k = (int)rng.below(8);
    if (k == 7) {
      // the header declares more logical constraints / objectives / algebraic constraints than the file defines
      size_t l1 = nl.find('\n'), l2 = l1 == std::string::npos ? l1 : nl.find('\n', l1 + 1);
      if (l2 != std::string::npos && !sc["nl_binary"].as_bool()) {
        std::string line = nl.substr(l1 + 1, l2 - l1 - 1), comment;
        size_t hash = line.find('#'); if (hash != std::string::npos) { comment = line.substr(hash); line.resize(hash); }
        std::vector<long> f; { const char* p = line.c_str(); char* e; for (;;) { long v = strtol(p, &e, 10); if (e == p) break; f.push_back(v); p = e; } }
        while (f.size() < 6) f.push_back(0);
        int which = (int)rng.below(3);       // 0: logical constraints, 1: objectives, 2: algebraic constraints
        f[which == 0 ? 5 : which == 1 ? 2 : 1] += 1 + (long)rng.below(3);
        std::string nline;
        for (long v : f) nline += " " + std::to_string(v);
        nl = nl.substr(0, l1 + 1) + nline + "\t" + comment + nl.substr(l2);
      } else k = 0;
    }
    if (k >= 5 && k < 7) {
      // a function is used but its declaration is missing (k==5) / given twice (k==6)
      size_t p = sc["nl_binary"].as_bool() ? std::string::npos : nl.find("\nF0 ");
      if (p != std::string::npos) {
        size_t q = nl.find('\n', p + 1);
        if (k == 5) nl.erase(p, q - p); else nl.insert(q, nl.substr(p, q - p));
      } else k = 0;
    }
    if (k == 0 && nl.size() > 4) nl.resize(rng.below(nl.size()));
    else if (k == 1 && !nl.empty()) nl[rng.below(nl.size())] = (char)rng.below(256);
    else if (k == 2) { size_t p = nl.find('\n', rng.below(nl.size())); if (p != std::string::npos) { size_t q = nl.find('\n', p + 1); if (q != std::string::npos) nl.erase(p, q - p); } }
    else if (k == 3) { size_t p = nl.find("\n ", 0); if (p != std::string::npos) nl.replace(p + 2, 1, "99999999"); }
    else if (k == 4) nl = "";
    sc.ref("files").set("stub.nl", nl);
    label = "MALFORMED";
  }
  if (rng.chance(0.02)) { sc.ref("files").erase("stub.nl"); label = "MALFORMED"; }

  // options
  std::vector<std::string> opts;
  if (rng.chance(0.6)) { auto a = acc_profile(rng); opts.insert(opts.end(), a.begin(), a.end()); }
  int nvalid = (int)rng.below(5);
  for (int i = 0; i < nvalid; ++i) opts.push_back(kValidOpts[rng.below(sizeof kValidOpts / sizeof *kValidOpts)]);
  if (rng.chance(0.08)) { opts.push_back(kBadOpts[rng.below(sizeof kBadOpts / sizeof *kBadOpts)]); if (label == "LINEAR_CLEAN" || label == "GENERAL") label = "BADOPT"; }
  bool graph = rng.chance(0.15);
  if (graph) opts.push_back("tech:writegraph=@/graph.jsonl");
  bool interm = rng.chance(0.15);
  if (interm) opts.push_back("sol:stub=@/interm");
  if (rng.chance(0.05)) opts.push_back("tech:writemodel=@/model.lp");
  if (rng.chance(0.05)) opts.push_back("tech:writesolution=@/nat.sol");
  // an option may make a clean model end differently (sol:chk:fail, feasrelax, ...): only plain options keep the strict label
  for (auto& o : opts) if (o.compare(0, 4, "acc:") != 0 && o != "tech:timing=1" && o.compare(0, 8, "sol:chk:mode") != 0 && label == "LINEAR_CLEAN") label = "LINEAR_OPTS";
  if (rng.chance(0.03)) { static const char* base[] = {"acc:linle=0", "acc:lineq=0", "acc:linge=0"}; opts.push_back(base[rng.below(3)]); if (label == "LINEAR_CLEAN" || label == "LINEAR_OPTS") label = "GENERAL"; }
  // -AMPL decides that a .sol is written; a wantsol option given as well (any value, any source) must not take that away
  if (ampl && rng.chance(0.25)) opts.push_back("wantsol=" + std::to_string((int)rng.range(0, 15)));
  rng.shuffle(opts);
  place_options(rng, sc, opts);

  // option file
  bool optfile = false;
  if (rng.chance(0.06)) {
    sc.ref("files").set("drv.opt", "# options\ntech:intopt=3\n" + std::string(rng.chance(0.3) ? "nosuch=1\n" : "tech:dblopt 2.5\n") +
                        std::string(rng.chance(0.1) ? "tech:optionfile=@/drv.opt\n" : ""));   // now and then the file names itself
    sc.ref("argv").push("tech:optionfile=@/drv.opt");
    if (label == "LINEAR_CLEAN") label = "LINEAR_OPTS";
    if (sc["files"]["drv.opt"].as_str().find("optionfile") != std::string::npos && (label == "LINEAR_OPTS" || label == "GENERAL")) label = "BADOPT";
    optfile = true;
  } else if (rng.chance(0.01)) {     // an option file that opens but cannot be read (a directory) or does not exist
    sc.ref(rng.chance(0.5) ? "argv" : "argv").push(rng.chance(0.6) ? "tech:optionfile=@/." : "optionfile=@/nosuch.opt");
    if (label == "LINEAR_CLEAN" || label == "LINEAR_OPTS" || label == "GENERAL") label = "BADOPT";
  }

  // solver script
  sim::Json& s = sc.ref("script");
  static const int codes[] = {0, 0, 0, 0, 3, 100, 150, 200, 201, 299, 300, 349, 350, 400, 401, 449, 450, 470, 499, 500, 550, 999, -1};
  s.set("status", codes[rng.below(sizeof codes / sizeof *codes)]);
  static const char* pres[] = {"full", "full", "full", "none", "long", "long"};  // shorter-than-model vectors are outside the stated quantifiers
  s.set("primal", pres[rng.below(6)]);
  s.set("dual", pres[rng.below(6)]);
  s.set("objvals", (long)rng.range(0, 2));
  s.set("solve_iters", (long)rng.range(0, 2));
  if (interm) s.set("n_interm", (long)rng.range(0, 3));
  if (rng.chance(0.05)) { static const char* sv[] = {"nan", "inf", "-inf", "huge"}; s.set("special_value", sv[rng.below(4)]); s.set("special_index", (long)rng.below(8)); }
  if (rng.chance(0.05)) {
    sim::Json t = sim::Json::object();
    static const char* wh[] = {"Solve", "ReportResults", "SetInterrupter", "ComputeIIS", "DoWriteProblem", "DoWriteSolution"};
    static const char* kd[] = {"runtime", "mp", "mpcode"};   // std exceptions only: what a real solver wrapper throws
    t.set("where", wh[rng.below(6)]); t.set("kind", kd[rng.below(3)]); t.set("code", (long)rng.range(500, 599));
    s.set("throw", t);
    if (label == "LINEAR_CLEAN" || label == "LINEAR_OPTS") label = "SOLVER_FAILS";
  }

  // stale .sol from an earlier run
  if (rng.chance(0.08)) sc.ref("files").set("stub.sol", "STALE solution of an earlier run\n\nOptions\n3\n1\n1\n0\n0\n0\n0\n0\nobjno 0 0\n");

  // faults
  bool faulted = false;
  if (rng.chance(0.4)) {
    int nf = (int)rng.range(1, 3);
    for (int i = 0; i < nf; ++i) {
      sim::FaultOp f;
      int k = (int)rng.below(20);
      if (k < 4) { f.role = "sol"; f.op = "fwrite"; f.k = (int)rng.below(sc.has("stdio_bufsize") ? 14 : 3); static const char* kd[] = {"SHORT", "SHORT", "ENOSPC", "EIO"}; f.kind = kd[rng.below(4)]; f.param = (long)rng.range(0, 300); }
      else if (k < 6) { f.role = "sol"; f.op = "fopen"; f.k = (int)rng.below(2); static const char* kd[] = {"EACCES", "ENOSPC", "EMFILE", "ENOENT"}; f.kind = kd[rng.below(4)]; }
      else if (k < 9) { f.role = "sol"; f.op = "fclose"; f.k = (int)rng.below(2); static const char* kd[] = {"ENOSPC", "EIO"}; f.kind = kd[rng.below(2)]; }
      else if (k < 11) { f.role = "nl"; f.op = "open"; f.k = 0; static const char* kd[] = {"ENOENT", "EACCES", "EINTR", "EMFILE"}; f.kind = kd[rng.below(4)]; }
      else if (k < 12) { f.role = "nl"; f.op = "mmap"; f.k = 0; f.kind = "ENOMEM"; }
      else if (k < 13) { f.role = "nl"; f.op = "fstat"; f.k = 0; f.kind = "SIZE"; f.param = -(long)rng.range(1, 40); }
      else if (k < 14) { f.role = "nl"; f.op = "close"; f.k = 0; f.kind = "EIO"; }
      else if (k < 16) { f.role = rng.chance(0.5) ? "col" : "row"; f.op = rng.chance(0.6) ? "open" : "mmap"; f.k = 0; f.kind = f.op == "open" ? (rng.chance(0.5) ? "EACCES" : "EMFILE") : "ENOMEM"; }
      else if (k < 18) { f.role = "graph"; f.op = rng.chance(0.3) ? "fopen" : "write"; f.k = (int)rng.below(3); f.kind = f.op == "fopen" ? "EACCES" : (rng.chance(0.5) ? "ENOSPC" : "EIO"); }
      else if (k < 19) { f.role = "opt"; f.op = optfile && rng.chance(0.5) ? "read" : "fopen"; f.k = 0; f.kind = f.op == "read" ? "EIO" : "EACCES"; }
      else { f.role = "stdout"; f.op = "write"; f.k = 0; f.kind = "EAGAIN"; }
      sc.ref("faults").push(f.to_json());
      faulted = true;
    }
  }
  if (rng.chance(0.03)) { sc.set("alloc_fail_nth", (long)rng.below(4)); faulted = true; }
  // second driver party: the repository's own sample driver (solvers/visitor) instead of the scripted stub.  It knows
  // other options and answers every model the same way, so nothing about the outcome is strict - but it must end well.
  if (rng.chance(0.12)) {
    sc.set("driver", "visitor");
    if (label == "LINEAR_CLEAN" || label == "LINEAR_OPTS" || label == "SOLVER_FAILS") label = "GENERAL";
  }
  else if (rng.chance(0.08)) sc.set("driver", "direct");     // main() written with mp::BackendApp itself instead of the RunBackendApp() helper
  else if (rng.chance(0.07)) {
    // the library flavour of a run: one solver object behind the AMPLS C API, loaded once, then 1..4 rounds of solve + report,
    // each report to the standard <stub>.sol or to a named file.  A round's report is one driver "run" as far as the .sol goes.
    sim::Json ses = sim::Json::object();
    sim::Json lo = sim::Json::array();
    for (auto& o : opts) lo.push(o);
    ses.set("load_options", lo);
    ses.set("api_options", sim::Json::array());
    sim::Json rounds = sim::Json::array();
    int nr = (int)rng.range(1, 4);
    for (int i = 0; i < nr; ++i) {
      sim::Json rd = sim::Json::object();
      sim::Json sct = sc["script"];
      if (sct.has("throw")) sct.erase("throw");             // AMPLSSolve is documented as a plain pass-through; solver exceptions are the caller's
      if (i) sct.set("status", codes[rng.below(sizeof codes / sizeof *codes)]);
      rd.set("script", sct);
      int w = (int)rng.below(5);
      if (w == 0) rd.set("solfile", "@/named_a.sol"); else if (w == 1) rd.set("solfile", "@/named_b.sol"); else rd.set("solfile", sim::Json());
      rounds.push(rd);
    }
    ses.set("rounds", rounds);
    // without the -AMPL switch a wantsol option (any source) decides whether a .sol is written at all
    bool has_wantsol = false; for (auto& o : opts) if (o.compare(0, 7, "wantsol") == 0) has_wantsol = true;
    ses.set("sol_firm", !has_wantsol);
    sc.set("session", ses);
  }
  sc.set("label", label);
  sc.set("faulted", faulted);
  sc.set("wantsol", wantsol);
  sc.set("ampl", ampl);
  return sc;
}

std::string cause_of(const std::string& msg) {
  auto has = [&](const char* s) { return msg.find(s) != std::string::npos; };
  if (has("nsupported") || has("not supported") || has("Not handling")) return "unsupported";
  if (has("nfeasib")) return "infeasible";
  if (has("bound")) return "needs-bounds";
  if (has("ption") || has("Invalid value")) return "option";
  if (has("expected") || has(".nl:") || has("cannot open") || has("No such file") || has("segment")) return "read-error";
  if (has("simulated solver failure")) return "solver-failure";
  return "other";
}

// AMPLS-API session: every report that succeeds leaves a complete, dimensionally right file where it was directed and touches no
// other; a call that fails says so through its return value and the message list.
void judge_session(const sim::Json& sc, const RunRecord& rec, sim::RunResult& r) {
  std::string viol, key, detail;
  auto flag = [&](const std::string& v, const std::string& k, const std::string& d) { if (viol.empty()) { viol = v; key = k; detail = d; } };
  std::string label = sc["label"].as_str();
  long nvars = sc["expect"]["nvars"].as_int(), ncons = sc["expect"]["ncons"].as_int();
  std::string fired_key = "nofault";
  for (auto& f : rec.faults) if (f.fired) { fired_key = f.role + "." + f.op + "." + f.kind; break; }
  bool any_fired = fired_key != "nofault" || !rec.fired.empty();
  if (rec.escaped) flag("ESCAPED_EXCEPTION", cause_of(rec.escaped_what), rec.escaped_what);
  if (rec.step_budget_exceeded) flag("HANG", fired_key, "step budget exceeded");
  if (rec.exited) flag("LIBRARY_EXITED", fired_key, "the library terminated the calling process with status " + std::to_string(rec.exit_code));
  std::string outcome = "loaded";
  if (rec.rc_load != 0) {
    outcome = "load-failed";
    if (rec.api_messages.empty() && !rec.escaped && !rec.exited) flag("SILENT_FAILURE", "load", "AMPLSLoadNLModel returned " + std::to_string(rec.rc_load) + " and AMPLSGetMessages() is empty");
    if (label == "LINEAR_CLEAN" && !any_fired) flag("STRICT_FAILED", "load", "clean linear model, valid options, no fault: AMPLSLoadNLModel failed: " + (rec.api_messages.empty() ? std::string() : rec.api_messages[0].substr(0, 300)));
  } else {
    std::map<std::string, std::string> prev;
    std::map<std::string, long> writer;      // file -> solve code of the round that wrote it last
    auto st = rec.files_before.find("stub.sol"); if (st != rec.files_before.end()) prev["stub.sol"] = st->second;
    size_t i = 0;
    for (auto& rd : rec.rounds) {
      const sim::Json& spec = sc["session"]["rounds"][i];
      std::string target = spec["solfile"].is_null() ? "stub.sol" : spec["solfile"].as_str().substr(2);
      std::string rk = (spec["solfile"].is_null() ? "std" : "named") + std::string("/") + fired_key;
      if (!rd.solve_exc.empty()) { r.stats.set("session_solve_threw", 1); prev = rd.sol_files; ++i; continue; }
      auto it = rd.sol_files.find(target);
      auto pt = prev.find(target);
      const bool firm = sc["session"]["sol_firm"].as_bool();
      bool rewritten = it != rd.sol_files.end() && (pt == prev.end() || pt->second != it->second);
      if (rd.rc_report == 0) {
        if (it == rd.sol_files.end()) { if (firm) flag("NO_SOL", rk, "round " + std::to_string(i) + ": AMPLSReportResults returned 0 but " + target + " does not exist"); }
        else if (firm && !rewritten && writer.count(target) && writer[target] != spec["script"]["status"].as_int() && !any_fired)
          flag("NO_SOL", rk, "round " + std::to_string(i) + ": AMPLSReportResults returned 0 but " + target + " still holds what it held before");
      } else if (rec.api_messages.empty() && !rec.escaped) flag("SILENT_FAILURE", "report", "AMPLSReportResults returned " + std::to_string(rd.rc_report) + " and AMPLSGetMessages() is empty");
      if (it != rd.sol_files.end() && rewritten) {
        oracle::SolFile sf = oracle::parse_sol(it->second);
        if (!sf.ok) flag("TRUNCATED_SOL", rk, "round " + std::to_string(i) + ": " + target + " (" + std::to_string(it->second.size()) + " bytes) does not parse: " + sf.error + "; report returned " + std::to_string(rd.rc_report));
        else if ((sf.ncons != ncons || sf.nvars != nvars || (sf.nduals != 0 && sf.nduals != ncons) || (sf.nprimals != 0 && sf.nprimals != nvars)) && label != "MALFORMED")
          flag("WRONG_DIMS", rk, "round " + std::to_string(i) + ": NL header has " + std::to_string(ncons) + " cons / " + std::to_string(nvars) + " vars; " + target + " says " +
               std::to_string(sf.ncons) + " " + std::to_string(sf.nduals) + " " + std::to_string(sf.nvars) + " " + std::to_string(sf.nprimals));
        else if (label == "LINEAR_CLEAN" && !any_fired && sf.code != spec["script"]["status"].as_int())
          flag("STRICT_FAILED", "code", "round " + std::to_string(i) + ": clean linear model: the solver's code " + std::to_string(spec["script"]["status"].as_int()) + " became " + std::to_string(sf.code));
      }
      for (auto& kv : prev) if (kv.first != target) { auto jt = rd.sol_files.find(kv.first); if (jt == rd.sol_files.end() || jt->second != kv.second) flag("OTHER_FILE_TOUCHED", rk, "round " + std::to_string(i) + " reported to " + target + " but " + kv.first + " changed"); }
      for (auto& kv : rd.sol_files) if (kv.first != target && !prev.count(kv.first) && kv.first.compare(0, 6, "interm") != 0 && kv.first != "nat.sol") flag("OTHER_FILE_TOUCHED", rk, "round " + std::to_string(i) + " reported to " + target + " but " + kv.first + " appeared");
      if (rewritten || !writer.count(target)) writer[target] = spec["script"]["status"].as_int();
      prev = rd.sol_files;
      ++i;
    }
    if (rec.rounds.size() != sc["session"]["rounds"].size() && !rec.escaped && !rec.exited && !rec.step_budget_exceeded) flag("SESSION_INCOMPLETE", "rounds", "only " + std::to_string(rec.rounds.size()) + " rounds ran");
  }
  r.nontrivial = true;
  r.stats.set("label." + label, 1);
  r.stats.set("session_runs", 1); r.stats.set("session_rounds", (long)rec.rounds.size());
  r.stats.set("outcome.session-" + outcome, 1);
  uint64_t t = r.trace_sig;
  t = sim::fnv1a(std::string("session") + label + outcome + std::to_string(rec.rounds.size()), t);
  t = sim::fnv1a(sc["expect"]["features"].as_str(), t);
  r.trace_sig = t;
  if (!viol.empty()) { r.verdict = viol; r.sig = "C09:" + viol + ":" + key; r.detail = detail; }
}

void judge(const sim::Json& sc, const RunRecord& rec, sim::RunResult& r) {
  if (sc.has("session")) { judge_session(sc, rec, r); return; }
  std::string viol, key, detail;
  auto flag = [&](const std::string& v, const std::string& k, const std::string& d) { if (viol.empty()) { viol = v; key = k; detail = d; } };
  std::string label = sc["label"].as_str();
  bool faulted = sc["faulted"].as_bool();
  int wantsol = (int)sc["wantsol"].as_int();
  bool ampl = sc["ampl"].as_bool();
  bool expect_sol = ampl || (wantsol & 1);
  // -AMPL and -s are switches parsed before anything else; a wantsol=k *option* may never be reached
  // when an earlier source fails, so only the switches make the expectation firm
  bool firm = ampl;
  for (auto& a : sc["argv"].arr()) if (a.as_str() == "-s") firm = true;
  long nvars = sc["expect"]["nvars"].as_int(), ncons = sc["expect"]["ncons"].as_int();
  bool solve_called = false;
  for (auto& c : rec.stub.calls) if (c == "Solve") solve_called = true;
  const bool visitor = sc["driver"].as_str() == "visitor";   // no stub record: whether its solver ran is read off the result class below
  std::string fired_key = "nofault";
  for (auto& f : rec.faults) if (f.fired) { fired_key = f.role + "." + f.op + "." + f.kind; break; }
  for (auto& f : rec.faults) if (f.fired && f.role == "sol") { fired_key = f.role + "." + f.op + "." + f.kind; break; }

  if (rec.escaped) flag("ESCAPED_EXCEPTION", cause_of(rec.escaped_what), rec.escaped_what);
  if (rec.step_budget_exceeded) flag("HANG", fired_key, "step budget exceeded");

  auto before = rec.files_before.find("stub.sol");
  auto after = rec.files_after.find("stub.sol");
  bool stale_left = before != rec.files_before.end() && after != rec.files_after.end() && before->second == after->second;
  bool sol_written = after != rec.files_after.end() && !stale_left;
  std::string outcome, spurious_unsup;
  oracle::SolFile sf;
  if (sol_written) {
    sf = oracle::parse_sol(after->second);
    if (!sf.ok) {
      flag("TRUNCATED_SOL", fired_key, "stub.sol (" + std::to_string(after->second.size()) + " bytes) does not parse: " + sf.error + "; exit status " + std::to_string(rec.exit_status()) + "; stderr: " + rec.err.substr(0, 200));
      outcome = "bad-sol";
    } else {
      if (sf.ncons != ncons || sf.nvars != nvars || (sf.nduals != 0 && sf.nduals != ncons) || (sf.nprimals != 0 && sf.nprimals != nvars)) {
        // a damaged NL header legitimately changes the dimensions the driver sees
        if (label != "MALFORMED")
          flag("WRONG_DIMS", fired_key, "NL header has " + std::to_string(ncons) + " cons / " + std::to_string(nvars) + " vars; .sol counts line says " +
               std::to_string(sf.ncons) + " " + std::to_string(sf.nduals) + " " + std::to_string(sf.nvars) + " " + std::to_string(sf.nprimals));
      }
      std::string msg = sf.message_text();
      if (visitor) solve_called = !((sf.code >= 200 && sf.code <= 299) || (sf.code >= 500 && sf.code <= 999));
      if (!solve_called) {
        bool ok_class = (sf.code >= 200 && sf.code <= 299) || (sf.code >= 500 && sf.code <= 999);
        if (!ok_class)
          flag("WRONG_CODE_CLASS", cause_of(msg), "the solver was never run, the .sol reports the failure '" + msg.substr(0, 300) + "' with solve code " + std::to_string(sf.code) + " (expected 200-299 or 500-999)");
        // "proven infeasible during conversion ... with a solve-result code of the matching class (200-299 infeasible)":
        // when the diagnosis itself says the model is infeasible the code must be of the infeasible class
        if (ok_class && msg.find("Model infeasible") != std::string::npos && !(sf.code >= 200 && sf.code <= 299))
          flag("INFEASIBLE_REPORTED_AS_FAILURE", "conversion", "the .sol diagnoses '" + msg.substr(0, 300) + "' but carries solve code " + std::to_string(sf.code) + " (expected 200-299)");
        if (msg.find("Model infeasible") != std::string::npos) r.stats.set("probe.infeasible_by_conversion", 1);
        // "uses a construct the converter does not support": the diagnosis must be true.  The generator knows which models use
        // one (functions, atan2, round, !alldiff, ...); with every constraint type accepted natively or convertible, a model
        // without any must not be refused as 'not implemented'
        if (ok_class && !sc["expect"]["unsupported"].as_bool() && label != "MALFORMED" && !visitor &&
            (msg.find("not implemented") != std::string::npos || msg.find("nsupported") != std::string::npos)) {
          r.stats.set("probe.refused_as_unsupported_without_unsupported_construct", 1);
          spurious_unsup = msg.substr(0, 300);
        }
        outcome = "B1";
      } else {
        outcome = "A";
      }
      if (msg.find_first_not_of(" \b\n") == std::string::npos) flag("EMPTY_MESSAGE", fired_key, "the .sol message is empty");
    }
  } else {
    outcome = expect_sol ? "B2" : "no-sol-wanted";
    if (expect_sol) {
      if (rec.err.empty() && rec.out.find_first_not_of(" \b\n") == std::string::npos)
        flag("SILENT_FAILURE", fired_key, "no .sol file and nothing on stderr/stdout; exit status " + std::to_string(rec.exit_status()));
      else if (rec.exit_status() == 0 && firm)
        flag("FAILURE_EXIT_ZERO", fired_key + ":" + cause_of(rec.err + rec.out), "no .sol file could be written but the exit status is 0; stderr: " + rec.err.substr(0, 300) + " stdout: " + rec.out.substr(0, 200));
    }
  }
  // other .sol files (intermediate solutions) must be well formed too
  for (auto& kv : rec.files_after) {
    if (kv.first == "stub.sol" || kv.first.size() < 4 || kv.first.compare(kv.first.size() - 4, 4, ".sol") != 0) continue;
    if (kv.first == "nat.sol") continue;
    oracle::SolFile g = oracle::parse_sol(kv.second);
    if (!g.ok) flag("TRUNCATED_INTERM_SOL", fired_key, kv.first + " does not parse: " + g.error);
    else if ((g.nvars != nvars || g.ncons != ncons) && label != "MALFORMED") flag("WRONG_DIMS_INTERM", fired_key, kv.first + " has wrong dimensions");
  }
  // the one strict label: nothing in the scenario can make the run fail
  if (label == "LINEAR_CLEAN" && !faulted) {
    long status = sc["script"]["status"].as_int();
    if (expect_sol && !(outcome == "A" && sf.ok && sf.code == status))
      flag("STRICT_FAILED", outcome, "clean linear model, valid options, no fault: expected a .sol with the solver's code " + std::to_string(status) +
           ", got outcome " + outcome + (sf.ok ? " code " + std::to_string(sf.code) : "") + "; message: " + (sf.ok ? sf.message_text().substr(0, 300) : rec.err.substr(0, 300)));
    if (!expect_sol && !solve_called)
      flag("STRICT_FAILED", "no-solve", "clean linear model without -AMPL: solver not run; stdout: " + rec.out.substr(0, 300));
  }
  r.nontrivial = faulted || label != "LINEAR_CLEAN" || !rec.fired.empty();
  r.stats.set("label." + label, 1);
  if (visitor) r.stats.set("driver.visitor", 1);
  r.stats.set("outcome." + outcome, 1);
  r.stats.set("cell." + label + "." + outcome, 1);
  if (stale_left) r.stats.set("stale_sol_left_in_place", 1);
  if (solve_called) r.stats.set("solver_ran", 1);
  if (!rec.stub.cons.empty() || !rec.stub.vars.empty()) r.stats.set("model_delivered", 1);
  uint64_t t = r.trace_sig;
  t = sim::fnv1a(label, t); t = sim::fnv1a(outcome, t);
  std::string c = sf.ok ? cause_of(sf.message_text()) : cause_of(rec.err);
  t = sim::fnv1a(c, t);
  long code = sf.ok ? sf.code : -999;
  t = sim::fnv1a(&code, sizeof code, t);
  std::string feat = sc["expect"]["features"].as_str();
  t = sim::fnv1a(feat, t);
  r.trace_sig = t;
  if (!viol.empty()) { r.verdict = viol; r.sig = "C09:" + viol + ":" + key; r.detail = detail; }
}

// A write fault that the run survives (exit status 0, the solver's own code in the .sol) must have left the
// complete file: it is compared byte for byte with the file the same scenario writes without its .sol faults.
// (A hole in the free text of the message keeps the file well-formed, so parsing alone cannot see it.)
sim::RunResult run(const sim::Json& sc) {
  sim::RunResult r;
  if (sc.has("session")) {
    RunRecord srec = run_ampls_session(sc);
    fill_result(srec, r);
    judge(sc, srec, r);
    if (::getenv("VERIF_DUMP")) dump_record(srec);
    return r;
  }
  RunRecord rec = run_driver(sc);
  fill_result(rec, r);
  judge(sc, rec, r);
  if (::getenv("VERIF_DUMP")) dump_record(rec);
  bool sol_write_fault = false; std::string fk;
  for (auto& f : rec.faults) if (f.fired && f.role == "sol" && (f.op == "fwrite" || f.op == "fclose")) { sol_write_fault = true; fk = f.role + "." + f.op + "." + f.kind; break; }
  auto it = rec.files_after.find("stub.sol");
  if (r.verdict == "OK" && sol_write_fault && it != rec.files_after.end() && rec.exit_status() == 0 && !rec.step_budget_exceeded) {
    sim::Json twin = sc;
    sim::Json keep = sim::Json::array();
    // only the write / close faults are taken away: a failing fopen (of this or of an intermediate .sol) changes what the
    // run has to report, and must do so in the twin as well
    for (auto& fj : sc["faults"].arr()) if (!(fj["role"].as_str() == "sol" && (fj["op"].as_str() == "fwrite" || fj["op"].as_str() == "fclose"))) keep.push(fj);
    twin.set("faults", keep);
    RunRecord ref = run_driver(twin);
    auto jt = ref.files_after.find("stub.sol");
    r.stats.set("probe.survived_sol_write_fault_compared", 1);
    // an error report written instead (other solve code, 'cannot write ...') is a diagnosed failure, not a hole
    oracle::SolFile sa = oracle::parse_sol(it->second), sb = jt != ref.files_after.end() ? oracle::parse_sol(jt->second) : oracle::SolFile();
    const std::string am = sa.ok ? sa.message_text() : std::string();
    const bool diagnosed = am.find("cannot write file") != std::string::npos || am.find("cannot close file") != std::string::npos || am.find("cannot open file") != std::string::npos;
    if (jt != ref.files_after.end() && ref.exit_status() == 0 && sa.ok && sb.ok && sa.code == sb.code && !diagnosed && jt->second != it->second) {
      size_t d = 0; while (d < jt->second.size() && d < it->second.size() && jt->second[d] == it->second[d]) ++d;
      r.verdict = "TRUNCATED_SOL"; r.sig = "C09:TRUNCATED_SOL:hole:" + fk;
      r.detail = "a write error (" + fk + ") occurred while the .sol was written, the run ended with exit status 0, and the file (" + std::to_string(it->second.size()) +
                 " bytes) differs from the one written without the fault (" + std::to_string(jt->second.size()) + " bytes) from byte " + std::to_string(d) + " on";
    }
  }
  return r;
}

Property prop = {"C09", generate, nullptr, judge, run};
DRVSIM_REGISTER(prop);

}  // namespace
}  // namespace drvsim
