// C10 — solve-result codes are classified and reported as documented.
// The solver stub answers every code in [-200, 999] x presence patterns x invocation mode;
// the oracle is a table transcribed from doc/source/features-guide.rst.
#include "common.h"
#include "harness.h"
#include "../oracle/solparse.h"

namespace drvsim {
namespace {

struct Range { int lo, hi; const char* name; };
const Range kRanges[] = {
  {0, 99, "0-99"}, {100, 199, "100-199"}, {200, 299, "200-299"}, {300, 349, "300-349"}, {350, 399, "350-399"},
  {400, 449, "400-449"}, {450, 469, "450-469"}, {470, 499, "470-499"}, {500, 999, "500-999"}};

std::string range_key(int c) {
  for (auto& r : kRanges)
    if (c >= r.lo && c <= r.hi)
      return std::string(r.name) + (c == r.lo ? "@first" : c == r.hi ? "@last" : "");
  return "negative";
}
bool in(int c, int lo, int hi) { return c >= lo && c <= hi; }

const int kCodes = 1200;      // -200 .. 999
const int kPatterns = 8;      // primal x dual x objective value
const int kModes = 2;         // -AMPL / wantsol=1

const int kAbortCodes = 1000; // 0 .. 999 reported through StdBackend::Abort(code, msg)
const int kAbortSites = 2;    // from Solve() / from ReportResults()
const int kChkFail = 8;       // sol:chk:fail: documented result 150 when the solution check fails

const int kRound = 7;         // mip:round=1..7 on the MIP model with a non-integral answer: rounding options must not touch the code

const int kTable = 16;   // the -! table: 2 command lines x 8 sets of driver-specific result registrations
const int kChkAll = 1000;  // sol:chk:fail with a violating answer under every code 0..999
const int kRepFailSites = 6; // every code x a solver query failing while the results are collected (IIS finder, rays, basis, sensitivity)
const char* kRepFailWhere[kRepFailSites] = {"ComputeIIS", "GetIIS", "Ray", "DRay", "GetBasis", "GetSensRangesPresolved"};
const int kCvtInfeas = 4;   // models the converter itself proves infeasible (while propagating a result): the documented class 200-299, both invocation modes
const int kPool = 1200;     // every code with a solution pool (sol:stub, two alternative solutions written after the status is known)
const int kSession = 200;  // one solver instance, several solve + report rounds through the AMPLS C API (standard / named .sol files)
uint64_t enumerated(const std::string&) {
  return (uint64_t)kCodes * kPatterns * kModes + kTable + (uint64_t)kAbortCodes * kAbortSites * kModes + kChkFail + (uint64_t)kCodes * kRound + kChkAll + kSession + (uint64_t)kCodes * kRepFailSites + kPool + kCvtInfeas;
}

sim::Json generate(const std::string& tier, uint64_t seed, uint64_t index) {
  (void)tier; (void)seed;
  uint64_t n = (uint64_t)kCodes * kPatterns * kModes;
  const uint64_t nab = (uint64_t)kAbortCodes * kAbortSites * kModes;
  const uint64_t old_total = n + kTable + nab + kChkFail + (uint64_t)kCodes * kRound;
  if (index >= old_total + kChkAll + kSession + (uint64_t)kCodes * kRepFailSites + kPool + kCvtInfeas) return sim::Json();   // finite space, enumerated completely
  if (index >= old_total + kChkAll + kSession + (uint64_t)kCodes * kRepFailSites + kPool) {
    int k = (int)(index - (old_total + kChkAll + kSession + (uint64_t)kCodes * kRepFailSites + kPool));
    // (x <= 3) && !(x <= 3), optionally one level deeper: (...) && (x >= 0), with x in [0, 5]
    std::string body = "o21\no23\nv0\nn3\no34\no23\nv0\nn3\n";
    if (k & 2) body = "o21\n" + body + "o28\nv0\nn0\n";
    std::string nl = "g3 1 1 0\t# problem infeasp\n 1 0 1 0 0 1\t# vars, constraints, objectives, ranges, eqns, lcons\n 0 0\t# nonlinear constraints, objectives\n 0 0\t# network constraints: nonlinear, linear\n"
                     " 1 0 0\t# nonlinear vars in constraints, objectives, both\n 0 0 0 1\t# linear network variables; functions; arith, flags\n 0 0 0 0 0\t# discrete variables: binary, integer, nonlinear (b,c,o)\n"
                     " 0 1\t# nonzeros in Jacobian, gradients\n 0 0\t# max name lengths: constraints, variables\n 0 0 0 0 0\t# common exprs: b,c,o,c1,o1\n"
                     "L0\n" + body + "O0 0\nn0\nb\n0 0 5\nk0\nG0 1\n0 1\n";
    sim::Json sc = base_scenario(nl, (k & 1) == 0);
    if (k & 1) sc.ref("argv").push("wantsol=1");
    sim::Json& s = sc.ref("script");
    s.set("status", 0); s.set("status_msg", "status-msg-for-code"); s.set("primal", "full"); s.set("dual", "none"); s.set("objvals", 1); s.set("solve_iters", 1);
    sc.set("cvtinfeas", true); sc.set("code", 200); sc.set("mode", k & 1);
    return sc;
  }
  if (index >= old_total + kChkAll + kSession + (uint64_t)kCodes * kRepFailSites) {
    int c = (int)(index - (old_total + kChkAll + kSession + (uint64_t)kCodes * kRepFailSites)) - 200;
    sim::Json sc = base_scenario(tiny_mip_nl(), true);
    sc.ref("argv").push("sol:stub=@/pool"); sc.ref("argv").push("sol:chk:mode=0");
    sim::Json& s = sc.ref("script");
    s.set("status", c); s.set("status_msg", "status-msg-for-code");
    s.set("primal", "full"); s.set("dual", "none"); s.set("objvals", 1); s.set("solve_iters", 1);
    s.set("n_interm", 2); s.set("interm_after_status", 1);
    sc.set("pool", true); sc.set("code", c); sc.set("mode", 0);
    return sc;
  }
  if (index >= old_total + kChkAll + kSession) {
    // the solver's own IIS / ray / basis / sensitivity routine fails (they do, e.g. "cannot compute IIS on a feasible model"):
    // a lost suffix is a warning, the code the backend reported is still the code of the .sol
    uint64_t k = index - (old_total + kChkAll + kSession);
    int c = (int)(k % kCodes) - 200; int site = (int)(k / kCodes);
    sim::Json sc = base_scenario((c & 1) ? tiny_mip_nl() : tiny_lp_nl(), true);
    for (const char* o : {"alg:rays=3", "alg:iisfind=1", "alg:sens=1", "alg:basis=3", "mip:basis=1", "sol:chk:mode=0"}) sc.ref("argv").push(o);
    sim::Json& s = sc.ref("script");
    s.set("status", c); s.set("status_msg", "status-msg-for-code");
    s.set("primal", "full"); s.set("dual", "full"); s.set("objvals", 1); s.set("solve_iters", 1);
    sim::Json t = sim::Json::object();
    t.set("where", kRepFailWhere[site]); t.set("kind", (c & 2) ? "runtime" : "mp");
    s.set("throw", t);
    sc.set("repfail", true); sc.set("code", c); sc.set("site", site); sc.set("mode", 0);
    return sc;
  }
  if (index >= old_total + kChkAll) {            // AMPLS-API sessions
    uint64_t k = index - (old_total + kChkAll);
    sim::Rng rng(12345, "C10session", k);
    sim::Json sc = base_scenario(tiny_lp_nl(), true);
    sim::Json ses = sim::Json::object();
    sim::Json lo = sim::Json::array(); lo.push("sol:chk:mode=0"); ses.set("load_options", lo);
    ses.set("api_options", sim::Json::array());
    sim::Json rounds = sim::Json::array();
    int nr = (int)rng.range(2, 5);
    static const int codes[] = {0, 3, 100, 200, 301, 320, 400, 421, 450, 480, 500, 550, 999};
    for (int i = 0; i < nr; ++i) {
      sim::Json rd = sim::Json::object();
      sim::Json sct = sim::Json::object();
      sct.set("status", codes[rng.below(13)]); sct.set("status_msg", "status-msg-round-" + std::to_string(i));
      sct.set("primal", "full"); sct.set("dual", "full"); sct.set("objvals", 1); sct.set("solve_iters", 1);
      rd.set("script", sct);
      int w = (int)rng.below(4);
      if (w == 0) rd.set("solfile", "@/named_a.sol"); else if (w == 1) rd.set("solfile", "@/named_b.sol"); else rd.set("solfile", sim::Json());
      rounds.push(rd);
    }
    // a third of the sessions run with sol:chk:fail and a violating answer: wherever the code announces a solution candidate the
    // report step ends in the documented coded error 150 (the C API returns non-zero; whatever .sol it leaves carries that code)
    if (rng.chance(0.35)) {
      sim::Json lo2 = sim::Json::array(); lo2.push("sol:chk:fail"); ses.set("load_options", lo2);
      for (size_t i = 0; i < rounds.size(); ++i) rounds.arr()[i].ref("script").set("dual", "none");
      ses.set("chkfail", true);
    }
    ses.set("rounds", rounds);
    sc.set("session", ses);
    sc.set("code", 0); sc.set("mode", 0);
    return sc;
  }
  if (index >= old_total) {                      // sol:chk:fail under every code, violating answer
    int c = (int)(index - old_total);
    sim::Json sc = base_scenario((c & 1) ? tiny_mip_nl() : tiny_lp_nl(), true);
    sc.ref("argv").push("sol:chk:fail");
    sim::Json& s = sc.ref("script");
    s.set("status", c); s.set("status_msg", "status-msg-for-code");
    s.set("primal", "full"); s.set("dual", "none"); s.set("objvals", 1); s.set("solve_iters", 1);
    sc.set("chkall", true); sc.set("code", c); sc.set("mode", 0);
    return sc;
  }
  if (index >= n + kTable + nab + kChkFail) {    // every code under every mip:round value
    uint64_t k = index - (n + kTable + nab + kChkFail);
    int c = (int)(k % kCodes) - 200; int rnd = 1 + (int)(k / kCodes);
    sim::Json sc = base_scenario(tiny_mip_nl(), true);
    sc.ref("argv").push("alg:rays=3"); sc.ref("argv").push("alg:iisfind=1"); sc.ref("argv").push("alg:kappa=2"); sc.ref("argv").push("sol:chk:mode=0");
    sc.ref("argv").push("mip:round=" + std::to_string(rnd));
    sim::Json& s = sc.ref("script");
    s.set("status", c); s.set("status_msg", "status-msg-for-code");
    s.set("primal", "full"); s.set("dual", "full"); s.set("objvals", 1); s.set("solve_iters", 1);
    sc.set("code", c); sc.set("pattern", 7); sc.set("mode", 0); sc.set("round", rnd);
    return sc;
  }
  if (index >= n + kTable + nab) {               // sol:chk:fail -> solve result 150 (documented with the option and in -!)
    uint64_t k = index - (n + kTable + nab);
    bool mip = k & 1; int mode = (k >> 1) & 1; bool violating = (k >> 2) & 1;
    sim::Json sc = base_scenario(mip ? tiny_mip_nl() : tiny_lp_nl(), mode == 0);
    if (mode == 1) sc.ref("argv").push("wantsol=1");
    sc.ref("argv").push(k & 1 ? "sol:chk:fail" : "chk:fail");
    sim::Json& s = sc.ref("script");
    s.set("status", 0); s.set("status_msg", "status-msg-for-code");
    s.set("primal", violating ? "full" : "ones"); s.set("dual", "none"); s.set("objvals", 0); s.set("solve_iters", 1);
    sc.set("chkfail", true); sc.set("violating", violating); sc.set("mode", mode); sc.set("code", violating ? 150 : 0);
    return sc;
  }
  if (index >= n + kTable) {                // codes reported through Abort(code, msg)
    uint64_t k = index - (n + kTable);
    int c = (int)(k % kAbortCodes); k /= kAbortCodes;
    int site = (int)(k % kAbortSites); k /= kAbortSites;
    int mode = (int)k;
    sim::Json sc = base_scenario((c & 1) ? tiny_mip_nl() : tiny_lp_nl(), mode == 0);
    if (mode == 1) sc.ref("argv").push("wantsol=1");
    sim::Json& s = sc.ref("script");
    s.set("status", 0); s.set("solve_iters", 1);
    sim::Json t = sim::Json::object();
    t.set("where", site == 0 ? "Solve" : "ReportResults"); t.set("kind", "abort"); t.set("code", c);
    s.set("throw", t);
    sc.set("abort", true); sc.set("code", c); sc.set("mode", mode); sc.set("site", site);
    return sc;
  }
  if (index >= n) {                         // the -! table
    sim::Json sc = base_scenario(tiny_lp_nl(), false);
    sim::Json argv = sim::Json::array();
    argv.push("simdrv"); argv.push("-!");
    if ((index - n) & 1) argv.push("@/stub");
    sc.set("argv", argv);
    sc.set("table", true);
    // driver-specific registrations on top of the documented ranges: new single codes, a new sub-range, a re-described code;
    // with and without permission to replace
    int variant = (int)((index - n) / 2);
    sim::Json xr = sim::Json::array();
    auto add = [&](int a, int b, const char* d) { sim::Json e = sim::Json::array(); e.push(a); e.push(b); e.push(d); xr.push(e); };
    if (variant == 1 || variant == 2) { add(422, 422, "extra-limit-422"); add(491, 491, "extra-nosol-491"); add(202, 202, "extra-infeas-202"); add(77, 77, "extra-solved-77"); }
    if (variant == 3) { add(501, 501, "redescribed-501"); add(333, 333, "extra-unbounded-333"); }
    if (variant == 4 || variant == 5) { add(560, 569, "extra-range-560"); add(120, 129, "extra-range-120"); }
    // a driver describing the standard codes it returns: the first code of each class; sub-ranges that begin where a class begins
    if (variant == 6) { add(0, 0, "extra-first-0"); add(200, 200, "extra-first-200"); add(300, 300, "extra-first-300"); add(400, 400, "extra-first-400"); add(470, 470, "extra-first-470"); add(500, 500, "extra-first-500"); }
    if (variant == 7) { add(400, 419, "extra-range-400"); add(470, 489, "extra-range-470"); add(500, 599, "extra-range-500"); add(100, 149, "extra-range-100"); add(100, 100, "extra-first-100"); }
    sc.ref("script").set("extra_results", xr);
    sc.ref("script").set("extra_replace", variant == 2 || variant == 3 || variant == 4);
    sc.set("variant", variant);
    return sc;
  }
  int c = (int)(index % kCodes) - 200; index /= kCodes;
  int pat = (int)(index % kPatterns); index /= kPatterns;
  int mode = (int)index;
  bool mip = (c & 1) != 0;
  sim::Json sc = base_scenario(mip ? tiny_mip_nl() : tiny_lp_nl(), mode == 0);
  if (mode == 1) sc.ref("argv").push("wantsol=1");
  sc.ref("argv").push("alg:rays=3");
  sc.ref("argv").push("alg:iisfind=1");
  sc.ref("argv").push("alg:kappa=2");
  sc.ref("argv").push("sol:chk:mode=0");
  sim::Json& s = sc.ref("script");
  s.set("status", c);
  s.set("status_msg", "status-msg-for-code");
  s.set("primal", (pat & 1) ? "full" : "none");
  s.set("dual", (pat & 2) ? "full" : "none");
  s.set("objvals", (pat & 4) ? 1 : 0);
  s.set("solve_iters", 1);
  sc.set("code", c); sc.set("pattern", pat); sc.set("mode", mode);
  return sc;
}

bool called(const RunRecord& rec, const char* what) {
  for (auto& c : rec.stub.calls) if (c == what) return true;
  return false;
}

void judge(const sim::Json& sc, const RunRecord& rec, sim::RunResult& r) {
  std::string viol, key, detail;
  auto flag = [&](const std::string& v, const std::string& k, const std::string& d) { if (viol.empty()) { viol = v; key = k; detail = d; } };
  r.nontrivial = true;
  if (rec.escaped) flag("ESCAPED_EXCEPTION", "run", rec.escaped_what);
  if (sc.has("session")) {
    // every round: the file the report was directed to carries the code and status text of that round; the others are untouched
    std::map<std::string, std::string> prev;
    size_t i = 0;
    for (auto& rd : rec.rounds) {
      const sim::Json& spec = sc["session"]["rounds"][i];
      std::string target = spec["solfile"].is_null() ? "stub.sol" : spec["solfile"].as_str().substr(2);
      int c = (int)spec["script"]["status"].as_int();
      std::string rk = range_key(c) + "/session";
      const bool chkfail = sc["session"]["chkfail"].as_bool();
      if (chkfail) { rk += "/chkfail"; r.stats.set("session_chkfail_rounds", r.stats["session_chkfail_rounds"].as_int(0) + 1); }
      const bool cand = in(c, 0, 99) || in(c, 100, 199) || in(c, 300, 349) || in(c, 400, 449);
      const int c_in = c;
      if (chkfail && cand) c = 150;
      auto it = rd.sol_files.find(target);
      if (rec.rc_load != 0) { flag("SESSION_LOAD_FAILED", "load", "AMPLSLoadNLModel returned " + std::to_string(rec.rc_load)); break; }
      if (chkfail && rd.rc_report != 0) {
        // the step failed and said so: a .sol is not owed; one that is written anyway must carry the code of the error
        r.stats.set("session_report_failed_coded", 1);
        auto pt = prev.find(target);
        bool rewritten = it != rd.sol_files.end() && (pt == prev.end() || pt->second != it->second);
        if (rewritten) {
          oracle::SolFile sf = oracle::parse_sol(it->second);
          if (sf.ok && sf.code != c && sf.code != c_in) flag("CODE_CHANGED", rk, "round " + std::to_string(i) + ": the report step failed with the coded error " + std::to_string(c) + " (sol:chk:fail), " + target + " says " + std::to_string(sf.code));
        }
      }
      else if (it == rd.sol_files.end()) flag("NO_SOL", rk, "round " + std::to_string(i) + ": " + target + " not written");
      else {
        oracle::SolFile sf = oracle::parse_sol(it->second);
        if (!sf.ok) flag("MALFORMED_SOL", rk, "round " + std::to_string(i) + ": " + sf.error);
        else {
          if (sf.code != c) flag("CODE_CHANGED", rk, "round " + std::to_string(i) + ": backend reported " + std::to_string(c) + ", " + target + " says " + std::to_string(sf.code));
          if (!(chkfail && cand) && sf.message_text().find("status-msg-round-" + std::to_string(i)) == std::string::npos) flag("STATUS_MSG_LOST", rk, "round " + std::to_string(i) + ": " + target + " lacks this round's status text: " + sf.message_text().substr(0, 200));
        }
      }
      for (auto& kv : prev) if (kv.first != target) { auto jt = rd.sol_files.find(kv.first); if (jt == rd.sol_files.end() || jt->second != kv.second) flag("OTHER_FILE_TOUCHED", rk, "round " + std::to_string(i) + " reported to " + target + " but " + kv.first + " changed"); }
      prev = rd.sol_files;
      ++i;
    }
    if (rec.rounds.size() != sc["session"]["rounds"].size()) flag("SESSION_INCOMPLETE", "rounds", "only " + std::to_string(rec.rounds.size()) + " rounds ran; " + rec.escaped_what);
    r.stats.set("session_runs", 1); r.stats.set("session_rounds", (long)rec.rounds.size());
    r.trace_sig = sim::fnv1a(std::string("session") + std::to_string(rec.rounds.size()), r.trace_sig);
  } else if (sc["cvtinfeas"].as_bool()) {
    std::string rk = "200-299/converter";
    auto it = rec.files_after.find("stub.sol");
    if (it == rec.files_after.end()) flag("NO_SOL", rk, "no stub.sol written; stderr: " + rec.err.substr(0, 300));
    else {
      oracle::SolFile sf = oracle::parse_sol(it->second);
      if (!sf.ok) flag("MALFORMED_SOL", rk, sf.error);
      else if (!in(sf.code, 200, 299)) flag("CODE_CHANGED", rk, "the converter proved the model infeasible (" + sf.message_text().substr(0, 160) + "): .sol says " + std::to_string(sf.code) + ", documented class 200-299");
      if (sf.ok && sf.message_text().find("; objective ") != std::string::npos) flag("OBJ_SPURIOUS", rk, "objective shown for a model proven infeasible");
    }
    if (called(rec, "Solve")) flag("CODE_CHANGED", rk, "the solver was run on a model the converter proves infeasible");
    r.stats.set("cvtinfeas_runs", 1);
    long k = 777000 + sc["mode"].as_int();
    r.trace_sig = sim::fnv1a(&k, sizeof k, r.trace_sig);
  } else if (sc["pool"].as_bool()) {
    // alternative-solution files carry the code the backend had reported when they were written
    int c = (int)sc["code"].as_int();
    std::string rk = range_key(c) + "/pool";
    int seen = 0;
    for (auto& kv : rec.files_after) {
      if (kv.first.compare(0, 4, "pool") != 0 || kv.first.size() < 8 || kv.first.compare(kv.first.size() - 4, 4, ".sol") != 0) continue;
      ++seen;
      oracle::SolFile sf = oracle::parse_sol(kv.second);
      if (!sf.ok) flag("MALFORMED_SOL", rk, kv.first + ": " + sf.error);
      else if (sf.code != c) flag("CODE_CHANGED", rk, "backend reported " + std::to_string(c) + " and then handed out its pool solutions: " + kv.first + " says " + std::to_string(sf.code));
    }
    auto it = rec.files_after.find("stub.sol");
    if (it == rec.files_after.end()) flag("NO_SOL", rk, "no stub.sol written; stderr: " + rec.err.substr(0, 300));
    else { oracle::SolFile sf = oracle::parse_sol(it->second); if (sf.ok && sf.code != c) flag("CODE_CHANGED", rk, "backend reported " + std::to_string(c) + ", .sol says " + std::to_string(sf.code)); }
    r.stats.set("pool_runs", 1); r.stats.set("pool_files", seen);
    long k = (long)c * 64 + 41 + seen;
    r.trace_sig = sim::fnv1a(&k, sizeof k, r.trace_sig);
  } else if (sc["repfail"].as_bool()) {
    int c = (int)sc["code"].as_int();
    std::string where = kRepFailWhere[sc["site"].as_int()];
    std::string rk = range_key(c) + "/repfail/" + where;
    auto it = rec.files_after.find("stub.sol");
    if (it == rec.files_after.end()) flag("NO_SOL", rk, "no stub.sol written; stderr: " + rec.err.substr(0, 500));
    else {
      oracle::SolFile sf = oracle::parse_sol(it->second);
      if (!sf.ok) flag("MALFORMED_SOL", rk, sf.error);
      else {
        if (sf.code != c) flag("CODE_CHANGED", rk, "backend reported " + std::to_string(c) + ", its " + where + "() failed while results were collected, .sol says " + std::to_string(sf.code) + ": " + sf.message_text().substr(0, 200));
        if (sf.message_text().find("status-msg-for-code") == std::string::npos) flag("STATUS_MSG_LOST", rk, "solve message lacks the backend's status text: " + sf.message_text().substr(0, 200));
      }
    }
    bool reached = false; for (auto& cl : rec.stub.calls) if (cl == where) reached = true;
    r.stats.set("repfail_runs", 1);
    if (reached) r.stats.set("repfail_reached." + where, 1);
    long k = ((long)c * 16 + sc["site"].as_int()) * 4 + 3 + (reached ? 1000000 : 0);
    r.trace_sig = sim::fnv1a(&k, sizeof k, r.trace_sig);
  } else if (sc["chkall"].as_bool()) {
    // sol:chk:fail + a violating answer: 150 wherever the code announces a solution candidate (the check is documented to run
    // on every candidate unless the solver says infeasible); 200-299 unchanged; the other classes either way
    int c = (int)sc["code"].as_int();
    std::string rk = range_key(c) + "/chkall";
    auto it = rec.files_after.find("stub.sol");
    if (it == rec.files_after.end()) flag("NO_SOL", rk, "no stub.sol written; stderr: " + rec.err.substr(0, 500));
    else {
      oracle::SolFile sf = oracle::parse_sol(it->second);
      if (!sf.ok) flag("MALFORMED_SOL", rk, sf.error);
      else {
        bool cand = in(c, 0, 99) || in(c, 100, 199) || in(c, 300, 349) || in(c, 400, 449);
        if (cand && sf.code != 150) flag("CHECK_SKIPPED", rk, "sol:chk:fail, violating answer, code " + std::to_string(c) + " announces a solution candidate: expected solve result 150, .sol says " + std::to_string(sf.code));
        if (in(c, 200, 299) && sf.code != c) flag("CODE_CHANGED", rk, "infeasible code " + std::to_string(c) + " (no check without sol:chk:infeas) became " + std::to_string(sf.code));
        if (sf.code != c && sf.code != 150) flag("CODE_CHANGED", rk, "code " + std::to_string(c) + " became " + std::to_string(sf.code));
      }
    }
    r.stats.set("chkall_runs", 1);
    long k = (long)c * 64 + 33;
    r.trace_sig = sim::fnv1a(&k, sizeof k, r.trace_sig);
  } else if (sc["table"].as_bool()) {
    // -! lists the nine documented ranges with those bounds
    for (auto& rg : kRanges) {
      char buf[32]; snprintf(buf, sizeof buf, "%3d-%3d", rg.lo, rg.hi);
      if (rec.out.find(buf) == std::string::npos)
        flag("TABLE_WRONG", rg.name, std::string("-! output lacks the documented range ") + buf + "\n" + rec.out.substr(0, 1500));
    }
    // and no range line with other bounds
    size_t pos = 0;
    int nrange = 0;
    while (pos < rec.out.size()) {
      size_t e = rec.out.find('\n', pos); if (e == std::string::npos) e = rec.out.size();
      std::string l = rec.out.substr(pos, e - pos); pos = e + 1;
      int a, b;
      if (sscanf(l.c_str(), " %d-%d", &a, &b) == 2 && l.find('-') != std::string::npos && l[0] == '\t') {
        ++nrange;
        bool ok = false;
        for (auto& rg : kRanges) if (rg.lo == a && rg.hi == b) ok = true;
        if (a == 150 && b == 159) ok = true;   // documented sub-range "MP solution check failed"
        for (auto& e : sc["script"]["extra_results"].arr()) if (e[(size_t)0].as_int() == a && e[(size_t)1].as_int() == b) ok = true;   // registered by the driver
        if (!ok) flag("TABLE_WRONG", "extra", "-! lists an undocumented range: " + l);
      }
    }
    // everything the driver registered is listed, under its own code(s)
    for (auto& e : sc["script"]["extra_results"].arr()) {
      std::string d = e[(size_t)2].as_str();
      if (d == "redescribed-501") continue;    // whether a re-registration replaces the text of an existing code is not documented
      size_t p = rec.out.find(d);
      if (p == std::string::npos) { flag("TABLE_WRONG", "registered-missing", "-! does not list the registered result '" + d + "'\n" + rec.out.substr(0, 1500)); continue; }
      size_t ls = rec.out.rfind('\n', p); ls = ls == std::string::npos ? 0 : ls + 1;
      int a = -1, b = -1;
      std::string l = rec.out.substr(ls, p - ls);
      if (sscanf(l.c_str(), " %d-%d", &a, &b) != 2) { sscanf(l.c_str(), " %d", &a); b = a; }
      if (a != e[(size_t)0].as_int() || b != e[(size_t)1].as_int()) flag("TABLE_WRONG", "registered-moved", "registered result '" + d + "' is listed as " + l);
      // ... and under the heading of its documented class: the documented range line printed last before it is the range it lies in
      int ha = -1, hb = -1; size_t q = 0;
      while (q < ls) {
        size_t e2 = rec.out.find('\n', q); if (e2 == std::string::npos || e2 > ls) break;
        std::string hl = rec.out.substr(q, e2 - q); q = e2 + 1;
        int x, y;
        if (sscanf(hl.c_str(), " %d-%d", &x, &y) == 2) for (auto& rg : kRanges) if (rg.lo == x && rg.hi == y) { ha = x; hb = y; }
      }
      if (a >= 0 && !(ha <= a && b <= hb)) flag("TABLE_WRONG", "registered-under-other-class", "registered result '" + d + "' (" + std::to_string(a) + "-" + std::to_string(b) + ") is listed under the heading " + (ha < 0 ? std::string("(none)") : std::to_string(ha) + "-" + std::to_string(hb)) + "\n" + rec.out.substr(0, 1500));
    }
    for (const char* d : {"fatal error 1", "AI iteration limit"}) if (rec.out.find(d) == std::string::npos) flag("TABLE_WRONG", "registered-missing", std::string("-! does not list the driver's result '") + d + "'");
    r.stats.set("table_runs", 1);
    r.trace_sig = sim::fnv1a(std::string("table"), r.trace_sig);
  } else if (sc["abort"].as_bool() || sc["chkfail"].as_bool()) {
    // the code reported through the error path (Abort / the solution checker's documented 150)
    // must be the code of the .sol file; the message must carry the reported text
    int c = (int)sc["code"].as_int();
    bool ab = sc["abort"].as_bool();
    std::string rk = range_key(c) + (ab ? "/abort" : "/chkfail");
    auto it = rec.files_after.find("stub.sol");
    if (it == rec.files_after.end()) flag("NO_SOL", rk, "no stub.sol written; stderr: " + rec.err.substr(0, 500));
    else {
      oracle::SolFile sf = oracle::parse_sol(it->second);
      if (!sf.ok) flag("MALFORMED_SOL", rk, sf.error);
      else if (ab) {
        // code 1 == EXIT_FAILURE is what mp::Error carries when no code was given: it cannot be told apart and is
        // reported as a failure (500); every other code is reported unchanged
        int want = c == 1 ? 500 : c;
        if (sf.code != want) flag("CODE_CHANGED", rk, "backend called Abort(" + std::to_string(c) + ", ...), .sol says " + std::to_string(sf.code));
        if (sf.message_text().find("simulated solver failure") == std::string::npos) flag("STATUS_MSG_LOST", rk, "solve message lacks the text given to Abort(): " + sf.message_text().substr(0, 200));
      } else {
        if (sf.code != c) flag("CODE_CHANGED", rk, std::string("sol:chk:fail with a ") + (c ? "violating" : "feasible") + " solution: expected solve result " + std::to_string(c) + ", .sol says " + std::to_string(sf.code) + "; message: " + sf.message_text().substr(0, 300));
      }
    }
    r.stats.set(ab ? "abort_runs" : "chkfail_runs", 1);
    std::string cls = range_key(c); size_t at = cls.find('@'); if (at != std::string::npos) cls.resize(at);
    r.stats.set("class." + cls, 1);
    long k = ((long)c * 16 + 9 + (ab ? sc["site"].as_int() : 5)) * 2 + sc["mode"].as_int();
    r.trace_sig = sim::fnv1a(&k, sizeof k, r.trace_sig);
  } else {
    int c = (int)sc["code"].as_int();
    int pat = (int)sc["pattern"].as_int();
    bool objgiven = (pat & 4) != 0;
    std::string rk = range_key(c);
    auto it = rec.files_after.find("stub.sol");
    if (it == rec.files_after.end()) flag("NO_SOL", rk, "no stub.sol written; stderr: " + rec.err.substr(0, 500));
    else {
      oracle::SolFile sf = oracle::parse_sol(it->second);
      if (!sf.ok) flag("MALFORMED_SOL", rk, sf.error);
      else {
        if (sf.code != c) flag("CODE_CHANGED", rk, "backend reported " + std::to_string(c) + ", .sol says " + std::to_string(sf.code));
        std::string first = sf.message.empty() ? "" : sf.message[0];
        // the first message line is "<long name>: <status>[; objective <v>]" (possibly preceded by backspaces)
        bool has_obj = sf.message_text().find("; objective ") != std::string::npos;
        bool must = in(c, 0, 99) || in(c, 300, 349) || in(c, 400, 449);
        bool may = in(c, 100, 199);   // "solved?": the documentation does not say
        if (objgiven && must && !has_obj) flag("OBJ_MISSING", rk, "code " + std::to_string(c) + " indicates a solution candidate and an objective value was supplied, message: " + first);
        // (when the backend supplies no objective value the postsolver still produces one per objective,
        //  so "objective 0" may be printed: the statement only speaks about the classes)
        if (has_obj && !(must || may)) flag("OBJ_SPURIOUS", rk, "objective shown for code " + std::to_string(c) + " (objective supplied: " + (objgiven ? "yes" : "no") + "), message: " + first);
        if (sf.message_text().find("status-msg-for-code") == std::string::npos) flag("STATUS_MSG_LOST", rk, "solve message lacks the backend's status text: " + first);
        bool kappa = sf.find_suffix("kappa", 2) || sf.find_suffix("kappa", 3);
        if (in(c, 0, 99) && !kappa) flag("KAPPA_MISSING", rk, "alg:kappa=2 and code " + std::to_string(c) + " (solved) but no .kappa suffix");
        if (kappa && (in(c, 200, 299) || in(c, 500, 999) || c < 0)) flag("KAPPA_SPURIOUS", rk, ".kappa returned for code " + std::to_string(c));
      }
    }
    bool ray = called(rec, "Ray"), dray = called(rec, "DRay"), iis = called(rec, "ComputeIIS");
    bool silent = in(c, 450, 469);                       // documentation silent: accept either way
    if (in(c, 300, 399) && !ray) flag("RAY_MISSING", rk, "alg:rays=3, code " + std::to_string(c) + " (unbounded): primal ray not requested");
    if (ray && !in(c, 300, 399) && !silent) flag("RAY_SPURIOUS", rk, "primal ray requested for code " + std::to_string(c));
    if (in(c, 200, 299) && !dray) flag("DRAY_MISSING", rk, "alg:rays=3, code " + std::to_string(c) + " (infeasible): dual ray not requested");
    if (dray && !in(c, 200, 299) && !silent) flag("DRAY_SPURIOUS", rk, "dual ray requested for code " + std::to_string(c));
    if (in(c, 200, 299) && !iis) flag("IIS_MISSING", rk, "alg:iisfind=1, code " + std::to_string(c) + " (infeasible): IIS not computed");
    if (iis && !in(c, 200, 399) && !silent) flag("IIS_SPURIOUS", rk, "IIS computed for code " + std::to_string(c));
    // non-AMPL mode: the message goes to stdout as well
    if (sc["mode"].as_int() == 1 && rec.out.find("status-msg-for-code") == std::string::npos)
      flag("STDOUT_MSG_MISSING", rk, "wantsol=1 without -AMPL: solve message not printed");
    std::string cls = rk; size_t at = cls.find('@'); if (at != std::string::npos) cls.resize(at);
    r.stats.set("class." + cls, 1);
    r.stats.set(std::string("called.Ray"), ray ? 1 : 0);
    r.stats.set(std::string("called.DRay"), dray ? 1 : 0);
    r.stats.set(std::string("called.ComputeIIS"), iis ? 1 : 0);
    long k = (((long)c * 16 + pat) * 2 + sc["mode"].as_int()) * 8 + sc["round"].as_int(0);
    if (sc.has("round")) r.stats.set("round_runs", 1);
    r.trace_sig = sim::fnv1a(&k, sizeof k, r.trace_sig);
  }
  if (!viol.empty()) { r.verdict = viol; r.sig = "C10:" + viol + ":" + key; r.detail = detail; }
}

Property prop = {"C10", generate, enumerated, judge, nullptr};
DRVSIM_REGISTER(prop);

}  // namespace
}  // namespace drvsim
