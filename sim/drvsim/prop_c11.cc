// C11 — solver option parsing is total, faithful and ordered (optsim mode of drvsim).
// Environment / argv source simulation: option texts are served from exact-size heap copies
// (so ASan sees any read past the terminating NUL); histories of assignments over the three
// sources are compared with a reference map.
#include <algorithm>
#include <climits>
#include <cmath>
#include <cstring>
#include <functional>
#include <map>

#include "mp/backend-base.h"
#include "mp/solver-app-base.h"

#include "harness.h"
#include "scen.h"
#include "simbackend.h"
#include "../core/shim.h"

namespace drvsim {
namespace {

struct OptDef { const char* canon; char type; std::vector<const char*> syn; };   // type: I int, D double, S string, F flag, L list, W wildcard, B 0/1
const std::vector<OptDef>& defs() {
  static const std::vector<OptDef> d = {
    {"tech:intopt", 'I', {"intopt", "int_opt", "ool_intopt", "IntOptCamel"}},
    {"tech:dblopt", 'D', {"dblopt", "dbl_opt", "DBLOPT_up"}},
    {"tech:stropt", 'S', {"stropt", "str_opt", "ool_stropt", "StrOptCamel"}},
    {"tech:flagopt", 'F', {"flagopt", "OOL_FlagOpt"}},
    {"tech:listopt", 'L', {"listopt"}},
    {"wc:*:val", 'W', {"wc_*_val"}},
    {"mip:round", 'I', {"round"}},
    {"mip:round_reptol", 'D', {"round_reptol"}},
    {"alg:lbpen", 'D', {"lbpen"}},
    {"tech:timing", 'B', {"timing"}},
    {"tech:debug", 'B', {"debug"}},
    {"sol:stub", 'S', {"solstub", "solutionstub"}},
  };
  return d;
}
const OptDef* find_def(const std::string& canon) { for (auto& d : defs()) if (canon == d.canon) return &d; return nullptr; }

std::string rand_case(sim::Rng& rng, std::string s) { for (auto& ch : s) if (rng.chance(0.3)) ch = (char)toupper((unsigned char)ch); return s; }

std::string fmt_g(double v) { char b[40]; snprintf(b, sizeof b, "%.17g", v); return b; }
std::string dbl_hex_str(double v) { return sim::dbl_hex(v); }

// one token of a source
sim::Json make_token(sim::Rng& rng, bool cmdline, bool allow_errors) {
  sim::Json t = sim::Json::object();
  double r = rng.real();
  if (allow_errors && r < 0.05) {              // unknown option
    std::string name = std::string(rng.chance(0.5) ? "nosuch" : "tech:nosuch") + std::to_string(rng.below(9));
    if (rng.chance(0.5)) {   // near misses of registered names: one character short / long, a wildcard name without its key, a bare prefix
      static const char* near[] = {"tech:intop", "tech:intoptt", "ntopt", "tech:", "tech", "wc:val", "wc_val", "WC:VAL", "wc:", ":val", "wc",
                                   "mip:roun", "round_", "sol:stu", "solstu", "tech:flagop", "flagoptx", "lbpe", "alg:lbpenn", "wc:1", "1:val", "wc_1_va", "c:1:val"};
      name = near[rng.below(sizeof near / sizeof *near)];
    }
    if (rng.chance(0.12)) {  // names with braces (the tokeniser stops at blanks and '=' only: these are legal name bytes, and messages quote them)
      static const char* br[] = {"no{}such", "x}", "{0}", "{", "tech:{threads}", "lim:{time", "set{1}", "{{a}}", "a{:d}b", "%s%n"};
      name = br[rng.below(sizeof br / sizeof *br)];
    }
    if (rng.chance(0.25)) {  // a registered name with one foreign byte (non-ASCII, control) before, after or inside it; a name made of such bytes only
      static const char* junk[] = {"\xff", "\x80", "\xc3\xa9", "\x01", "\x1f", "\x7f", "\xa0", "\xe2\x80\x8b"};
      const OptDef& d0 = defs()[rng.below(defs().size())];
      std::string base = rng.chance(0.5) ? d0.canon : d0.syn[rng.below(d0.syn.size())];
      if (base.find('*') != std::string::npos) base = "tech:intopt";
      std::string j = junk[rng.below(sizeof junk / sizeof *junk)];
      int where = (int)rng.below(4);
      name = where == 0 ? base + j : where == 1 ? j + base : where == 2 ? base.substr(0, base.size() / 2) + j + base.substr(base.size() / 2) : j + j;
    }
    // the value of an unknown option is its value, whatever it looks like: now and then it reads like an assignment of its own
    static const char* vals[] = {"tech:flagopt", "flagopt", "intopt=7", "tech:intopt=41", "timing=1", "stropt=zzz"};
    t.set("text", name + "=" + (rng.chance(0.2) ? std::string(vals[rng.below(6)]) : std::to_string(rng.range(1, 99))));
    t.set("sem", "unknown");
    return t;
  }
  if (allow_errors && r < 0.09) {              // value given to a flag
    static const char* fnames[] = {"tech:flagopt", "flagopt", "tech:flagopt", "flagopt", "OOL_FlagOpt", "ool_flagopt"};    // main name, inline synonym, out-of-line synonym
    t.set("text", std::string(fnames[rng.below(6)]) + "=" + std::to_string(rng.range(0, 3)));
    t.set("sem", "flagval");
    return t;
  }
  const OptDef& d = defs()[rng.below(defs().size())];
  // name: main or a synonym (synonyms in any letter case)
  std::string name = d.canon;
  if (rng.chance(0.55)) name = rand_case(rng, d.syn[rng.below(d.syn.size())]);
  std::string wckey;
  if (d.type == 'W') {
    static const char* keys[] = {"1", "2", "17", "abc"};
    wckey = keys[rng.below(4)];
    size_t p = name.find('*');
    name.replace(p, 1, wckey);
  }
  t.set("opt", d.canon);
  if (!wckey.empty()) t.set("wckey", wckey);
  if (d.type == 'F') { t.set("text", name); t.set("sem", "flag"); return t; }
  if (rng.chance(0.1)) { t.set("text", name + (rng.chance(0.5) ? "=?" : " = ?")); t.set("sem", "query"); return t; }
  std::string vtext;
  switch (d.type) {
    case 'I': case 'W': {
      long v = rng.chance(0.1) ? (rng.chance(0.5) ? INT_MAX : INT_MIN) : rng.range(-1000, 1000);
      if (rng.chance(0.05)) {                  // integer literal outside the option's C++ type
        static const long long big[] = {4294967297LL, 99999999999LL, -4294967295LL, 2147483648LL};
        long long b = big[rng.below(4)];
        vtext = std::to_string(b);
        t.set("sem", "narrow"); t.set("val", (double)b);
        break;
      }
      vtext = (v >= 0 && rng.chance(0.05) ? "+" : "") + std::to_string(v);
      t.set("val", (double)v); t.set("sem", "set");
      break;
    }
    case 'B': { long v = (long)rng.below(2); vtext = std::to_string(v); t.set("val", (double)v); t.set("sem", "set"); break; }
    case 'D': case 'L': {
      static const double pool[] = {0.5, -2.25, 1e-6, 1.5e10, 3, 0, 123456.789, -1e-300, 7.0e22, 0.1};
      double v = pool[rng.below(10)];
      vtext = fmt_g(v);
      if (d.type == 'D' && rng.chance(0.12)) {   // magnitudes outside the normal range of a double: strtod under-/overflows (and sets errno)
        static const char* lit[] = {"1e-400", "4e-320", "1e999", "-1e999", "2.5e-310"};
        vtext = lit[rng.below(5)];
        v = strtod(vtext.c_str(), nullptr);
      }
      if (rng.chance(0.12)) {    // other spellings of a real literal: explicit plus sign, no digit before / after the point, upper-case exponent
        static const struct { const char* text; double val; } forms[] = {{"+1.5", 1.5}, {".5", 0.5}, {"5.", 5.0}, {"1E+5", 1e5}, {"+2.5e-3", 0.0025}, {"-.25", -0.25}, {"+30", 30.0}, {"+.5", 0.5}, {"1e+0", 1.0}, {"-0.0", -0.0}};
        auto& f = forms[rng.below(sizeof forms / sizeof *forms)];
        vtext = f.text; v = f.val;
      }
      t.set("val", v); t.set("sem", "set");
      break;
    }
    case 'S': {
      static const char* plain[] = {"abc", "x.y", "a=b", "file_1.txt", "/p/q", "A-B:C"};
      static const char* spaced[] = {"a b", "x  y z", " lead", "q=r s", "C:\\tmp dir\\", "back\\slash\\", "a\\'b c", "\\"};   // backslashes are ordinary characters, also right before the closing quote
      if (cmdline) {                            // the rest of the argv element, verbatim
        std::string v = rng.chance(0.5) ? plain[rng.below(6)] : spaced[rng.below(4)];
        if (v[0] == ' ') v = v.substr(1);
        vtext = v; t.set("val", v);
      } else if (rng.chance(0.5)) {
        std::string v = plain[rng.below(6)]; vtext = v; t.set("val", v);
      } else {
        std::string v = spaced[rng.below(8)];
        char q = rng.chance(0.5) ? '\'' : '"';
        if (v.find('\'') != std::string::npos) q = '"';
        vtext = std::string(1, q) + v + q; t.set("val", v);
      }
      t.set("sem", "set");
      break;
    }
  }
  static const char* forms[] = {"=", " = ", "= ", " "};
  int f = (int)rng.below(4);
  if (d.type == 'S' && cmdline && f == 3) f = 0;
  t.set("text", name + forms[f] + vtext);
  return t;
}


sim::Json garbage_token(sim::Rng& rng) {
  sim::Json t = sim::Json::object();
  static const char* g[] = {"tech:stropt='unterminated", "stropt=\"open", "intopt=", "dblopt", "=", "==", "a==b", "intopt=12abc", "dblopt=1e", "tech:intopt = = 3",
                            "'", "\"", "listopt=1,2", "wc:*:val=3", "wc::val=1", "?", "intopt=?x", "\xff\xfe=\x80", "tech:stropt=\xc3\xa9", "sol:stub='a'b'", "tech:stropt='abc\\", "stropt=\"x\\"};
  std::string s = g[rng.below(sizeof g / sizeof *g)];
  if (rng.chance(0.08)) s = "tech:stropt=" + std::string(65536, 'x');
  if (rng.chance(0.08)) s = std::string(70000, 'n') + "=1";
  if (rng.chance(0.15)) { size_t cut = rng.below(s.size() + 1); s.resize(cut); }    // torn token
  t.set("text", s); t.set("sem", "garbage");
  return t;
}

sim::Json generate(const std::string& tier, uint64_t seed, uint64_t index) {
  (void)tier;
  sim::Rng rng(seed, "C11", index);
  sim::Json sc = sim::Json::object();
  bool totality = rng.chance(0.3);
  sc.set("totality", totality);
  static const char* exes[] = {"simdrv", "/usr/local/bin/simdrv", "mydrv", "dir/mydrv.exe", "./other.app"};
  std::string exe = exes[rng.below(5)];
  sc.set("exe", exe);
  sc.set("continue_on_error", rng.chance(0.5));
  sc.set("echo", rng.chance(0.3));
  // the command line as the application sees it: [switches] [--] stub [-AMPL] assignments... - the switch parser hands the rest to the option parser
  if (rng.chance(0.2)) { static const char* fr[] = {"", "--", "-e", "-e --", "-s", "-s --"}; sc.set("app_front", fr[rng.below(6)]); sc.set("app_ampl", rng.chance(0.7)); }
  auto make_source = [&](bool cmdline) {
    sim::Json a = sim::Json::array();
    int n = (int)rng.below(6);
    for (int i = 0; i < n; ++i) a.push(totality && rng.chance(0.4) ? garbage_token(rng) : make_token(rng, cmdline, !totality ? true : true));
    return a;
  };
  sim::Json src = sim::Json::object();
  if (rng.chance(0.7)) src.set("mp_options", make_source(false));
  if (rng.chance(0.6)) src.set("simdrv_options", make_source(false));
  if (rng.chance(0.4)) {
    std::string base = exe.substr(exe.rfind('/') == std::string::npos ? 0 : exe.rfind('/') + 1);
    size_t dot = base.rfind('.');
    if (dot != std::string::npos && (base.substr(dot) == ".exe" || base.substr(dot) == ".app")) base.resize(dot);
    if (base != "simdrv") src.set(base + "_options", make_source(false));
  }
  if (rng.chance(0.7)) src.set("argv", make_source(true));
  // ---- an option file, named from one of the sources: its lines are parsed like an environment string at that point
  if (rng.chance(0.3) && !src.obj().empty()) {
    std::vector<std::string> names;
    for (auto& kv : src.obj()) names.push_back(kv.first);
    std::string where = names[rng.below(names.size())];
    sim::Json lines = sim::Json::array();
    std::string content;
    int nl = (int)rng.range(1, 4);
    static const char* seps2[] = {" ", "  ", "\t"};
    for (int l = 0; l < nl; ++l) {
      if (rng.chance(0.2)) content += rng.chance(0.5) ? "# tech:intopt=77 a comment\n" : "\n";
      if (rng.chance(0.15)) content += "   \t# indented comment tech:stropt=zzz\n";
      sim::Json line = sim::Json::array();
      int nt = rng.chance(0.6) ? 1 : (int)rng.range(2, 3);
      std::string text = rng.chance(0.2) ? "  " : "";
      for (int k = 0; k < nt; ++k) {
        sim::Json tk = totality && rng.chance(0.3) ? garbage_token(rng) : make_token(rng, false, true);
        if (k) text += seps2[rng.below(3)];
        text += tk["text"].as_str();
        line.push(tk);
      }
      if (rng.chance(0.2)) text += rng.chance(0.5) ? " " : "\t ";
      content += text + (rng.chance(0.15) ? "\r\n" : "\n");
      lines.push(line);
    }
    if (totality && rng.chance(0.15)) content += std::string(rng.chance(0.5) ? "tech:optionfile=" : "optionfile ") + "@/o.opt\n";   // the file names itself
    if (rng.chance(0.1) && content.size() > 1) content.resize(content.size() - 1);   // no newline at the end of the file
    sim::Json ft = sim::Json::object();
    static const char* fnames[] = {"tech:optionfile", "optionfile", "option:file", "OptionFile", "OPTION:FILE"};
    std::string fname = fnames[rng.below(5)];
    bool missing = rng.chance(0.08);
    const char* bad_path = rng.chance(0.4) ? "@/." : "@/nosuch.opt";     // a directory opens but cannot be read; the other does not exist
    ft.set("text", fname + (where == "argv" || rng.chance(0.7) ? "=" : " = ") + (missing ? bad_path : "@/o.opt"));
    ft.set("unreadable", missing);
    ft.set("sem", "file"); ft.set("opt", "tech:optionfile");
    ft.set("lines", missing ? sim::Json::array() : lines);
    sim::Json files = sim::Json::object();
    if (!missing) files.set("o.opt", content);
    sc.set("files", files);
    // insert at a random position of the chosen source
    sim::Json old = src[where], neu = sim::Json::array();
    size_t pos = rng.below(old.size() + 1);
    for (size_t k = 0; k <= old.size(); ++k) { if (k == pos) neu.push(ft); if (k < old.size()) neu.push(old.arr()[k]); }
    src.set(where, neu);
  }
  sc.set("sources", src);
  sc.set("sep", (long)rng.below(3));
  return sc;
}

struct State {
  long intopt = 0; double dblopt = 0; std::string stropt; bool flag = false; std::vector<double> list; std::map<std::string, long> wc;
  long round = 0; double reptol = 1e-9, lbpen = 1.0; long timing = 0, debug = 0; std::string solstub;
  bool operator==(const State& o) const {
    return intopt == o.intopt && dblopt == o.dblopt && stropt == o.stropt && flag == o.flag && list == o.list && wc == o.wc &&
           round == o.round && reptol == o.reptol && lbpen == o.lbpen && timing == o.timing && debug == o.debug && solstub == o.solstub;
  }
  std::string str() const {
    std::string s = "intopt=" + std::to_string(intopt) + " dblopt=" + fmt_g(dblopt) + " stropt='" + stropt + "' flag=" + std::to_string(flag) + " list=[";
    for (double v : list) s += fmt_g(v) + ",";
    s += "] wc={";
    for (auto& kv : wc) s += kv.first + ":" + std::to_string(kv.second) + ",";
    s += "} round=" + std::to_string(round) + " reptol=" + fmt_g(reptol) + " lbpen=" + fmt_g(lbpen) + " timing=" + std::to_string(timing) + " debug=" + std::to_string(debug) + " solstub='" + solstub + "'";
    return s;
  }
};

struct RecErr : mp::ErrorHandler {
  std::vector<std::string> msgs;
  void HandleError(fmt::CStringRef m) override { msgs.push_back(m.c_str()); }
};

void apply(State& st, const sim::Json& t) {
  std::string opt = t["opt"].as_str();
  const sim::Json& v = t["val"];
  if (opt == "tech:intopt") st.intopt = (long)v.as_double();
  else if (opt == "tech:dblopt") st.dblopt = v.as_double();
  else if (opt == "tech:stropt") st.stropt = v.as_str();
  else if (opt == "tech:listopt") st.list.push_back(v.as_double());
  else if (opt == "wc:*:val") st.wc[t["wckey"].as_str()] = (long)v.as_double();
  else if (opt == "mip:round") st.round = (long)v.as_double();
  else if (opt == "mip:round_reptol") st.reptol = v.as_double();
  else if (opt == "alg:lbpen") st.lbpen = v.as_double();
  else if (opt == "tech:timing") st.timing = (long)v.as_double();
  else if (opt == "tech:debug") st.debug = (long)v.as_double();
  else if (opt == "sol:stub") st.solstub = v.as_str();
}

sim::RunResult run(const sim::Json& sc) {
  sim::RunResult r;
  using sim::g;
  g.reset(); sim::shim_reset();
  if (g.cpu_budget_s > 4.0) g.cpu_budget_s = 4.0;   // parsing a handful of tokens takes microseconds
  g.scratch = sim::scratch_dir();
  bool totality = sc["totality"].as_bool();
  bool cont = sc["continue_on_error"].as_bool();
  static const char* seps[] = {" ", "  ", "\t \n"};
  const char* sep = seps[sc["sep"].as_int() % 3];
  std::vector<std::string> argv_s;
  std::string exe = sc["exe"].as_str();
  std::string base = exe.substr(exe.rfind('/') == std::string::npos ? 0 : exe.rfind('/') + 1);
  { size_t dot = base.rfind('.'); if (dot != std::string::npos && (base.substr(dot) == ".exe" || base.substr(dot) == ".app")) base.resize(dot); }
  // ---- sources in the documented order: mp_options, <exe>_options (else <solver>_options), command line
  std::vector<const sim::Json*> order;
  const sim::Json& src = sc["sources"];
  if (src.has("mp_options")) order.push_back(&src["mp_options"]);
  bool exe_specific = src.has(base + "_options");
  if (exe_specific) order.push_back(&src[base + "_options"]);
  else if (src.has("simdrv_options")) order.push_back(&src["simdrv_options"]);
  if (src.has("argv")) order.push_back(&src["argv"]);
  sim::clean_scratch();
  for (auto& kv : sc["files"].obj()) sim::write_file(sim::scratch_dir() + kv.first, subst(kv.second.as_str()));   // "@/" inside an option file names the scratch directory too
  for (auto& kv : src.obj()) {
    if (kv.first == "argv") { for (auto& t : kv.second.arr()) argv_s.push_back(subst(t["text"].as_str())); continue; }
    std::string text;
    for (auto& t : kv.second.arr()) { if (!text.empty()) text += sep; text += subst(t["text"].as_str()); }
    g.env[kv.first] = text;
  }
  // ---- reference model
  State want; bool want_err = false; bool narrowed = false; std::string narrow_opt;
  long want_errs = 0;
  bool stop = false; long file_tokens = 0;
  std::function<void(const sim::Json&)> ref_token = [&](const sim::Json& t) {
    if (stop) return;
    std::string sem = t["sem"].as_str();
    if (sem == "set") apply(want, t);
    else if (sem == "flag") want.flag = true;
    else if (sem == "query") {}
    else if (sem == "unknown" || sem == "flagval") { want_err = true; ++want_errs; if (!cont) stop = true; }
    else if (sem == "narrow") { narrowed = true; narrow_opt = t["opt"].as_str(); apply(want, t); }
    else if (sem == "file") {   // every line of the file is parsed, in order, where the file is named (a missing file has no lines)
      ++file_tokens;
      if (t["unreadable"].as_bool()) { want_err = true; stop = true; return; }   // unreadable file (missing, or a directory): raised, whatever the handler
      for (auto& line : t["lines"].arr()) for (auto& lt : line.arr()) ref_token(lt);
    }
  };
  for (const sim::Json* s : order) {
    for (auto& t : s->arr()) ref_token(t);
    if (stop) break;
  }
  // ---- the real parser
  std::vector<char*> argv;
  for (auto& s : argv_s) { char* p = (char*)malloc(s.size() + 1); memcpy(p, s.c_str(), s.size() + 1); argv.push_back(p); }
  argv.push_back(nullptr);
  char* exe_c = (char*)malloc(exe.size() + 1); memcpy(exe_c, exe.c_str(), exe.size() + 1);
  char* init_argv[] = {exe_c, nullptr};
  State got; bool ok = true; std::string thrown; RecErr rec; bool other_exc = false, std_exc = false;
  std::string app_stub; long app_rest = -1;
  sim::capture_begin();
  g.begin();
  {
    std::unique_ptr<mp::BasicBackend> be = CreateSimBackend();
    SimBackend* sb = static_cast<SimBackend*>(be.get());
    try {
      be->GetCallbacks() = mp::BasicBackend::Callbacks();   // RunBackendApp does the same (the member has no initialiser)
      be->Init(init_argv);
      if (cont) be->set_error_handler(&rec);
      if (sc.has("app_front")) {
        // as BackendApp::Init does: the switch parser takes the switches, the stub and -AMPL, the option parser gets what follows
        std::vector<std::string> full_s; full_s.push_back(exe);
        { std::string fr = sc["app_front"].as_str(); size_t p0 = 0; while (p0 < fr.size()) { size_t q = fr.find(' ', p0); if (q == std::string::npos) q = fr.size(); if (q > p0) full_s.push_back(fr.substr(p0, q - p0)); p0 = q + 1; } }
        full_s.push_back("mystub");
        if (sc["app_ampl"].as_bool()) full_s.push_back("-AMPL");
        std::vector<char*> full; for (auto& q : full_s) full.push_back((char*)q.c_str());
        for (size_t q = 0; q + 1 < argv.size(); ++q) full.push_back(argv[q]);
        full.push_back(nullptr);
        mp::internal::SolverAppOptionParser parser(*be);
        char** av = full.data();
        const char* stub = parser.Parse(av);
        app_stub = stub ? stub : "(null)";
        app_rest = av - full.data();
        ok = be->ParseSolverOptions(av, sc["echo"].as_bool() ? 0 : mp::BasicSolver::NO_OPTION_ECHO);
      } else
      ok = be->ParseSolverOptions(argv.data(), sc["echo"].as_bool() ? 0 : mp::BasicSolver::NO_OPTION_ECHO);
    } catch (const mp::Error& e) { thrown = e.what(); ok = false; }
    catch (const std::exception& e) { thrown = std::string("std: ") + e.what(); ok = false; std_exc = true; }   // e.g. logic_error for an empty name: a reported error
    catch (...) { thrown = "non-std exception"; ok = false; other_exc = true; }
    try {
      got.intopt = sb->opt_int(); got.dblopt = sb->opt_dbl(); got.stropt = sb->opt_str(); got.flag = sb->opt_flag(); got.list = sb->opt_list();
      for (auto& kv : sb->opt_wc()) got.wc[kv.first] = kv.second;
      got.round = sb->FindOption("mip:round")->GetValue<int>(); got.reptol = sb->FindOption("mip:round_reptol")->GetValue<double>();
      got.lbpen = sb->FindOption("alg:lbpen")->GetValue<double>();
      got.timing = sb->FindOption("tech:timing")->GetValue<int>(); got.debug = sb->FindOption("tech:debug")->GetValue<int>();
      got.solstub = sb->FindOption("sol:stub")->GetValue<std::string>();
    } catch (const std::exception& e) { thrown += std::string(" / reading values: ") + e.what(); other_exc = true; }
  }
  g.end();
  std::string out, err;
  sim::capture_end(out, err);
  for (char* p : argv) free(p);
  free(exe_c);

  std::string viol, key, detail;
  auto flag = [&](const std::string& v, const std::string& k, const std::string& d) { if (viol.empty()) { viol = v; key = k; detail = d; } };
  if (other_exc) flag("UNEXPECTED_EXCEPTION", "parse", thrown);
  if (sc.has("app_front") && thrown.empty()) {
    std::string fr = sc["app_front"].as_str();
    long nfront = fr.empty() ? 0 : 1 + (long)std::count(fr.begin(), fr.end(), ' ');
    long want_rest = 1 + nfront + 1 + (sc["app_ampl"].as_bool() ? 1 : 0);
    if (app_stub != "mystub" || app_rest != want_rest)
      flag("WRONG_COMMAND_LINE_SPLIT", fr.empty() ? "plain" : fr, "command line '" + fr + " mystub" + (sc["app_ampl"].as_bool() ? " -AMPL" : "") + " ...': the switch parser took '" + app_stub + "' for the stub and left the option parser to start at argument " + std::to_string(app_rest) + " (expected " + std::to_string(want_rest) + ")");
  }
  if (std_exc && !totality) flag("UNEXPECTED_EXCEPTION", "std", "well-formed / documented-error input made the parser throw a non-mp exception: " + thrown);
  if (!totality) {
    if (narrowed) {
      // an integer literal that does not fit the option's type: the only faithful outcomes are a rejection or the exact value
      bool rejected = !ok;
      State w2 = want;
      if (!rejected && !(got == want)) flag("NARROWED", narrow_opt, "integer literal outside the range of option " + narrow_opt + " was accepted with another value: expected rejection or " + want.str() + ", got " + got.str());
    } else {
      if (!(got == want)) flag("WRONG_VALUE", "state", "after parsing: expected " + want.str() + "\n got " + got.str() + (thrown.empty() ? "" : "\n thrown: " + thrown));
      if (want_err && ok) flag("ERROR_NOT_REPORTED", "result", "an unknown option / a value given to a flag was not reported (ParseOptions returned true)");
      if (!want_err && !ok) flag("SPURIOUS_ERROR", "result", "well-formed options rejected: " + thrown + (rec.msgs.empty() ? "" : rec.msgs[0]));
      if (cont && want_err && (long)rec.msgs.size() < want_errs) flag("ERROR_NOT_REPORTED", "count", "expected at least " + std::to_string(want_errs) + " error reports, got " + std::to_string(rec.msgs.size()));
    }
  }
  if (::getenv("VERIF_DUMP")) fprintf(stderr, "---- got: %s\n---- thrown: %s\n---- out: %s\n---- msgs: %zu\n", got.str().c_str(), sim::norm_paths(thrown).c_str(), sim::norm_paths(out).substr(0, 2000).c_str(), rec.msgs.size());
  uint64_t h = sim::fnv1a(sim::norm_paths(got.str()));   // a string option may have swallowed a path of the scratch directory
  h = sim::fnv1a(sim::norm_paths(thrown), h); h = sim::fnv1a(sim::norm_paths(out), h);
  for (auto& m : rec.msgs) h = sim::fnv1a(sim::norm_paths(m), h);
  int oki = ok; h = sim::fnv1a(&oki, sizeof oki, h);
  r.fingerprint = h;
  std::string cls = std::string(totality ? "T" : "F") + (cont ? "c" : "t") + (ok ? "ok" : "err") + (exe_specific ? "X" : "G") + std::to_string(order.size());
  uint64_t t = sim::fnv1a(cls);
  for (const sim::Json* s : order) for (auto& tk : s->arr()) { t = sim::fnv1a(tk["sem"].as_str(), t); t = sim::fnv1a(tk["opt"].as_str(), t); }
  r.trace_sig = t;
  r.nontrivial = !order.empty();
  r.stats = sim::Json::object();
  r.stats.set(totality ? "totality_runs" : "faithful_runs", 1);
  if (!ok) r.stats.set("parse_reported_error", 1);
  if (sc.has("app_front")) r.stats.set("app_front_runs", 1);
  if (exe_specific) r.stats.set("exe_specific_source_used", 1);
  if (narrowed) r.stats.set("narrow_probes", 1);
  if (file_tokens) r.stats.set("option_file_used", 1);
  r.stats.set("tokens", (long)[&] { long n = 0; for (const sim::Json* s : order) n += (long)s->size(); return n; }());
  if (!viol.empty()) { r.verdict = viol; r.sig = "C11:" + viol + ":" + key; r.detail = detail; }
  return r;
}

void judge_unused(const sim::Json&, const RunRecord&, sim::RunResult&) {}

Property prop = {"C11", generate, nullptr, judge_unused, run};
DRVSIM_REGISTER(prop);

}  // namespace
}  // namespace drvsim
