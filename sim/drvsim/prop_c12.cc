// C12 — the solver receives exactly the objective(s) the user selected.
// Tagged objectives; conservation check at the solver stub + .sol echo.
#include <cmath>
#include <set>

#include "harness.h"
#include "scen.h"
#include "../oracle/solparse.h"

namespace drvsim {
namespace {

sim::Json generate(const std::string& tier, uint64_t seed, uint64_t index) {
  (void)tier;
  sim::Rng rng(seed, "C12", index);
  gen::GenOptions go;
  go.tag_objectives = true;
  go.min_objs = 0; go.max_objs = 3;
  go.allow_unsupported = false; go.allow_unbounded = false;
  go.p_nonlinear = 0.6; go.max_lcons = 2; go.max_cons = 4;
  go.want_suffixes = rng.chance(0.3);
  gen::Model m = gen::generate(rng, go);
  for (auto& v : m.vars) if (v.lb == v.ub) v.ub = v.lb + 1;   // no fixed variables: tags must stay visible
  bool ampl = rng.chance(0.8);
  sim::Json sc = model_scenario(m, ampl, rng.chance(0.4));
  int K = (int)m.objs.size();
  std::vector<std::string> opts;
  bool given = rng.chance(0.8);
  long objno = given ? rng.range(0, K + 1) : 1;
  // the objective number reaches the solver object as an option string - or, in 15 % of the cases where it is given, through
  // the option API of an AMPLS session (AMPLSSetIntOption before the model is loaded)
  const bool api = given && rng.chance(0.15);
  if (given && !api) {
    static const char* names[] = {"objno", "obj:no", "OBJNO"};
    opts.push_back(std::string(names[rng.below(3)]) + (rng.chance(0.8) ? "=" : " ") + std::to_string(objno));
  }
  bool multi = rng.chance(0.35);
  bool multi_given = multi || rng.chance(0.2);
  if (multi_given) opts.push_back(std::string(rng.chance(0.5) ? "multiobj" : "obj:multi") + "=" + (multi ? "1" : "0"));
  if (rng.chance(0.5)) { auto a = acc_profile(rng); opts.insert(opts.end(), a.begin(), a.end()); }
  if (rng.chance(0.3)) opts.push_back("cvt:quadobj=0");
  opts.push_back("sol:chk:mode=0");
  rng.shuffle(opts);
  place_options(rng, sc, opts);
  if (!ampl) sc.ref("argv").push("wantsol=1");
  // a solution pool now and then: alternative-solution files echo the objective number as the final file does
  const bool pool = rng.chance(0.12);
  if (pool) sc.ref("argv").push("sol:stub=@/alt");
  sim::Json info = sim::Json::array();
  for (auto& o : m.objs) {
    sim::Json j = sim::Json::object();
    j.set("max", o.maximize);
    sim::Json lin = sim::Json::array();
    if (!o.cancels) for (auto& t : o.lin) { sim::Json p = sim::Json::array(); p.push(t.var); p.push(t.coef); lin.push(p); }
    j.set("lin", lin);
    if (o.lin.empty() && !o.has_nl && o.constant == 0) j.set("empty", true);
    if (o.cancels) j.set("cancels", true);
    sim::Json tags = sim::Json::array();
    for (double t : o.tags) tags.push(t);
    j.set("tags", tags);
    j.set("constant", o.constant);
    j.set("has_nl", o.has_nl);
    info.push(j);
  }
  sc.set("objinfo", info);
  sc.set("objno_given", given); sc.set("objno", objno); sc.set("multi", multi);
  sim::Json& s = sc.ref("script");
  s.set("status", 0); s.set("solve_iters", 0); s.set("objvals", multi ? (long)K : 1L);
  if (pool) { s.set("n_interm", 2); s.set("interm_after_status", 1); }
  if (api) {
    sim::Json ses = sim::Json::object();
    sim::Json lo = sim::Json::array();
    for (size_t k = 2; k < sc["argv"].size(); ++k) { std::string a = sc["argv"][k].as_str(); if (a != "-AMPL" && a.compare(0, 8, "wantsol=") != 0) lo.push(a); }
    ses.set("load_options", lo);
    sim::Json ao = sim::Json::array(), one = sim::Json::array();
    one.push(rng.chance(0.5) ? "obj:no" : "objno"); one.push("int"); one.push(objno); ao.push(one);
    ses.set("api_options", ao);
    sim::Json rd = sim::Json::object(); rd.set("script", sc["script"]); rd.set("solfile", sim::Json());
    sim::Json rounds = sim::Json::array(); rounds.push(rd);
    ses.set("rounds", rounds);
    sc.set("session", ses);
  } else if (rng.chance(0.1)) {
    // the C API with no option list at all (NULL): everything, the objective selection included, comes from the environment
    std::string all = sc["env"]["simdrv_options"].as_str();
    for (size_t k = 2; k < sc["argv"].size(); ++k) { std::string a = sc["argv"][k].as_str(); if (a != "-AMPL" && a.compare(0, 8, "wantsol=") != 0) all += (all.empty() ? "" : " ") + a; }
    sc.ref("env").set("simdrv_options", all);
    sim::Json ses = sim::Json::object();
    ses.set("load_options", sim::Json::array()); ses.set("load_options_null", true); ses.set("api_options", sim::Json::array());
    sim::Json rd = sim::Json::object(); rd.set("script", sc["script"]); rd.set("solfile", sim::Json());
    sim::Json rounds = sim::Json::array(); rounds.push(rd);
    ses.set("rounds", rounds);
    sc.set("session", ses);
  }
  return sc;
}

// all numbers occurring in the delivered model
void collect_numbers(const RunRecord& rec, std::vector<double>& out, std::vector<double>* cone_sq = nullptr) {
  for (auto& v : rec.stub.vars) { out.push_back(v.lb); out.push_back(v.ub); }
  for (auto& o : rec.stub.objs) { for (auto& t : o.lin) out.push_back(t.coef); for (auto& t : o.quad) out.push_back(t.coef); }
  for (auto& c : rec.stub.cons) {
    const std::string& s = c.json;
    size_t i = 0;
    while (i < s.size()) {
      if ((s[i] >= '0' && s[i] <= '9') || (s[i] == '-' && i + 1 < s.size() && s[i + 1] >= '0' && s[i + 1] <= '9')) {
        char* e = nullptr;
        double v = strtod(s.c_str() + i, &e);
        out.push_back(v);
        // a (rotated) second-order cone  2 p0 x0 p1 x1 >= sum (p_i x_i)^2  carries its coefficients as square roots
        if (cone_sq && c.type.find("ConeConstraint") != std::string::npos && s.rfind("\"params\"", i) != std::string::npos) cone_sq->push_back(v * v);
        i = (size_t)(e - s.c_str());
        if (e == s.c_str() + i && v == 0 && !e) ++i;
      } else ++i;
    }
  }
}

void judge(const sim::Json& sc, const RunRecord& rec, sim::RunResult& r) {
  std::string viol, key, detail;
  auto flag = [&](const std::string& v, const std::string& k, const std::string& d) { if (viol.empty()) { viol = v; key = k; detail = d; } };
  int K = (int)sc["objinfo"].size();
  bool given = sc["objno_given"].as_bool();
  long objno = sc["objno"].as_int();
  bool multi = sc["multi"].as_bool();
  long nvars = sc["expect"]["nvars"].as_int();
  bool delivered = rec.stub.finish_phase;
  std::string allout = rec.out + rec.err;
  for (auto& m : rec.api_messages) allout += m;
  if (sc.has("session")) r.stats.set(sc["session"]["load_options_null"].as_bool() ? "session_options_from_environment_only" : "objno_via_api", 1);
  auto sit = rec.files_after.find("stub.sol");
  oracle::SolFile sf;
  if (sit != rec.files_after.end()) { sf = oracle::parse_sol(sit->second); if (sf.ok) allout += sf.message_text(); }
  std::string cfg = std::string(multi ? "multi" : "single") + (given ? (objno == 0 ? ":objno0" : objno > K ? ":beyond" : ":given") : ":default") + ":K" + std::to_string(K);
  r.nontrivial = true;
  if (rec.escaped) flag("ESCAPED_EXCEPTION", cfg, rec.escaped_what);

  if (given && objno > K) {
    if (delivered || !rec.stub.vars.empty()) flag("OBJNO_NOT_REJECTED", cfg, "objno=" + std::to_string(objno) + " with " + std::to_string(K) + " objectives, yet a model was delivered to the solver");
    else if (allout.find("objno") == std::string::npos && allout.find("obj:no") == std::string::npos)
      flag("OBJNO_ERROR_UNNAMED", cfg, "objno=" + std::to_string(objno) + " beyond " + std::to_string(K) + " objectives: no diagnostic naming objno; output: " + allout.substr(0, 300));
    // nothing was used: a .sol that reports the failure must not echo the number of an objective the file does not have
    if (sf.ok && sf.objno >= K) flag("REJECTED_OBJNO_ECHOED", cfg, "objno=" + std::to_string(objno) + " was rejected (" + std::to_string(K) + " objectives), yet the .sol says 'objno " + std::to_string(sf.objno) + "'");
    r.stats.set("objno_rejected", 1);
  } else if (!delivered) {
    r.stats.set("not_delivered", 1);   // conversion refused this model (diagnosed elsewhere: C09)
    // ... but the generated files are valid NL in either encoding: the reader itself must never reject them
    // (the statement quantifies over text and binary input: the selected objective has to arrive from both)
    if (allout.find("stub.nl:") != std::string::npos)
      flag("VALID_NL_REJECTED", std::string(sc["nl_binary"].as_bool() ? "binary" : "text") + ":" + cfg, "the NL reader rejected a valid " + std::string(sc["nl_binary"].as_bool() ? "binary" : "text") +
           " file, nothing reached the solver: " + allout.substr(allout.find("stub.nl:"), 200));
  } else {
    long eff = given ? objno : 1;
    std::vector<int> expect;
    // an explicitly given objno selects single-objective mode (BasicSolver::multiobj() documents
    // "multiobj_ && objno not specified"); the statement's multi-objective clause is judged only
    // when the user did not give objno
    if (multi && !given) for (int i = 0; i < K; ++i) expect.push_back(i);
    else if (eff >= 1 && K >= 1) expect.push_back((int)eff - 1);
    if (rec.stub.objs.size() != expect.size())
      flag("WRONG_OBJ_COUNT", cfg, "expected " + std::to_string(expect.size()) + " objective(s) at the solver, it received " + std::to_string(rec.stub.objs.size()));
    else {
      for (size_t n = 0; n < expect.size(); ++n) {
        const sim::Json& oi = sc["objinfo"][expect[n]];
        const StubObj& so = rec.stub.objs[n];
        if (so.iobj != (int)n) flag("WRONG_OBJ_INDEX", cfg, "objective call " + std::to_string(n) + " used index " + std::to_string(so.iobj));
        if ((so.sense != 0) != oi["max"].as_bool())   // obj::MIN = 0, obj::MAX = 1
          flag("WRONG_SENSE", cfg, "objective " + std::to_string(expect[n] + 1) + " is " + (oi["max"].as_bool() ? "max" : "min") + ", the solver got sense " + std::to_string(so.sense));
        std::set<std::pair<int, double>> want, got;
        for (auto& p : oi["lin"].arr()) want.insert({(int)p[(size_t)0].as_int(), p[(size_t)1].as_double()});
        for (auto& t : so.lin) if (t.var < nvars && t.coef != 0) got.insert({t.var, t.coef});
        if (want != got) {
          std::string w, g;
          for (auto& p : want) w += " " + std::to_string(p.first) + ":" + gen::fmt_double(p.second);
          for (auto& p : got) g += " " + std::to_string(p.first) + ":" + gen::fmt_double(p.second);
          flag("WRONG_LINEAR_PART", cfg, "objective " + std::to_string(expect[n] + 1) + " linear part on original variables: expected{" + w + " } delivered{" + g + " }");
        }
      }
    }
    // conservation of tags
    std::vector<double> nums, cone_sq;
    collect_numbers(rec, nums, &cone_sq);
    // (constraint data come from mp's JSON serialisation, which prints 6 significant digits; tags are 1000 apart)
    auto present = [&](double tag) { for (double v : nums) if (std::fabs(std::fabs(v) - tag) < 1e-6) return true; return false; };
    auto present_in_cone = [&](double tag) { for (double v : cone_sq) if (std::fabs(v - tag) < 5e-5 * tag) return true; return false; };
    std::set<int> es(expect.begin(), expect.end());
    for (int i = 0; i < K; ++i)
      for (auto& t : sc["objinfo"][i]["tags"].arr()) {
        bool p = present(t.as_double());
        if (es.count(i) && !p && present_in_cone(t.as_double())) { p = true; r.stats.set("tag_found_in_cone", 1); }
        if (es.count(i) && !p) flag("MISSING_TAG", cfg, "tag " + gen::fmt_double(t.as_double()) + " of selected objective " + std::to_string(i + 1) + " does not occur in the delivered model");
        if (!es.count(i) && p) flag("LEAKED_TAG", cfg, "tag " + gen::fmt_double(t.as_double()) + " of skipped objective " + std::to_string(i + 1) + " occurs in the delivered model");
      }
    for (int i : expect) { double cst = sc["objinfo"][(size_t)i]["constant"].as_double(); r.stats.set(present(cst) ? "constant_visible" : "constant_not_visible", 1); }
    // echo
    if (sf.ok && !(multi && !given) && !expect.empty() && sf.objno != eff - 1)
      flag("WRONG_OBJNO_ECHO", cfg, "objective " + std::to_string(eff) + " was used, the .sol says 'objno " + std::to_string(sf.objno) + "'");
    for (auto& kv : rec.files_after) {
      if (kv.first.compare(0, 3, "alt") != 0 || kv.first.size() < 7 || kv.first.compare(kv.first.size() - 4, 4, ".sol") != 0) continue;
      oracle::SolFile af = oracle::parse_sol(kv.second);
      r.stats.set("alt_solution_files_checked", 1);
      if (af.ok && sf.ok && af.objno != sf.objno) flag("WRONG_OBJNO_ECHO", cfg + ":alt", "the final .sol says 'objno " + std::to_string(sf.objno) + "', the alternative-solution file " + kv.first + " says 'objno " + std::to_string(af.objno) + "'");
    }
    if (sf.ok && expect.empty() && sf.objno != -1)
      flag("WRONG_OBJNO_ECHO", cfg, "no objective was used, the .sol says 'objno " + std::to_string(sf.objno) + "'");
    if (sit != rec.files_after.end() && !sf.ok) flag("MALFORMED_SOL", cfg, sf.error);
    r.stats.set("judged_delivered", 1);
    r.stats.set("cfg." + cfg, 1);
  }
  r.trace_sig = sim::fnv1a(cfg + (delivered ? "D" : "N") + sc["expect"]["features"].as_str(), r.trace_sig);
  if (!viol.empty()) { r.verdict = viol; r.sig = "C12:" + viol + ":" + key; r.detail = detail; }
}

Property prop = {"C12", generate, nullptr, judge, nullptr};
DRVSIM_REGISTER(prop);

}  // namespace
}  // namespace drvsim
