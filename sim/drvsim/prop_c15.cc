// C15 — an interrupt is never lost and never delivered with inconsistent state.
// Schedules of 1..3 signals over every yield point of a whole driver run, including the
// guarded hook points inside mp::internal::SignalHandler; oracle = atomic-registration
// reference model evaluated over the recorded history.
#include <algorithm>
#include <map>

#include "common.h"
#include "harness.h"

namespace drvsim {
namespace {

const char* kHandlePts[] = {"sigh.handle.enter", "sigh.handle.after_write", "sigh.handle.after_inc",
                            "sigh.handle.after_callback", "sigh.handle.exit"};

// Registration patterns the solver stub may perform (at = -1: inside SetInterrupter; >=0: in solve iteration)
sim::Json reg_pattern(int id) {
  sim::Json a = sim::Json::array();
  auto add = [&](const char* cb, int at) { sim::Json r = sim::Json::object(); r.set("cb", cb); r.set("at", at); a.push(r); };
  switch (id) {
    case 0: add("A", -1); break;
    case 1: add("A", -1); add("B", -1); break;
    case 2: add("A", -1); add("B", 1); break;
    case 3: add("B", 0); break;                         // first registration only during solve
    case 4: add("A", -1); add("A", 0); add("B", 2); break;
    case 5: break;                                      // never registers
    case 6: add("A", -1); add("B", -1); add("A", -1); break;
    default: add("B", -1); add("A", 2); break;
  }
  return a;
}
const int kNumPatterns = 8;

sim::Json base(int pattern, bool mip) {
  sim::Json sc = base_scenario(mip ? tiny_mip_nl() : tiny_lp_nl(), true);
  sim::Json script = sim::Json::object();
  script.set("solve_iters", 3);
  script.set("registrations", reg_pattern(pattern));
  sc.set("script", script);
  sc.set("pattern", pattern);
  return sc;
}

// census of yield points of the signal-free base run, per pattern (deterministic; cached per process)
struct Census { std::vector<std::pair<std::string, int>> pts; int total = 0; };
const Census& census_of(int pattern) {
  static std::map<int, Census> cache;
  auto it = cache.find(pattern);
  if (it != cache.end()) return it->second;
  RunRecord rec = run_driver(base(pattern, false));
  Census c;
  for (auto& kv : rec.census) { c.pts.push_back(kv); c.total += kv.second; }
  return cache[pattern] = c;
}

sim::Json sig(const std::string& point, int k, int signo) {
  sim::SignalOp s; s.point = point; s.k = k; s.signo = signo;
  return s.to_json();
}

// the hook points relevant for systematic pair/triple sweeps (k = 0)
std::vector<std::string> hook_points() {
  std::vector<std::string> v;
  for (auto& kv : census_of(1).pts) if (kv.first.compare(0, 5, "sigh.") == 0) v.push_back(kv.first);
  for (auto h : kHandlePts) v.push_back(h);
  return v;
}

struct EnumTable {
  uint64_t n_single = 0, n_pairs = 0, n_triples = 0;
  std::vector<std::pair<std::string, int>> singles;   // (point, k) over pattern 1 census
  std::vector<std::string> hooks;
};
const EnumTable& table() {
  static EnumTable t;
  static bool init = false;
  if (!init) {
    init = true;
    for (auto& kv : census_of(1).pts)
      for (int k = 0; k < kv.second; ++k) t.singles.push_back({kv.first, k});
    t.hooks = hook_points();
    t.n_single = t.singles.size() * 2;
    t.n_pairs = t.hooks.size() * t.hooks.size() * 4;
    t.n_triples = t.hooks.size() * t.hooks.size() * t.hooks.size();
  }
  return t;
}

uint64_t enumerated(const std::string& tier) {
  const EnumTable& t = table();
  return t.n_single + t.n_pairs + (tier == "thorough" ? t.n_triples * 8 : t.n_triples);
}

sim::Json generate(const std::string& tier, uint64_t seed, uint64_t index) {
  const EnumTable& t = table();
  uint64_t i = index;
  if (i < t.n_single) {                       // every single yield point x {SIGINT, SIGTERM}
    sim::Json sc = base(1, false);
    auto& p = t.singles[i / 2];
    sc["signals"]; sc.ref("signals").push(sig(p.first, p.second, (i & 1) ? 15 : 2));
    sc.set("gen", "enum-single");
    return sc;
  }
  i -= t.n_single;
  size_t H = t.hooks.size();
  if (i < t.n_pairs) {                        // ordered pairs of hook points x signo combos
    sim::Json sc = base(1, false);
    uint64_t combo = i % 4; i /= 4;
    const std::string& a = t.hooks[i / H]; const std::string& b = t.hooks[i % H];
    sc.ref("signals").push(sig(a, 0, (combo & 1) ? 15 : 2));
    sc.ref("signals").push(sig(b, a == b ? 1 : 0, (combo & 2) ? 15 : 2));
    sc.set("gen", "enum-pair");
    return sc;
  }
  i -= t.n_pairs;
  uint64_t ntr = (tier == "thorough" ? t.n_triples * 8 : t.n_triples);
  if (i < ntr) {
    sim::Json sc = base(1, false);
    uint64_t combo = 0;
    if (tier == "thorough") { combo = i % 8; i /= 8; }
    const std::string& a = t.hooks[i / (H * H)];
    const std::string& b = t.hooks[(i / H) % H];
    const std::string& c = t.hooks[i % H];
    std::map<std::string, int> seen;
    sc.ref("signals").push(sig(a, seen[a]++, (combo & 1) ? 15 : 2));
    sc.ref("signals").push(sig(b, seen[b]++, (combo & 2) ? 15 : 2));
    sc.ref("signals").push(sig(c, seen[c]++, (combo & 4) ? 15 : 2));
    sc.set("gen", "enum-triple");
    return sc;
  }
  i -= ntr;
  // ---- seeded sampling
  sim::Rng rng(seed, "C15", i);
  int pattern = (int)rng.below(kNumPatterns);
  sim::Json sc = base(pattern, rng.chance(0.3));
  sc.ref("script").set("solve_iters", (long)rng.range(1, 4));
  if (rng.chance(0.3)) { static const char* ans[] = {"F", "FT", "TF", "TTF", "FFT"}; sc.ref("script").set("cb_answers", ans[rng.below(5)]); }   // a callback that says "not running"
  if (rng.chance(0.15)) {     // registrations without data (a null pointer is a valid thing to register)
    sim::Json& regs = sc.ref("script").ref("registrations");
    for (size_t q = 0; q < regs.size(); ++q) if (rng.chance(0.7)) regs.arr()[q].set("null", true);
  }
  const Census& c = census_of(pattern);
  int nsig = 1 + (int)rng.below(3);
  std::map<std::string, int> seen;
  for (int s = 0; s < nsig; ++s) {
    int signo = rng.chance(0.5) ? 2 : 15;
    double r = rng.real();
    if (r < 0.40) {                                  // a hook point of the mainline
      std::vector<std::pair<std::string, int>> hp;
      for (auto& kv : c.pts) if (kv.first.compare(0, 5, "sigh.") == 0) hp.push_back(kv);
      auto& p = hp[rng.below(hp.size())];
      sc.ref("signals").push(sig(p.first, (int)rng.below((uint64_t)p.second), signo));
    } else if (r < 0.60 && s > 0) {                  // inside an earlier delivery
      std::string h = kHandlePts[rng.below(5)];
      sc.ref("signals").push(sig(h, (int)rng.below(2), signo));
    } else if (r < 0.85) {                           // any named yield point
      auto& p = c.pts[rng.below(c.pts.size())];
      sc.ref("signals").push(sig(p.first, (int)rng.below((uint64_t)p.second), signo));
    } else {                                         // k-th yield overall
      sc.ref("signals").push(sig("*", (int)rng.below((uint64_t)c.total), signo));
    }
  }
  if (rng.chance(0.12)) {
    // a driver that opens its solver session once the options are known and registers that session with the interrupter when
    // the framework asks it to; half of the time its main() hands the same backend the model a second time
    // ... the stub driver (full model manager: a second hand-over fails on the pinned tree) or the lean one (it can be re-run)
    const bool lean = rng.chance(0.6);
    sc.set("driver", lean ? "lean" : "direct");
    sc.set("signals", sim::Json::array());
    if (rng.chance(lean ? 0.7 : 0.2)) sc.set("rerun_backend", (long)rng.range(1, 2)); else sc.set("rerun_backend", 0L);
    {
      sim::Json& sp = sc.ref("script");          // (no insertion into sc while this reference is in use)
      sp.erase("registrations");
      sp.set("session_pattern", true);
      sp.set("session_reopen", rng.chance(0.8));
    }
    long span = sc["script"]["solve_iters"].as_int(1) * (1 + sc["rerun_backend"].as_int(0));
    int ns = 1 + (int)rng.below(2);
    for (int q = 0; q < ns; ++q) sc.ref("signals").push(sig("stub.solve.iter", (int)rng.below((uint64_t)span), rng.chance(0.5) ? 2 : 15));
  }
  else if (rng.chance(0.15)) {
    // a second driver party with a history: the minimal BasicBackend driver, its application object run 1..3 times;
    // signals at its own points (occurrence counts are not known in advance: a signal whose point never comes simply stays pending)
    sc.set("driver", "mini"); sc.set("mini_runs", (long)rng.range(1, 3));
    static const char* pts[] = {"stub.solve.iter", "stub.solve.iter", "stub.solve.end", "stub.SetInterrupter", "sigh.sethandler.begin", "sigh.sethandler.after_data_store",
                                "sigh.sethandler.after_handler_clear", "sigh.sethandler.after_handler_store", "io.stdout.write", "sigh.handle.enter", "sigh.handle.after_inc",
                                "sigh.handle.after_write", "sigh.handle.after_callback", "sigh.handle.exit", "*"};
    sim::Json sg = sim::Json::array();
    int ns = 1 + (int)rng.below(3);
    for (int q = 0; q < ns; ++q) {
      std::string pt = pts[rng.below(sizeof pts / sizeof *pts)];
      if (q == 0 && rng.chance(0.6)) sg.push(sig("stub.solve.iter", (int)rng.below((uint64_t)(sc["script"]["solve_iters"].as_int(1) * sc["mini_runs"].as_int(1))), rng.chance(0.5) ? 2 : 15));   // certain to come
      else sg.push(sig(pt, (int)rng.below(pt == "*" ? 70 : pt.compare(0, 11, "sigh.handle") == 0 ? 2 : 7), rng.chance(0.5) ? 2 : 15));
    }
    sc.set("signals", sg);
  }
  if (rng.chance(0.25)) {                            // fault on the handler's own write(1, ...)
    sim::FaultOp f; f.role = "stdout"; f.op = "write"; f.k = (int)rng.below(3);
    const char* kinds[] = {"SHORT", "EINTR", "EAGAIN"};
    f.kind = kinds[rng.below(3)]; f.param = (long)rng.range(1, 10);
    // the condition may persist: stdout is a full non-blocking pipe nobody drains (for a while / at all)
    if (f.kind != "SHORT" && rng.chance(0.4)) { static const long reps[] = {2, 5, 60, 100000000}; f.repeat = reps[rng.below(4)]; }
    sc.ref("faults").push(f.to_json());
  }
  sc.set("gen", "seeded");
  return sc;
}

bool starts(const std::string& s, const char* p) { return s.compare(0, strlen(p), p) == 0; }

struct Pair { std::string fn, data; bool valid = false; };

void judge(const sim::Json& sc, const RunRecord& rec, sim::RunResult& r) {
  (void)sc;
  // ---- reference model over the history
  bool inst_int = false, inst_term = false, alive = false, ctor_done = false, dtor_begun = false, dtor_done = false;
  std::vector<Pair> regs(16);
  int in_progress = -1;        // registration index between BEGIN and END
  int current = -1;            // last completed registration
  struct Delivery { int signo; std::string at; bool counted; int ordinal; bool began_alive; bool in_ctor_window;
                    int callbacks = 0; bool ended = false; bool reg_in_progress_at_begin; int current_at_begin; bool any_inprogress_during = false; };
  std::vector<Delivery> dels;
  std::vector<int> stack;
  int pending_signo = 0; std::string pending_at;
  int counted = 0;
  int live = 0;                // handler objects in existence
  std::string solving_session; // "session" registration pattern: the session the solver is solving with right now
  bool exited = false;
  std::string viol, key, detail;
  auto flag = [&](const std::string& v, const std::string& k, const std::string& d) {
    if (viol.empty()) { viol = v; key = k; detail = d; }
  };
  std::vector<int> must_stop;  // deliveries (indices) that have ended and must be visible to Stop()
  std::vector<size_t> raise_frames;   // per raise() in progress: number of handler invocations running when it was issued
  auto end_delivery = [&]() {
    Delivery& d = dels[stack.back()];
    d.ended = true;
    // exactly one callback when one registration was complete and none in progress (and alive)
    if (d.began_alive && !d.reg_in_progress_at_begin && !d.any_inprogress_during && d.current_at_begin >= 0 && !dtor_begun && d.callbacks != 1)
      flag("MISSING_CALLBACK", d.at, "delivery of signal " + std::to_string(d.signo) + " at " + d.at + " made " + std::to_string(d.callbacks) + " callbacks with registration " + std::to_string(d.current_at_begin) + " complete");
    if (d.began_alive) must_stop.push_back(stack.back());
    bool began_alive = d.began_alive; std::string at = d.at;
    stack.pop_back();
    // Three interrupts have arrived and every handler has returned to the mainline: the process
    // should have been terminated.  (Which of the nested deliveries calls _exit is not prescribed.)
    if (stack.empty() && began_alive && counted >= 3 && !dtor_begun)
      flag("THIRD_NOT_TERMINATING", at, "control returned to the mainline after " + std::to_string(counted) + " interrupts (last delivered at " + at + ") instead of terminating the process");
  };

  for (size_t ei = 0; ei < rec.history.size(); ++ei) {
    const std::string& e = rec.history[ei];
    if (starts(e, "Y sigh.ctor.after_signal_int")) {
      // handler objects are counted: interrupt handling stays installed as long as one of them exists; a handler object created
      // after the last one is gone is a fresh installation (its constructor clears the stop request and there is no callback yet)
      if (live == 0 && dtor_begun) { dtor_begun = dtor_done = ctor_done = false; current = -1; in_progress = -1; counted = 0; must_stop.clear(); }
      ++live; inst_int = true; alive = true;
    }
    else if (starts(e, "Y sigh.ctor.after_signal_term")) inst_term = true;
    else if (starts(e, "Y sigh.ctor.end")) ctor_done = true;
    else if (starts(e, "Y sigh.dtor.begin")) { if (live > 0) --live; if (live == 0) { dtor_begun = true; alive = false; } }
    else if (starts(e, "Y sigh.dtor.end")) { if (live == 0) dtor_done = true; }
    else if (starts(e, "SIGNAL ")) {
      pending_signo = atoi(e.c_str() + 7);
      size_t p = e.find(" at ");
      pending_at = p == std::string::npos ? "?" : e.substr(p + 4);
      size_t h = pending_at.find('#');
      if (h != std::string::npos) pending_at.resize(h);
      raise_frames.push_back(stack.size());
    }
    else if (starts(e, "Y sigh.handle.enter")) {
      Delivery d;
      d.signo = pending_signo; d.at = pending_at;
      d.began_alive = alive && !dtor_begun;
      d.in_ctor_window = alive && !ctor_done;
      d.counted = d.began_alive;
      d.ordinal = d.counted ? ++counted : 0;
      d.reg_in_progress_at_begin = in_progress >= 0;
      d.current_at_begin = current;
      dels.push_back(d);
      stack.push_back((int)dels.size() - 1);
    }
    else if (starts(e, "Y sigh.handle.exit")) {
      if (!stack.empty()) end_delivery();
    }
    else if (starts(e, "SIGRET ")) {
      // raise() returned to the simulator: every handler invocation that began after this raise has returned, whether or
      // not it passed the exit hook (an early return inside the handler skips it)
      size_t depth = raise_frames.empty() ? 0 : raise_frames.back();
      if (!raise_frames.empty()) raise_frames.pop_back();
      while (stack.size() > depth) end_delivery();
    }
    else if (starts(e, "SETHANDLER_BEGIN ")) {
      int k = atoi(e.c_str() + 17);
      size_t p1 = e.find(' ', 17);
      size_t p2 = e.find(' ', p1 + 1);
      if (k >= 0 && k < 16 && p1 != std::string::npos && p2 != std::string::npos) {
        regs[k].fn = e.substr(p1 + 1, p2 - p1 - 1); regs[k].data = e.substr(p2 + 1); regs[k].valid = true;
      }
      in_progress = k;
      for (int di : stack) dels[di].any_inprogress_during = true;
    }
    else if (starts(e, "SETHANDLER_END ")) { current = atoi(e.c_str() + 15); in_progress = -1; }
    else if (starts(e, "SOLVE_SESSION ")) solving_session = e.substr(14);
    else if (starts(e, "SOLVE_END")) solving_session.clear();
    else if (starts(e, "CALLBACK ")) {
      std::string fn = e.substr(9, 1);
      std::string data = e.size() > 11 ? e.substr(11) : "";
      // a driver that registers the session it solves with: an interrupt during the solve must reach that session
      if (!solving_session.empty() && data != solving_session)
        flag("STALE_SESSION", stack.empty() ? "?" : dels[stack.back()].at, "the solver is solving with session " + solving_session + ", the interrupt callback was invoked with " + data + " (a session that was closed when the options were parsed / by an earlier run)");
      if (!stack.empty()) dels[stack.back()].callbacks++;
      std::string at = stack.empty() ? "?" : dels[stack.back()].at;
      if (dtor_done) flag("CALLBACK_AFTER_DESTROY", at, "callback " + fn + "(" + data + ") invoked after the handler object was destroyed");
      else {
        bool ok = false;
        if (in_progress >= 0) {
          const Pair& nw = regs[in_progress];
          if (fn == nw.fn && data == nw.data) ok = true;
          if (current >= 0 && fn == regs[current].fn && data == regs[current].data) ok = true;
        } else if (current >= 0) {
          ok = fn == regs[current].fn && data == regs[current].data;
        }
        if (!ok) {
          std::string what = in_progress >= 0 ? "during registration " + std::to_string(in_progress) : current >= 0 ? "with registration " + std::to_string(current) + " current" : "with no registration";
          bool mixed = false;
          for (auto& a : regs) for (auto& b : regs) if (a.valid && b.valid && fn == a.fn && data == b.data) mixed = true;
          flag(mixed || data == "null" || data == "foreign" ? "MIXED_PAIR" : "WRONG_CALLBACK", at,
               "callback " + fn + "(" + data + ") " + what + " (signal at " + at + ")");
        }
      }
    }
    else if (starts(e, "STOP_POLL ")) {
      bool st = e[10] == '1';
      if (!dtor_begun && !st) {
        for (int di : must_stop) {
          flag("LOST_SIGNAL", dels[di].at, "Stop() returned false after signal " + std::to_string(dels[di].signo) + " delivered at " + dels[di].at + " had been handled");
          break;
        }
      }
    }
    else if (starts(e, "EXIT ")) {
      exited = true;
      if (!stack.empty()) {
        Delivery& d = dels[stack.back()];
        if (d.began_alive && counted < 3 && !rec.step_budget_exceeded)
          flag("EARLY_EXIT", d.at, "process terminated after only " + std::to_string(counted) + " interrupt(s) (last delivered at " + d.at + ")");
      }
    }
  }
  (void)inst_int; (void)inst_term; (void)exited;
  if (rec.escaped) flag("ESCAPED_EXCEPTION", "run", rec.escaped_what);
  if (rec.step_budget_exceeded) flag("HANG", "run", "step budget exceeded");

  r.nontrivial = rec.signals_delivered > 0;
  r.stats.set("deliveries", (long)dels.size());
  r.stats.set("deliveries_nested", (long)std::count_if(dels.begin(), dels.end(), [](const Delivery& d) { return starts(d.at, "sigh.handle."); }));
  r.stats.set("third_signal_exits", rec.exited && rec.exit_code == 1 ? 1 : 0);
  for (auto& d : dels) {
    if (starts(d.at, "sigh.")) r.stats.set("probe.at." + d.at, r.stats["probe.at." + d.at].as_int(0) + 1);
    else if (starts(d.at, "io.")) r.stats.set("probe.at.io", r.stats["probe.at.io"].as_int(0) + 1);
    else r.stats.set("probe.at.stub", r.stats["probe.at.stub"].as_int(0) + 1);
  }
  // distinct-state measure: (delivery points, signos, registration state at begin, outcome)
  uint64_t t = r.trace_sig;
  for (auto& d : dels) { t = sim::fnv1a(d.at, t); t = sim::fnv1a(&d.signo, sizeof d.signo, t); t = sim::fnv1a(&d.current_at_begin, sizeof(int), t); }
  long pat = sc["pattern"].as_int(0);
  t = sim::fnv1a(&pat, sizeof pat, t);
  r.trace_sig = t;
  if (!viol.empty()) {
    r.verdict = viol;
    r.sig = "C15:" + viol + ":" + key;
    r.detail = detail;
  }
}

sim::Json baseline() { sim::Json sc = base(1, false); sc.set("gen", "baseline"); return sc; }   // generate() runs the driver for its census

Property prop = {"C15", generate, enumerated, judge, nullptr, baseline};
DRVSIM_REGISTER(prop);

}  // namespace
}  // namespace drvsim
