// C19 — names given to the solver are complete, faithful and unique.
#include <map>
#include <set>

#include "harness.h"
#include "scen.h"

namespace drvsim {
namespace {

std::vector<std::string> lines_of(const std::string& s) {
  std::vector<std::string> v;
  size_t p = 0;
  while (p < s.size()) {
    size_t q = s.find('\n', p);
    if (q == std::string::npos) break;   // torn last line is not a name
    std::string l = s.substr(p, q - p);
    if (!l.empty() && l.back() == '\r') l.pop_back();
    v.push_back(l);
    p = q + 1;
  }
  return v;
}

sim::Json generate(const std::string& tier, uint64_t seed, uint64_t index) {
  (void)tier;
  sim::Rng rng(seed, "C19", index);
  gen::GenOptions go;
  go.p_nonlinear = 0.65; go.allow_unsupported = false; go.allow_unbounded = false;
  go.want_names = true; go.max_depth = 3;
  gen::Model m = gen::generate(rng, go);
  for (auto& v : m.vars) if (v.lb > v.ub) v.ub = v.lb;
  const bool long_names = rng.chance(0.12);        // names of hundreds of characters that differ in the last few only (all distinct)
  long names_shape = long_names ? apply_long_names(rng, m, false) : 0;
  sim::Json sc = model_scenario(m, true, rng.chance(0.3));
  if (long_names) sc.set("names_shape", names_shape);
  static const int modes[] = {NAMES_NONE, NAMES_FULL, NAMES_FULL, NAMES_FULL, NAMES_SHORT, NAMES_CRLF, NAMES_COL_ONLY};
  int nm = modes[rng.below(7)];
  add_names_files(sc, m, nm);
  std::vector<std::string> opts;
  int cvt_names = -1;   // not given => 1
  if (rng.chance(0.7)) { cvt_names = (int)rng.below(4); static const char* nn[] = {"cvt:names", "names", "modelnames"}; opts.push_back(std::string(nn[rng.below(3)]) + "=" + std::to_string(cvt_names)); }
  if (rng.chance(0.75)) { auto a = acc_profile(rng); opts.insert(opts.end(), a.begin(), a.end()); }
  if (rng.chance(0.2)) opts.push_back("cvt:pre:all=0");
  // another objective than the first may be the one delivered: it keeps its own name
  long objno = 1;
  if ((int)m.objs.size() >= 2 && rng.chance(0.35)) { objno = rng.range(1, (long)m.objs.size()); static const char* on[] = {"obj:no", "objno"}; opts.push_back(std::string(on[rng.below(2)]) + "=" + std::to_string(objno)); }
  sc.set("objno", objno);
  opts.push_back("sol:chk:mode=0");
  rng.shuffle(opts);
  place_options(rng, sc, opts);
  sc.set("cvt_names", cvt_names < 0 ? 1 : cvt_names);
  sc.ref("script").set("solve_iters", 0);
  return sc;
}

void judge(const sim::Json& sc, const RunRecord& rec, sim::RunResult& r) {
  std::string viol, key, detail;
  auto flag = [&](const std::string& v, const std::string& k, const std::string& d) { if (viol.empty()) { viol = v; key = k; detail = d; } };
  r.nontrivial = true;
  if (rec.escaped) flag("ESCAPED_EXCEPTION", "run", rec.escaped_what);
  const StubModel& sm = rec.stub;
  long n = sc["expect"]["nvars"].as_int(), m = sc["expect"]["ncons"].as_int(), nl = sc["expect"]["nlcons"].as_int(), no = sc["expect"]["nobjs"].as_int();
  int mode = (int)sc["cvt_names"].as_int();
  int nm = (int)sc["names_mode"].as_int();
  std::string cfg = "names" + std::to_string(mode) + ":files" + std::to_string(nm);
  if (!sm.finish_phase) { r.stats.set("not_delivered", 1); r.trace_sig = sim::fnv1a(cfg + "nd", r.trace_sig); if (!viol.empty()) { r.verdict = viol; r.sig = "C19:" + viol + ":" + key; r.detail = detail; } return; }
  std::vector<std::string> col, row;
  { auto it = rec.files_before.find("stub.col"); if (it != rec.files_before.end()) col = lines_of(it->second); }
  { auto it = rec.files_before.find("stub.row"); if (it != rec.files_before.end()) row = lines_of(it->second); }
  bool files_read = !col.empty() || !row.empty();
  bool expect_names = mode >= 2 || (mode == 1 && files_read);
  bool got_names = !sm.vars.empty() && sm.vars[0].has_name;
  if (expect_names && !got_names) flag("NAMES_NOT_DELIVERED", cfg, "names were requested (cvt:names=" + std::to_string(mode) + ", files " + (files_read ? "present" : "absent") + ") but the solver received none");
  if (mode == 0 && got_names) flag("NAMES_DELIVERED_UNASKED", cfg, "cvt:names=0 but the solver received variable names");
  if (got_names) {
    bool use_files = mode <= 2;
    auto oname = [&](const char* gen, const std::vector<std::string>& file, long idx_in_file, long gen_index) {
      if (use_files && idx_in_file < (long)file.size()) return file[(size_t)idx_in_file];
      return std::string(gen) + "[" + std::to_string(gen_index + 1) + "]";
    };
    std::vector<std::string> origs;   // names of all original items
    for (long j = 0; j < n; ++j) origs.push_back(oname("_svar", col, j, j));
    for (long i = 0; i < m; ++i) origs.push_back(oname("_scon", row, i, i));
    for (long k = 0; k < nl; ++k) origs.push_back(oname("_slogcon", row, m + k, k));
    for (long k = 0; k < no; ++k) origs.push_back(oname("_sobj", row, m + nl + k, k));
    // (1) variables: non-empty, unique, originals faithful
    std::map<std::string, int> seen;
    for (size_t j = 0; j < sm.vars.size(); ++j) {
      const std::string& nme = sm.vars[j].name;
      if (nme.empty()) flag("EMPTY_NAME", "var", "variable " + std::to_string(j) + " has an empty name");
      else if (seen.count(nme)) flag("DUPLICATE_NAME", "var", "variables " + std::to_string(seen[nme]) + " and " + std::to_string(j) + " are both named '" + nme + "'");
      seen[nme] = (int)j;
      if ((long)j < n && nme != origs[j]) flag("UNFAITHFUL_NAME", "var", "original variable " + std::to_string(j) + " should be named '" + origs[j] + "', the solver got '" + nme + "'");
    }
    // (2) constraints: non-empty, unique
    std::map<std::string, int> cseen;
    for (auto& c : sm.cons) {
      if (c.name.empty()) flag("EMPTY_NAME", "con:" + short_type(c.type), "constraint " + std::to_string(c.order) + " (" + c.type + ") has an empty name");
      else if (cseen.count(c.name)) {
        const StubCon& o = sm.cons[(size_t)cseen[c.name]];
        std::string ta = short_type(o.type), tb = short_type(c.type);
        if (tb < ta) std::swap(ta, tb);
        flag("DUPLICATE_NAME", "con:" + ta + "+" + tb, "constraints " + std::to_string(o.order) + " (" + o.type.substr(0, 60) + ") and " + std::to_string(c.order) + " (" + c.type.substr(0, 60) + ") are both named '" + c.name + "'");
      }
      cseen[c.name] = c.order;
    }
    // (3) objectives
    for (auto& o : sm.objs) {
      if (o.name.empty()) flag("EMPTY_NAME", "obj", "objective " + std::to_string(o.iobj) + " has an empty name");
      else if (o.iobj == 0 && no >= 1) {
        long k = sc["objno"].as_int(1); if (k < 1 || k > no) k = 1;
        const std::string& want = origs[(size_t)(n + m + nl + k - 1)];
        if (o.name != want) flag("UNFAITHFUL_NAME", k == 1 ? "obj" : "obj:objno", "objective " + std::to_string(k) + " (the one delivered) should be named '" + want + "', the solver got '" + o.name + "'");
      }
    }
    // (4) original linear rows that reach the solver unchanged keep their name; (5) derived items extend a source name
    // SOS sets declared through .sosno/.ref or .sos/.sosref suffixes are modelling items without a name of their own:
    // the generated SOS1_<n>_ / SOS2_<n>_ / SOS2_PL_<n>_ is their name, and what is derived from them extends it
    bool has_sos_suffix = sc["model_has_sos"].as_bool();
    auto derived_ok = [&](const std::string& nme) {
      for (auto& o : origs) if (!o.empty() && nme.compare(0, o.size(), o) == 0) return true;
      if (has_sos_suffix && (nme.compare(0, 5, "SOS1_") == 0 || nme.compare(0, 5, "SOS2_") == 0) && nme.size() > 6) return true;
      return false;
    };
    for (size_t j = (size_t)n; j < sm.vars.size(); ++j)
      if (!sm.vars[j].name.empty() && !derived_ok(sm.vars[j].name)) flag("UNDERIVED_NAME", "var", "auxiliary variable " + std::to_string(j) + " is named '" + sm.vars[j].name + "', which extends no original item's name");
    for (auto& c : sm.cons) {
      // SOS sets declared through .sosno/.ref suffixes are modelling items without a name of their own:
      // the generated SOS1_<n>_ / SOS2_<n>_ is not a derived name
      if (c.type.compare(0, 3, "SOS") == 0 && (c.name.compare(0, 5, "SOS1_") == 0 || c.name.compare(0, 5, "SOS2_") == 0)) continue;
      if (!c.name.empty() && !derived_ok(c.name)) flag("UNDERIVED_NAME", "con:" + short_type(c.type), "constraint " + std::to_string(c.order) + " (" + c.type.substr(0, 60) + ") is named '" + c.name + "', which extends no original item's name");
    }
    r.stats.set("names_checked", 1);
    r.stats.set("aux_vars_named", (long)(sm.vars.size() > (size_t)n ? sm.vars.size() - (size_t)n : 0));
  } else {
    r.stats.set("no_names_expected", 1);
  }
  r.stats.set("cfg." + cfg, 1);
  r.trace_sig = sim::fnv1a(cfg + sc["expect"]["features"].as_str() + std::to_string(sm.cons.size()) + "/" + std::to_string(sm.vars.size()), r.trace_sig);
  if (!viol.empty()) { r.verdict = viol; r.sig = "C19:" + viol + ":" + key; r.detail = detail; }
}

Property prop = {"C19", generate, nullptr, judge, nullptr};
DRVSIM_REGISTER(prop);

}  // namespace
}  // namespace drvsim
