// C20 — the exported reformulation graph is well-formed and complete.
// The JSONL file written on the simulated disk is parsed with a strict JSON parser and
// cross-checked against what the solver stub actually received in the same run.
#include <map>
#include <set>

#include "harness.h"
#include "scen.h"

namespace drvsim {
namespace {

sim::Json generate(const std::string& tier, uint64_t seed, uint64_t index) {
  (void)tier;
  sim::Rng rng(seed, "C20", index);
  gen::GenOptions go;
  go.p_nonlinear = 0.65; go.allow_unsupported = false; go.allow_unbounded = rng.chance(0.4);
  go.want_names = rng.chance(0.6); go.max_depth = 3;
  const bool big = rng.chance(0.012);          // a big model now and then: more than a thousand range rows, each converted on its own
  if (big) go.extra_ranges = 1050 + (int)rng.below(700);
  gen::Model m = gen::generate(rng, go);
  for (auto& v : m.vars) if (v.lb > v.ub) v.ub = v.lb;
  sim::Json sc = model_scenario(m, true, rng.chance(0.3));
  if (go.want_names) add_names_files(sc, m, NAMES_FULL);
  std::vector<std::string> opts;
  if (rng.chance(0.3)) opts.push_back("cvt:names=" + std::to_string(rng.below(4)));
  if (rng.chance(0.75)) { auto a = acc_profile(rng); opts.insert(opts.end(), a.begin(), a.end()); }
  if (rng.chance(0.2)) opts.push_back("cvt:pre:all=0");
  if (big) { opts.push_back("acc:linrange=0"); sc.set("big", true); }
  opts.push_back("sol:chk:mode=0");
  opts.push_back(std::string(rng.chance(0.5) ? "tech:writegraph" : "writegraph") + "=@/graph.jsonl");
  rng.shuffle(opts);
  place_options(rng, sc, opts);
  sc.ref("script").set("solve_iters", 0);
  sc.set("has_names", go.want_names);
  // history: the export file already exists - the complete export of an earlier run (another model), or a leftover without final newline
  if (rng.chance(0.15)) {
    std::string old = "{\"COMMENT\": \"STALE_EXPORT of an earlier run\"}\n{\"VAR_index\": 0, \"bounds\": [0, 7], \"type\": 0, \"is_from_nl\": 1}\n"
                      "{\"VAR_index\": 1, \"bounds\": [0, 8], \"type\": 1, \"is_from_nl\": 1}\n{\"CON_TYPE\": \"_linle\", \"index\": 0, \"depth\": 0, \"data\": {\"body\": {\"coefs\": [1], \"vars\": [0]}, \"rhs_or_range\": [7]}}\n";
    if (rng.chance(0.3)) old += "{\"VAR_index\": 2, \"bou";
    if (rng.chance(0.35)) {      // the name given to the option is a symbolic link to the earlier export ("latest.jsonl -> archive/...")
      sc.ref("files").set("archive-001.jsonl", old);
      sim::Json ln = sim::Json::object(); ln.set("graph.jsonl", "archive-001.jsonl"); sc.set("symlinks", ln);
    } else sc.ref("files").set("graph.jsonl", old);
    sc.set("stale_graph", true);
  }
  return sc;
}

struct Created { int count = 0; int status = 0; std::vector<std::string> data; };

void judge(const sim::Json& sc, const RunRecord& rec, sim::RunResult& r) {
  std::string viol, key, detail;
  auto flag = [&](const std::string& v, const std::string& k, const std::string& d) { if (viol.empty()) { viol = v; key = k; detail = d; } };
  r.nontrivial = true;
  if (rec.escaped) flag("ESCAPED_EXCEPTION", "run", rec.escaped_what);
  const StubModel& sm = rec.stub;
  long n = sc["expect"]["nvars"].as_int(), m = sc["expect"]["ncons"].as_int(), nl = sc["expect"]["nlcons"].as_int(), no = sc["expect"]["nobjs"].as_int();
  bool delivered = sm.finish_phase;
  std::string cfg = std::string(sc["has_names"].as_bool() ? "names" : "nonames") + (delivered ? ":delivered" : ":refused");
  auto git = rec.files_after.find("graph.jsonl");
  if (git == rec.files_after.end()) {
    if (delivered) flag("NO_GRAPH_FILE", cfg, "a model was converted and delivered but no graph file was written");
    r.stats.set("no_graph", 1);
  } else {
    const std::string& text = git->second;
    if (sc["stale_graph"].as_bool()) {
      r.stats.set("stale_graph_file_present", 1);
      if (text.find("STALE_EXPORT") != std::string::npos && delivered) flag("STALE_CONTENT", cfg, "the export file existed before the run: it still holds the records of the earlier export (" + std::to_string(text.size()) + " bytes, begins: " + text.substr(0, 80) + ")");
    }
    std::vector<sim::Json> recs;
    size_t p = 0; int lineno = 0;
    bool all_valid = true;
    while (p < text.size()) {
      size_t q = text.find('\n', p);
      bool torn = q == std::string::npos;
      std::string line = text.substr(p, torn ? std::string::npos : q - p);
      p = torn ? text.size() : q + 1;
      ++lineno;
      if (line.empty()) continue;
      bool ok = false; std::string err;
      sim::Json j = sim::Json::parse(line, &ok, &err);
      if (!ok || !j.is_obj()) {
        all_valid = false;
        std::string what = !ok ? err : "not an object";
        std::string cls = line.find("inf") != std::string::npos || line.find("nan") != std::string::npos ? "nonfinite-number" :
                          err.find("control character") != std::string::npos ? "unescaped-control-char" : "unescaped-string";
        flag("INVALID_JSON_LINE", cls, "line " + std::to_string(lineno) + ": " + what + ": " + line.substr(0, 240));
        continue;
      }
      if (torn && delivered) flag("TORN_LAST_LINE", cfg, "last line not newline-terminated");
      recs.push_back(j);
    }
    r.stats.set("graph_lines", (long)lineno);
    if (all_valid && delivered) {
      // ---- index the records
      std::set<long> nlvars, vars, nlobjs, objs;
      std::set<long> nlcons, nlcommons;
      std::map<std::string, Created> created;          // CON_TYPE -> creation info
      std::map<std::string, std::map<long, std::vector<sim::Json>>> status;   // CON_TYPE -> index -> status records
      std::vector<sim::Json> links;
      for (auto& j : recs) {
        if (j.has("VAR_index")) { long i = j["VAR_index"].as_int(); vars.insert(i); if (j["is_from_nl"].as_int()) nlvars.insert(i); }
        else if (j.has("NL_OBJECTIVE_index")) nlobjs.insert(j["NL_OBJECTIVE_index"].as_int());
        else if (j.has("OBJECTIVE_index")) objs.insert(j["OBJECTIVE_index"].as_int());
        else if (j.has("NL_CON_TYPE")) nlcons.insert(j["index"].as_int());
        else if (j.has("NL_COMMON_EXPR_index")) nlcommons.insert(j["NL_COMMON_EXPR_index"].as_int());
        else if (j.has("CON_TYPE")) {
          std::string t = j["CON_TYPE"].as_str(); long i = j["index"].as_int();
          if (j.has("final")) status[t][i].push_back(j);
          else if (j.has("data")) {
            Created& c = created[t];
            if (i != c.count) flag("CON_INDEX_GAP", t, "constraint records of type " + t + ": index " + std::to_string(i) + " follows " + std::to_string(c.count - 1));
            c.count = (int)std::max<long>(c.count, i + 1);
            sim::Json d = sim::Json::object(); d.set("data", j["data"]);
            c.data.resize((size_t)c.count); c.data[(size_t)i] = d.dump();
          }
        }
        else if (j.has("link_index")) links.push_back(j);
      }
      // ---- completeness of NL items and delivered items
      for (long j = 0; j < n; ++j) if (!nlvars.count(j)) flag("MISSING_NL_ITEM", "var", "NL variable " + std::to_string(j) + " has no record marked is_from_nl");
      for (long i = 0; i < m + nl; ++i) if (!nlcons.count(i)) flag("MISSING_NL_ITEM", "con", "NL constraint " + std::to_string(i) + " has no NL_CON_TYPE record");
      if (no > 0 && nlobjs.empty()) flag("MISSING_NL_ITEM", "obj", "no NL_OBJECTIVE record although the file has objectives");
      // defined variables (common expressions) are items of the NL model too, whether or not anything refers to them
      for (long i = 0; i < sc["expect"]["ncommons"].as_int(0); ++i) if (!nlcommons.count(i)) flag("MISSING_NL_ITEM", "defvar", "defined variable " + std::to_string(i) + " of the NL file has no NL_COMMON_EXPR record");
      for (size_t j = 0; j < sm.vars.size(); ++j) if (!vars.count((long)j)) flag("MISSING_DELIVERED_ITEM", "var", "delivered variable " + std::to_string(j) + " has no VAR_index record");
      if (vars.size() != sm.vars.size()) flag("VAR_COUNT_MISMATCH", cfg, std::to_string(vars.size()) + " variables in the graph file, " + std::to_string(sm.vars.size()) + " delivered");
      for (auto& o : sm.objs) if (!objs.count(o.iobj)) flag("MISSING_DELIVERED_ITEM", "obj", "delivered objective " + std::to_string(o.iobj) + " has no OBJECTIVE_index record");
      // ---- exactly one status record per stored constraint, with exactly one state
      std::multiset<std::string> final_data;
      long nfinal = 0;
      for (auto& kv : created) {
        for (long i = 0; i < kv.second.count; ++i) {
          auto& sv = status[kv.first][i];
          if (sv.size() != 1) { flag(sv.empty() ? "MISSING_STATUS_RECORD" : "DUPLICATE_STATUS_RECORD", kv.first, "constraint " + kv.first + "[" + std::to_string(i) + "] has " + std::to_string(sv.size()) + " final status records"); continue; }
          long fin = sv[0]["final"].as_int(), br = sv[0]["bridged"].as_int(), un = sv[0]["unused"].as_int();
          if (!((fin == 1 && br == 0 && un == 0) || (fin == 0 && (br == 1 || un == 1))))
            flag("INCONSISTENT_STATUS", kv.first, "constraint " + kv.first + "[" + std::to_string(i) + "] has final=" + std::to_string(fin) + " bridged=" + std::to_string(br) + " unused=" + std::to_string(un));
          if (fin == 1) { ++nfinal; final_data.insert(kv.second.data[(size_t)i]); }
        }
      }
      for (auto& kv : status) for (auto& iv : kv.second)
        if (!created.count(kv.first) || iv.first >= created[kv.first].count) flag("STATUS_WITHOUT_CONSTRAINT", kv.first, "status record for " + kv.first + "[" + std::to_string(iv.first) + "] which has no creation record");
      // ---- delivered set == final set (by content)
      std::multiset<std::string> got;
      for (auto& c : sm.cons) { bool ok = false; sim::Json j = sim::Json::parse(c.json, &ok); got.insert(ok ? j.dump() : c.json); }
      if (nfinal != (long)sm.cons.size()) flag("FINAL_COUNT_MISMATCH", cfg, std::to_string(nfinal) + " constraints marked final, " + std::to_string(sm.cons.size()) + " handed to the solver");
      else if (final_data != got) {
        std::string ex;
        for (auto& d : got) if (!final_data.count(d)) { ex = d; break; }
        flag("FINAL_SET_MISMATCH", cfg, "a constraint handed to the solver is not among those marked final: " + ex.substr(0, 200));
      }
      // ---- links refer to existing items within range
      auto class_size = [&](const std::string& nm) -> long {
        if (nm == "src_vars()") return n;
        if (nm == "src_cons()") return m + nl;
        if (nm == "src_objs()") return std::max<long>(no, (long)nlobjs.size());
        if (nm == "dest_vars()") return (long)vars.size();
        if (nm == "dest_objs()") return (long)std::max(objs.size(), sm.objs.size());
        if (nm.compare(0, 9, "dest_cons") == 0) return 1L << 30;   // per-group target rows: sized by the solver side
        auto it = created.find(nm);
        return it == created.end() ? -1 : it->second.count;
      };
      for (auto& l : links) {
        for (const char* side : {"src_nodes", "dest_nodes"}) {
          if (!l[side].is_arr()) { flag("BAD_LINK_RECORD", "shape", std::string(side) + " missing: " + l.dump().substr(0, 200)); continue; }
          for (auto& nd : l[side].arr()) {
            if (!nd.is_obj() || nd.obj().size() != 1) { flag("BAD_LINK_RECORD", "shape", "node is not a one-key object: " + l.dump().substr(0, 200)); continue; }
            const std::string& nm = nd.obj()[0].first;
            const sim::Json& ix = nd.obj()[0].second;
            long sz = class_size(nm);
            if (sz < 0) { flag("DANGLING_LINK", nm, "link refers to unknown item class '" + nm + "': " + l.dump().substr(0, 200)); continue; }
            long lo, hi;
            if (ix.is_num()) lo = hi = ix.as_int();
            else if (ix.is_arr() && ix.size() == 2) { lo = ix[(size_t)0].as_int(); hi = ix[(size_t)1].as_int(); }
            else { flag("BAD_LINK_RECORD", "index", "bad index in " + l.dump().substr(0, 200)); continue; }
            if (lo < 0 || hi < lo || hi >= sz) flag("LINK_INDEX_OUT_OF_RANGE", nm, "link refers to " + nm + "[" + std::to_string(lo) + ".." + std::to_string(hi) + "] but the class has " + std::to_string(sz) + " items: " + l.dump().substr(0, 160));
          }
        }
      }
      // ---- every auxiliary variable and every derived constraint came from somewhere: it is the destination of a link record
      {
        std::vector<char> cov(vars.size(), 0);
        std::map<std::string, std::vector<char>> ccov;
        for (auto& l : links) if (l["dest_nodes"].is_arr()) for (auto& nd : l["dest_nodes"].arr()) {
          if (!nd.is_obj() || nd.obj().size() != 1) continue;
          const std::string& nm = nd.obj()[0].first; const sim::Json& ix = nd.obj()[0].second;
          long lo, hi;
          if (ix.is_num()) lo = hi = ix.as_int(); else if (ix.is_arr() && ix.size() == 2) { lo = ix[(size_t)0].as_int(); hi = ix[(size_t)1].as_int(); } else continue;
          std::vector<char>* tv = nullptr;
          if (nm == "dest_vars()") tv = &cov; else if (created.count(nm)) { tv = &ccov[nm]; tv->resize((size_t)created[nm].count, 0); }
          if (tv) for (long q = std::max(0L, lo); q <= hi && q < (long)tv->size(); ++q) (*tv)[(size_t)q] = 1;
        }
        long unl = 0, first = -1;
        for (long j = n; j < (long)cov.size(); ++j) if (!cov[(size_t)j]) { if (first < 0) first = j; ++unl; }
        // (the statement asks link records to be valid, not to exist for every derived item: on the pinned tree the two auxiliary
        //  variables of a QP objective moved into a rotated cone have names derived through a link that the export does not show.
        //  Counted, not raised.)
        (void)first;
        if (unl) { r.stats.set("probe.aux_vars_without_link_record", unl); r.stats.set("probe.runs_with_unlinked_aux_vars", 1); }
        if (sc["big"].as_bool()) r.stats.set("big_models", 1);
      }
      r.stats.set("graphs_checked", 1);
      r.stats.set("link_records", (long)links.size());
      std::set<std::string> lt;
      for (auto& l : links) lt.insert(l["link_type"].as_str());
      for (auto& t : lt) r.stats.set("linktype." + t, 1);
    }
  }
  r.trace_sig = sim::fnv1a(cfg + sc["expect"]["features"].as_str() + std::to_string(sm.cons.size()) + "/" + std::to_string(sm.vars.size()), r.trace_sig);
  if (!viol.empty()) { r.verdict = viol; r.sig = "C20:" + viol + ":" + key; r.detail = detail; }
}

Property prop = {"C20", generate, nullptr, judge, nullptr};
DRVSIM_REGISTER(prop);

}  // namespace
}  // namespace drvsim
