#include "scen.h"

namespace drvsim {

const std::vector<std::string> kAccOptions = {
  "acc:abs", "acc:acos", "acc:acosh", "acc:alldiff", "acc:and", "acc:asin", "acc:asinh", "acc:atan", "acc:atanh",
  "acc:compl", "acc:complquad", "acc:condlineq", "acc:condlinge", "acc:condlingt", "acc:condlinle", "acc:condlinlt",
  "acc:condquadeq", "acc:condquadge", "acc:condquadgt", "acc:condquadle", "acc:condquadlt", "acc:cos", "acc:cosh",
  "acc:count", "acc:div", "acc:exp", "acc:expa", "acc:ifthen", "acc:impl", "acc:indeq", "acc:indge", "acc:indle",
  "acc:indquadeq", "acc:indquadge", "acc:indquadle", "acc:linfunccon",
  "acc:linrange", "acc:log", "acc:loga", "acc:max", "acc:min", "acc:not", "acc:numberofconst", "acc:numberofvar",
  "acc:or", "acc:pl", "acc:pow", "acc:quadeq", "acc:quadfunccon", "acc:quadge", "acc:quadle", "acc:quadrange",
  "acc:sin", "acc:sinh", "acc:sos1", "acc:sos2", "acc:tan", "acc:tanh",
  "acc:quadcone", "acc:rotatedquadcone", "acc:expcone"};

sim::Json model_scenario(const gen::Model& m, bool ampl_flag, bool binary) {
  sim::Json sc = base_scenario(gen::emit_nl(m, binary), ampl_flag);
  sc.set("nl_binary", binary);
  bool has_sos = false;
  for (auto& sf : m.suffixes) if (sf.name == "sosno" || sf.name == "sos") has_sos = true;
  sc.set("model_has_sos", has_sos);
  sim::Json ex = sim::Json::object();
  ex.set("nvars", m.nvars());
  ex.set("ncons", (long)m.cons.size());
  ex.set("nlcons", (long)m.lcons.size());
  ex.set("nobjs", (long)m.objs.size());
  ex.set("ncommons", (long)m.commons.size());
  ex.set("linear_clean", m.linear_clean);
  ex.set("unsupported", m.uses_unsupported);
  ex.set("all_bounded", m.all_bounded);
  ex.set("features", m.features);
  sc.set("expect", ex);
  sc.set("model", gen::describe(m));
  return sc;
}

// names the way long string subscripts make them: hundreds of characters, equal up to the last few; the same name on several
// items (a malformed or hand-edited names file).  Returns shape * 10000 + length.
long apply_long_names(sim::Rng& rng, gen::Model& m, bool allow_duplicates) {
  static const int lens[] = {40, 120, 250, 251, 254, 255, 256, 300, 1000, 5000};
  int shape = allow_duplicates ? (int)rng.below(3) : 2 * (int)rng.below(2), L = lens[rng.below(10)];
  char fill = "kQ_"[rng.below(3)];
  auto rename = [&](std::string& nmv, const char* base, int i) {
    if (shape == 0) nmv = std::string(base) + "['" + std::string(L, fill) + "'," + std::to_string(i + 1) + "]";
    else if (shape == 1) nmv = std::string(base) + "['" + std::string(i % 2 ? L : 3, fill) + "']";                    // duplicates, long and short
    else nmv = std::string(base) + "[" + std::to_string(i + 1) + ",'" + std::string(L, fill) + "']";
  };
  for (int j = 0; j < m.nvars(); ++j) rename(m.vars[j].name, "Flow", j);
  for (int i = 0; i < (int)m.cons.size(); ++i) rename(m.cons[i].name, rng.chance(0.5) ? "Flow" : "Bal", i);
  for (int i = 0; i < (int)m.lcons.size(); ++i) rename(m.lcons[i].name, "Log", i);
  return (long)shape * 10000 + L;
}

void add_names_files(sim::Json& sc, const gen::Model& m, int mode) {
  sc.set("names_mode", mode);
  if (mode == NAMES_NONE) return;
  std::string col = gen::emit_col(m), row = gen::emit_row(m);
  auto crlf = [](const std::string& s) { std::string o; for (char ch : s) { if (ch == '\n') o += '\r'; o += ch; } return o; };
  auto drop_last_lines = [](const std::string& s, int n) {
    std::string o = s;
    for (int i = 0; i < n && !o.empty(); ++i) {
      size_t p = o.rfind('\n', o.size() - 2);
      o = p == std::string::npos ? std::string() : o.substr(0, p + 1);
    }
    return o;
  };
  switch (mode) {
    case NAMES_FULL: break;
    case NAMES_SHORT: col = drop_last_lines(col, 1); row = drop_last_lines(row, 2); break;
    case NAMES_CRLF: col = crlf(col); row = crlf(row); break;
    case NAMES_TORN: if (col.size() > 3) col.resize(col.size() - 3); if (row.size() > 2) row.resize(row.size() - 2); break;
    case NAMES_EMPTY_FIRST: col = "\n" + col; break;
    case NAMES_COL_ONLY: row.clear(); break;
  }
  if (!col.empty() || mode == NAMES_TORN) sc.ref("files").set("stub.col", col);
  if (!row.empty()) sc.ref("files").set("stub.row", row);
}

std::vector<std::string> acc_profile(sim::Rng& rng) {
  std::vector<std::string> out;
  int kind = (int)rng.below(6);
  auto off = [&](const std::string& o) { out.push_back(o + "=" + (rng.chance(0.85) ? "0" : "1")); };
  switch (kind) {
    case 0: break;   // everything native
    case 1:          // MIP-like solver: only linear + indicators + SOS + PL stay native
      for (auto& o : kAccOptions) {
        if (o.find("lin") != std::string::npos && o.find("cond") == std::string::npos && o != "acc:linfunccon") continue;
        if (o.compare(0, 7, "acc:ind") == 0 || o.compare(0, 7, "acc:sos") == 0 || o == "acc:pl") continue;
        out.push_back(o + "=0");
      }
      break;
    case 2:          // pure LP/MIP: nothing but linear rows
      for (auto& o : kAccOptions) {
        out.push_back(o + "=0");
      }
      break;
    case 3: { int n = (int)rng.range(1, 8); for (int i = 0; i < n; ++i) off(kAccOptions[rng.below(kAccOptions.size())]); break; }
    case 4: out.push_back("acc:linrange=0"); if (rng.chance(0.5)) out.push_back("acc:quadrange=0"); break;
    default: { int n = (int)rng.range(10, 30); for (int i = 0; i < n; ++i) off(kAccOptions[rng.below(kAccOptions.size())]); break; }
  }
  // cone recognition modes (converter options, not acceptance levels)
  if (rng.chance(0.15)) out.push_back("cvt:socp=" + std::to_string(rng.below(3)));
  if (rng.chance(0.10)) out.push_back("cvt:socp2qc=" + std::to_string(rng.below(3)));
  if (rng.chance(0.08)) out.push_back("cvt:expcones=" + std::to_string(rng.below(2)));
  // remove duplicates (keep the first)
  std::vector<std::string> uniq;
  for (auto& s : out) {
    std::string name = s.substr(0, s.find('='));
    bool dup = false;
    for (auto& u : uniq) if (u.substr(0, u.find('=')) == name) dup = true;
    if (!dup) uniq.push_back(s);
  }
  return uniq;
}

void place_options(sim::Rng& rng, sim::Json& sc, const std::vector<std::string>& opts) {
  std::string mp, drv;
  for (auto& o : opts) {
    int where = (int)rng.below(3);
    if (where == 0) { if (!mp.empty()) mp += ' '; mp += o; }
    else if (where == 1) { if (!drv.empty()) drv += ' '; drv += o; }
    else sc.ref("argv").push(o);
  }
  if (!mp.empty()) sc.ref("env").set("mp_options", mp);
  if (!drv.empty()) sc.ref("env").set("simdrv_options", drv);
}

}  // namespace drvsim
