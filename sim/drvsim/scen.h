// Scenario construction shared by the model-based drvsim properties (C09 C12 C04 C19 C20).
#pragma once
#include <string>
#include <vector>

#include "../core/json.h"
#include "../core/prng.h"
#include "../gen/model.h"
#include "common.h"

namespace drvsim {

// acc:* options that exist in the simulated driver (all convertible, natively accepted types)
extern const std::vector<std::string> kAccOptions;

// Base scenario for a generated model: files{stub.nl}, argv, expect{nvars,ncons,nobjs,...}
sim::Json model_scenario(const gen::Model& m, bool ampl_flag, bool binary = false);   // binary: little-endian binary NL encoding of the same model

long apply_long_names(sim::Rng& rng, gen::Model& m, bool allow_duplicates = true);
enum NamesMode { NAMES_NONE = 0, NAMES_FULL, NAMES_SHORT, NAMES_CRLF, NAMES_TORN, NAMES_EMPTY_FIRST, NAMES_COL_ONLY, NAMES_MODES };
// Adds stub.col / stub.row in the given shape; records "names_mode" in the scenario.
void add_names_files(sim::Json& sc, const gen::Model& m, int mode);

// Picks an acceptance profile: returns option strings like "acc:abs=0"
std::vector<std::string> acc_profile(sim::Rng& rng);

// Distribute option assignments over mp_options / simdrv_options / argv (later sources override earlier ones,
// so each option appears in exactly one source).
void place_options(sim::Rng& rng, sim::Json& sc, const std::vector<std::string>& opts);

}  // namespace drvsim
