// SimModelAPI: the simulated solver's model-input side.  Accepts every flat constraint
// type at compile time (run-time acceptance is varied per scenario with the driver's own
// acc:* options) and records everything it is given into a StubModel.
#pragma once
#include <memory>
#include <string>
#include <vector>

#include "mp/env.h"
#include "mp/backend-to-model-api.h"
#include "mp/flat/model_api_base.h"
#include "mp/flat/constr_std.h"
#include "mp/util-json-write.hpp"

#include "../core/sim.h"

namespace drvsim {

struct StubVar { double lb, ub; int type; std::string name; bool has_name; };
struct StubTerm { int var; double coef; };
struct StubQTerm { int v1, v2; double coef; };
struct StubCon {
  std::string type;       // C++ type name as reported by GetTypeName()
  int group = 0;          // constraint group (value index space)
  int idx_in_group = 0;
  int order = 0;          // global delivery order
  std::string name;
  bool is_alg = false;    // algebraic: lin/quad terms + [lb, ub] recorded below
  std::vector<StubTerm> lin;
  std::vector<StubQTerm> quad;
  double lb = 0, ub = 0;
  int kind = 0;           // -100 range, -1 LE, 0 EQ, 1 GE
  int result_var = -1;
  std::string json;       // generic serialisation (mp's own JSON writer)
};
struct StubObj {
  int iobj = 0; int sense = 0; std::string name;
  std::vector<StubTerm> lin; std::vector<StubQTerm> quad; bool quadratic = false;
};
struct StubModel {
  std::vector<StubVar> vars;
  std::vector<StubCon> cons;
  std::vector<StubObj> objs;
  std::map<int, int> group_count;
  int add_vars_calls = 0;
  bool init_phase = false, finish_phase = false;
  std::vector<std::string> calls;   // solver-side call log (backend stub appends too)
  void clear() { *this = StubModel(); }
  int n_in_group(int gr) const { auto it = group_count.find(gr); return it == group_count.end() ? 0 : it->second; }
};

/// Information shared by the backend stub and the model API stub
struct SimCommonInfo {
  StubModel* model() const { return model_; }
  void set_model(StubModel* m) { model_ = m; }
 private:
  StubModel* model_ = nullptr;
};

class SimCommon : public mp::Backend2ModelAPIConnector<SimCommonInfo> {
 public:
  static constexpr double Infinity() { return INFINITY; }
  static constexpr double MinusInfinity() { return -INFINITY; }
};

class SimModelAPI : public SimCommon, public mp::EnvKeeper, public mp::BasicFlatModelAPI {
  using BaseModelAPI = mp::BasicFlatModelAPI;

 public:
  SimModelAPI(mp::Env& e) : mp::EnvKeeper(e) {}
  static const char* GetTypeName() { return "SimModelAPI"; }
  void InitCustomOptions() {}

  void InitProblemModificationPhase(const mp::FlatModelInfo*) {
    sim::g.yield("stub", "stub.InitProblemModificationPhase");
    model()->init_phase = true;
  }
  void FinishProblemModificationPhase() {
    sim::g.yield("stub", "stub.FinishProblemModificationPhase");
    model()->finish_phase = true;
  }

  void AddVariables(const mp::VarArrayDef& v) {
    sim::g.yield("stub", "stub.AddVariables");
    auto* m = model();
    ++m->add_vars_calls;
    for (int i = 0; i < v.size(); ++i) {
      StubVar sv;
      sv.lb = v.plb()[i]; sv.ub = v.pub()[i]; sv.type = (int)v.ptype()[i];
      sv.has_name = v.pnames() != nullptr;
      if (sv.has_name && v.pnames()[i]) sv.name = v.pnames()[i];
      m->vars.push_back(sv);
    }
  }

  static void CopyLin(std::vector<StubTerm>& out, const mp::LinTerms& lt) {
    for (size_t i = 0; i < lt.size(); ++i) out.push_back({lt.var(i), lt.coef(i)});
  }
  static void CopyQuad(std::vector<StubQTerm>& out, const mp::QuadTerms& qt) {
    for (int i = 0; i < qt.size(); ++i) out.push_back({qt.var1(i), qt.var2(i), qt.coef(i)});
  }

  void SetLinearObjective(int iobj, const mp::LinearObjective& lo) {
    sim::g.yield("stub", "stub.SetLinearObjective");
    StubObj o; o.iobj = iobj; o.sense = (int)lo.obj_sense(); o.name = lo.name();
    CopyLin(o.lin, lo.GetLinTerms());
    model()->objs.push_back(o);
  }
  static int AcceptsQuadObj() { return 2; }
  void SetQuadraticObjective(int iobj, const mp::QuadraticObjective& qo) {
    sim::g.yield("stub", "stub.SetQuadraticObjective");
    StubObj o; o.iobj = iobj; o.sense = (int)qo.obj_sense(); o.name = qo.name();
    o.quadratic = true;
    CopyLin(o.lin, qo.GetLinTerms());
    CopyQuad(o.quad, qo.GetQPTerms());
    model()->objs.push_back(o);
  }

  //////////////////////////// CONSTRAINTS ////////////////////////////
  USE_BASE_CONSTRAINT_HANDLERS(BaseModelAPI)

  static constexpr bool AcceptsNonconvexQC() { return true; }
  static constexpr bool CanMixConicQCAndQC() { return true; }
  static constexpr bool CanSOCPCornerCasesFromQC() { return false; }

  // Record any constraint generically
  template <class Con>
  StubCon& Record(const Con& c, int group) {
    auto* m = model();
    StubCon sc;
    sc.type = Con::GetTypeName();
    sc.group = group;
    sc.idx_in_group = m->group_count[group]++;
    sc.order = (int)m->cons.size();
    sc.name = c.name();
    sc.result_var = c.GetResultVar();
    {
      fmt::MemoryWriter wrt;
      { mp::MiniJSONWriter<fmt::MemoryWriter> jw(wrt); WriteJSON(jw["data"], c); }
      sc.json = wrt.str();
    }
    m->cons.push_back(std::move(sc));
    return m->cons.back();
  }
  template <class Body, class RR>
  void FillAlg(StubCon& sc, const mp::AlgebraicConstraint<Body, RR>& c) {
    sc.is_alg = true;
    sc.lb = c.lb(); sc.ub = c.ub(); sc.kind = c.kind();
    CopyLin(sc.lin, c.GetBody().GetLinTerms());
    FillQuad(sc, c.GetBody());
  }
  static void FillQuad(StubCon&, const mp::LinTerms&) {}
  static void FillQuad(StubCon& sc, const mp::QuadAndLinTerms& b) { CopyQuad(sc.quad, b.GetQPTerms()); }

#define SIM_ACCEPT_ALG(Type, grp) \
  ACCEPT_CONSTRAINT(Type, mp::Recommended, grp) \
  void AddConstraint(const Type& c) { \
    sim::g.yield("stub", "stub.AddConstraint"); \
    FillAlg(Record(c, grp), c); }
#define SIM_ACCEPT(Type, grp) \
  ACCEPT_CONSTRAINT(Type, mp::Recommended, grp) \
  void AddConstraint(const Type& c) { \
    sim::g.yield("stub", "stub.AddConstraint"); \
    Record(c, grp); }

  SIM_ACCEPT_ALG(mp::LinConRange, mp::CG_Linear)
  SIM_ACCEPT_ALG(mp::LinConLE, mp::CG_Linear)
  SIM_ACCEPT_ALG(mp::LinConEQ, mp::CG_Linear)
  SIM_ACCEPT_ALG(mp::LinConGE, mp::CG_Linear)
  SIM_ACCEPT_ALG(mp::QuadConRange, mp::CG_Quadratic)
  SIM_ACCEPT_ALG(mp::QuadConLE, mp::CG_Quadratic)
  SIM_ACCEPT_ALG(mp::QuadConEQ, mp::CG_Quadratic)
  SIM_ACCEPT_ALG(mp::QuadConGE, mp::CG_Quadratic)

  SIM_ACCEPT(mp::LinearFunctionalConstraint, mp::CG_General)
  SIM_ACCEPT(mp::QuadraticFunctionalConstraint, mp::CG_General)
  SIM_ACCEPT(mp::MaxConstraint, mp::CG_General)
  SIM_ACCEPT(mp::MinConstraint, mp::CG_General)
  SIM_ACCEPT(mp::AbsConstraint, mp::CG_General)
  SIM_ACCEPT(mp::AndConstraint, mp::CG_General)
  SIM_ACCEPT(mp::OrConstraint, mp::CG_General)
  SIM_ACCEPT(mp::CondLinConEQ, mp::CG_General)
  SIM_ACCEPT(mp::CondLinConLE, mp::CG_General)
  SIM_ACCEPT(mp::CondLinConLT, mp::CG_General)
  SIM_ACCEPT(mp::CondLinConGE, mp::CG_General)
  SIM_ACCEPT(mp::CondLinConGT, mp::CG_General)
  SIM_ACCEPT(mp::CondQuadConEQ, mp::CG_General)
  SIM_ACCEPT(mp::CondQuadConLE, mp::CG_General)
  SIM_ACCEPT(mp::CondQuadConLT, mp::CG_General)
  SIM_ACCEPT(mp::CondQuadConGE, mp::CG_General)
  SIM_ACCEPT(mp::CondQuadConGT, mp::CG_General)
  SIM_ACCEPT(mp::NotConstraint, mp::CG_General)
  SIM_ACCEPT(mp::DivConstraint, mp::CG_General)
  SIM_ACCEPT(mp::IfThenConstraint, mp::CG_General)
  SIM_ACCEPT(mp::ImplicationConstraint, mp::CG_General)
  SIM_ACCEPT(mp::AllDiffConstraint, mp::CG_General)
  SIM_ACCEPT(mp::NumberofConstConstraint, mp::CG_General)
  SIM_ACCEPT(mp::NumberofVarConstraint, mp::CG_General)
  SIM_ACCEPT(mp::CountConstraint, mp::CG_General)
  SIM_ACCEPT(mp::ExpConstraint, mp::CG_General)
  SIM_ACCEPT(mp::ExpAConstraint, mp::CG_General)
  SIM_ACCEPT(mp::LogConstraint, mp::CG_General)
  SIM_ACCEPT(mp::LogAConstraint, mp::CG_General)
  SIM_ACCEPT(mp::PowConstraint, mp::CG_General)
  SIM_ACCEPT(mp::SinConstraint, mp::CG_General)
  SIM_ACCEPT(mp::CosConstraint, mp::CG_General)
  SIM_ACCEPT(mp::TanConstraint, mp::CG_General)
  SIM_ACCEPT(mp::AsinConstraint, mp::CG_General)
  SIM_ACCEPT(mp::AcosConstraint, mp::CG_General)
  SIM_ACCEPT(mp::AtanConstraint, mp::CG_General)
  SIM_ACCEPT(mp::SinhConstraint, mp::CG_General)
  SIM_ACCEPT(mp::CoshConstraint, mp::CG_General)
  SIM_ACCEPT(mp::TanhConstraint, mp::CG_General)
  SIM_ACCEPT(mp::AsinhConstraint, mp::CG_General)
  SIM_ACCEPT(mp::AcoshConstraint, mp::CG_General)
  SIM_ACCEPT(mp::AtanhConstraint, mp::CG_General)
  SIM_ACCEPT(mp::IndicatorConstraintLinLE, mp::CG_General)
  SIM_ACCEPT(mp::IndicatorConstraintLinEQ, mp::CG_General)
  SIM_ACCEPT(mp::IndicatorConstraintLinGE, mp::CG_General)
  SIM_ACCEPT(mp::IndicatorConstraintQuadLE, mp::CG_General)
  SIM_ACCEPT(mp::IndicatorConstraintQuadEQ, mp::CG_General)
  SIM_ACCEPT(mp::IndicatorConstraintQuadGE, mp::CG_General)
  SIM_ACCEPT(mp::PLConstraint, mp::CG_Piecewiselinear)
  SIM_ACCEPT(mp::SOS1Constraint, mp::CG_SOS)
  SIM_ACCEPT(mp::SOS2Constraint, mp::CG_SOS)
  SIM_ACCEPT(mp::ComplementarityLinear, mp::CG_General)
  SIM_ACCEPT(mp::ComplementarityQuadratic, mp::CG_General)
  SIM_ACCEPT(mp::QuadraticConeConstraint, mp::CG_Conic)
  SIM_ACCEPT(mp::RotatedQuadraticConeConstraint, mp::CG_Conic)
  SIM_ACCEPT(mp::PowerConeConstraint, mp::CG_Conic)
  SIM_ACCEPT(mp::ExponentialConeConstraint, mp::CG_Conic)
  SIM_ACCEPT(mp::GeometricConeConstraint, mp::CG_Conic)
};

}  // namespace drvsim
