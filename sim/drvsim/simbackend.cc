#include "simbackend.h"

#include <cmath>
#include <sstream>

namespace mp {
std::unique_ptr<BasicModelManager>
CreateSimModelMgr(drvsim::SimCommon&, Env&, pre::BasicValuePresolver*&);
}

namespace drvsim {

sim::Json g_script;
StubModel g_stub;
int g_reg_cells[16] = {0, 1, 2, 3, 4, 5, 6, 7, 8, 9, 10, 11, 12, 13, 14, 15};

std::string describe_cb_data(void* data) {
  if (!data) return "null";
  char* p = (char*)data;
  char* b = (char*)g_reg_cells;
  if (p >= b && p < b + sizeof g_reg_cells && (p - b) % sizeof(int) == 0)
    return "cell" + std::to_string((p - b) / sizeof(int));
  return "foreign";
}
// What the callback answers ("false if the solver is not running", solver-base.h) is the solver party's business: the
// scenario scripts it (script.cb_answers, e.g. "TFT", cycled over the invocations of a run; default: always true).
int g_cb_calls = 0;
bool cb_answer() {
  std::string pat = g_script["cb_answers"].as_str();
  int k = g_cb_calls++;
  return pat.empty() ? true : pat[(size_t)k % pat.size()] != 'F';
}
bool cbA(void* data) { sim::g.event("CALLBACK A " + describe_cb_data(data)); return cb_answer(); }
bool cbB(void* data) { sim::g.event("CALLBACK B " + describe_cb_data(data)); return cb_answer(); }

std::unique_ptr<mp::BasicBackend> CreateSimBackend() {
  return std::unique_ptr<mp::BasicBackend>{new SimBackend()};
}

SimBackend::SimBackend() {
  set_model(&g_stub);
  mp::pre::BasicValuePresolver* pPre;
  auto data = mp::CreateSimModelMgr(*this, *this, pPre);
  SetMM(std::move(data));
  SetValuePresolver(pPre);
  copy_common_info_to_other();
}
SimBackend::~SimBackend() {}

void SimBackend::Call(const std::string& what) const {
  sim::g.yield("stub", ("stub." + what).c_str());
  M().calls.push_back(what);
}

template <class T>
static std::string vec_str(const T* p, size_t n) {
  std::ostringstream os;
  os.precision(17);
  os << '[';
  for (size_t i = 0; i < n; ++i) { if (i) os << ','; os << p[i]; }
  os << ']';
  return os.str();
}
template <class V>
static std::string vec_str(const V& v) { return vec_str(v.data(), v.size()); }

template <class V>
void SimBackend::LogVec(const char* what, const V& v) const {
  sim::g.yield("stub", (std::string("stub.") + what).c_str());
  M().calls.push_back(std::string(what) + " " + vec_str(v));
}

void SimBackend::MaybeThrow(const char* where) const {
  const sim::Json& t = g_script["throw"];
  if (!t.is_obj() || t["where"].as_str() != where) return;
  std::string kind = t["kind"].as_str();
  std::string msg = "simulated solver failure in " + std::string(where);
  if (kind == "mp") throw mp::Error(msg);
  if (kind == "mpcode") MP_RAISE_WITH_CODE((int)t["code"].as_int(550), msg);
  if (kind == "abort") const_cast<SimBackend*>(this)->Abort((int)t["code"].as_int(550), msg);   // StdBackend::Abort
  if (kind == "int") throw 42;
  throw std::runtime_error(msg);
}

void SimBackend::InitCustomOptions() {
  set_option_header("SIMDRV Options for AMPL\n-----------------------\n");
  AddStoredOption("tech:stropt stropt str_opt StrOptCamel", "String option.", opts_.str_opt_);   // synonyms registered in mixed case exist in real drivers (cbcmp: "mip:rens Rens")
  AddStoredOption("tech:intopt intopt int_opt IntOptCamel", "Int option.", opts_.int_opt_);
  AddStoredOption("tech:dblopt dblopt dbl_opt DBLOPT_up", "Double option.", opts_.dbl_opt_);
  AddStoredOption("tech:flagopt flagopt", "Flag option.", opts_.flag_opt_);
  AddListOption("tech:listopt listopt", "List option.", opts_.list_opt_);
  AddListOption("tech:strlistopt strlistopt", "String list option.", opts_.strlist_opt_);
  AddIntOption("wc:*:val wc_*_val", "Wildcard int option, one value per key.", &SimBackend::GetWC, &SimBackend::SetWC);
  AddOptionSynonyms_OutOfLine("ool_intopt", "tech:intopt");
  AddOptionSynonyms_OutOfLine("ool_stropt", "tech:stropt");
  AddOptionSynonyms_OutOfLine("OOL_FlagOpt", "tech:flagopt");
  AddSolveResults({{mp::sol::FAILURE + 1, "fatal error 1"},
                   {mp::sol::LIMIT_FEAS_NEW + 1, "AI iteration limit, feasible solution"}});
  // further driver-specific result codes / ranges, registered the way a real driver would (scenario: script.extra_results)
  const sim::Json& xr = g_script["extra_results"];
  if (xr.is_arr() && xr.size()) {
    mp::SolveResultRegistry::SRRegMap extra;
    for (auto& e : xr.arr()) extra.insert({(int)e[(size_t)0].as_int(), (int)e[(size_t)1].as_int(), e[(size_t)2].as_str()});
    AddSolveResults(extra, g_script["extra_replace"].as_bool());
  }
}

bool SimBackend::IsMIP() const { return BaseBackend::IsMIP(); }
bool SimBackend::IsQCP() const { return M().n_in_group(mp::CG_Quadratic) > 0; }

int g_session = 0;
int g_session_regs = 0;
void SimBackend::FinishOptionParsing() {
  Call("FinishOptionParsing");
  // a driver that connects to its solver once the options are known (server=..., cloud, licence token): the session opened
  // in the constructor is closed and another one takes its place - on every parse
  if (g_script["session_pattern"].as_bool() && g_script["session_reopen"].as_bool(true)) {
    g_session = (g_session + 1) % 16;
    sim::g.event("SESSION_OPEN cell" + std::to_string(g_session));
  }
}

void do_registrations(mp::Interrupter* inter, int at_iter) {
  if (g_script["session_pattern"].as_bool()) {
    // register the session in use now, the way drivers hand their solver handle to the interrupter
    if (at_iter < 0) {
      int idx = g_session_regs++ % 16;
      sim::g.event("SETHANDLER_BEGIN " + std::to_string(idx) + " A cell" + std::to_string(g_session));
      inter->SetHandler(cbA, &g_reg_cells[g_session]);
      sim::g.event("SETHANDLER_END " + std::to_string(idx));
    }
    return;
  }
  const sim::Json& regs = g_script["registrations"];
  if (!regs.is_arr()) {
    if (at_iter < 0) {  // default: one registration
      sim::g.event("SETHANDLER_BEGIN 0 A cell0");
      inter->SetHandler(cbA, &g_reg_cells[0]);
      sim::g.event("SETHANDLER_END 0");
    }
    return;
  }
  for (size_t i = 0; i < regs.size() && i < 16; ++i) {
    const sim::Json& r = regs[i];
    if ((int)r["at"].as_int(-1) != at_iter) continue;
    bool b = r["cb"].as_str() == "B";
    const bool nul = r["null"].as_bool();      // a driver that needs no data registers its callback with a null pointer (cplexmp does)
    sim::g.event("SETHANDLER_BEGIN " + std::to_string(i) + (b ? " B" : " A") + (nul ? std::string(" null") : " cell" + std::to_string(i)));
    inter->SetHandler(b ? cbB : cbA, nul ? nullptr : &g_reg_cells[i]);
    sim::g.event("SETHANDLER_END " + std::to_string(i));
  }
}

void SimBackend::DoRegistrations(mp::Interrupter* inter, int at_iter) { do_registrations(inter, at_iter); }

void SimBackend::SetInterrupter(mp::Interrupter* inter) {
  Call("SetInterrupter");
  MaybeThrow("SetInterrupter");
  inter_ = inter;
  DoRegistrations(inter, -1);
}

int g_dual_mode = 0;
double SimBackend::ConTag(int group, int idx) {
  double t = 20000.0 + 1000.0 * group + idx + 0.25;
  switch (g_dual_mode) {
    case 1: return -t;
    case 2: return t / 100000.0;
    case 3: return (idx & 1) ? 0.0 : -t;
    case 4: return 0.0;          // no binding row at all: every dual exactly zero
    default: return t;
  }
}

std::vector<double> SimBackend::VarVec(const char* lenkey, double shift) const {
  std::string mode = script_str(lenkey, "full");
  int n = (int)M().vars.size();
  if (mode == "none") return {};
  if (mode == "short") n = n > 0 ? n - 1 : 0;
  else if (mode == "long") n = n + 3;
  else if (mode == "empty0") n = 0;
  std::vector<double> x(n);
  for (int k = 0; k < n; ++k) x[k] = mode == "ones" ? 1.0 : VarTag(k) + shift;
  std::string sp = script_str("special_value", "");
  if (!sp.empty() && n > 0) {
    double v = sp == "nan" ? NAN : sp == "inf" ? INFINITY : sp == "-inf" ? -INFINITY : sp == "huge" ? 1e308 : 0.0;
    x[script_int("special_index", 0) % n] = v;
  }
  return x;
}

mp::ArrayRef<double> SimBackend::PrimalSolution() {
  Call("PrimalSolution");
  MaybeThrow("PrimalSolution");
  return VarVec("primal");
}

mp::pre::ValueMapDbl SimBackend::ConMapDbl(double shift) const {
  std::string mode = script_str("dual", "full");
  std::map<int, std::vector<double>> m;
  if (mode == "none") return {};
  std::string groups = script_str("dual_groups", "linquad");
  for (auto& gc : M().group_count) {
    int gr = gc.first;
    if (groups == "lin" && gr != mp::CG_Linear) continue;
    if (groups == "linquad" && gr != mp::CG_Linear && gr != mp::CG_Quadratic) continue;
    int n = gc.second;
    if (mode == "short") n = n > 0 ? n - 1 : 0;
    else if (mode == "long") n += 2;
    std::vector<double> v(n);
    for (int i = 0; i < n; ++i) v[i] = ConTag(gr, i) + shift;
    m[gr] = std::move(v);
  }
  if (m.empty() && mode != "none") m[mp::CG_Linear] = {};
  return {m};
}

mp::pre::ValueMapInt SimBackend::ConMapInt(int salt, bool iis) const {
  std::map<int, std::vector<int>> m;
  std::string groups = script_str("int_groups", "lin");
  for (auto& gc : M().group_count) {
    int gr = gc.first;
    if (groups == "lin" && gr != mp::CG_Linear) continue;
    std::vector<int> v(gc.second);
    for (int i = 0; i < gc.second; ++i) v[i] = iis ? IISTag(salt + gr, i) : StatusTag(salt + gr, i);
    m[gr] = std::move(v);
  }
  if (m.empty()) m[mp::CG_Linear] = {};
  return {m};
}

mp::pre::ValueMapDbl SimBackend::DualSolution() {
  Call("DualSolution");
  MaybeThrow("DualSolution");
  return ConMapDbl(0.0);
}

mp::ArrayRef<double> SimBackend::GetObjectiveValues() {
  Call("GetObjectiveValues");
  MaybeThrow("GetObjectiveValues");
  long n = script_int("objvals", 1);
  std::vector<double> v;
  for (long i = 0; i < n; ++i) v.push_back(script_dbl("objval", 777.25) + i);
  return v;
}

void SimBackend::Solve() {
  Call("Solve");
  MaybeThrow("Solve");
  mp::Interrupter* inter = interrupter();
  long iters = script_int("solve_iters", 2);
  if (g_script["session_pattern"].as_bool()) sim::g.event("SOLVE_SESSION cell" + std::to_string(g_session));
  for (long it = 0; it < iters; ++it) {
    sim::g.yield("stub", "stub.solve.iter");
    DoRegistrations(inter, (int)it);
    bool st = inter->Stop();
    sim::g.event(std::string("STOP_POLL ") + (st ? "1" : "0"));
  }
  long ninterm = script_int("n_interm", 0);
  // a driver that knows the outcome before it hands out its pool solutions sets the status first
  if (ninterm > 0 && script_int("interm_after_status", 0)) SetStatus({(int)script_int("status", 0), script_str("status_msg", "optimal solution")});
  if (ninterm > 0 && need_multiple_solutions()) {
    for (long s = 0; s < ninterm; ++s) {
      sim::g.yield("stub", "stub.solve.interm");
      auto x = VarVec("interm_primal", 100000.0 * (s + 1));
      auto mv = GetValuePresolver().PostsolveSolution({x});
      std::vector<double> ov;
      if (script_int("interm_obj", 1)) ov.push_back(500.5 + s);
      ReportIntermediateSolution({mv.GetVarValues()(), {}, ov});
    }
  }
  RunTransfers();
  sim::g.yield("stub", "stub.solve.end");
  {
    bool st = inter->Stop();
    sim::g.event(std::string("STOP_POLL ") + (st ? "1" : "0"));
  }
  if (g_script["session_pattern"].as_bool()) sim::g.event("SOLVE_END");
}

void SimBackend::ReportResults() {
  Call("ReportResults");
  MaybeThrow("ReportResults");
  SetStatus({(int)script_int("status", 0), script_str("status_msg", "optimal solution")});
  std::string extra = script_str("extra_msg", "");
  if (!extra.empty()) AddToSolverMessage(extra);
  BaseBackend::ReportResults();
  if (interrupter()) {
    bool st = interrupter()->Stop();
    sim::g.event(std::string("STOP_POLL ") + (st ? "1" : "0"));
  }
}

void SimBackend::DoWriteProblem(const std::string& name) {
  Call("DoWriteProblem " + name);
  MaybeThrow("DoWriteProblem");
}
void SimBackend::DoWriteSolution(const std::string& name) {
  Call("DoWriteSolution " + name);
  MaybeThrow("DoWriteSolution");
}

void SimBackend::MarkLazyOrUserCuts(mp::ArrayRef<int> lazyVals) {
  sim::g.yield("stub", "stub.MarkLazyOrUserCuts");
  auto vm = GetValuePresolver().PresolveLazyUserCutFlags({{}, lazyVals});
  std::string s = "MarkLazyOrUserCuts";
  for (auto& kv : vm.GetConValues().GetMap()) s += " g" + std::to_string(kv.first) + "=" + vec_str(kv.second);
  M().calls.push_back(s);
}

mp::SolutionBasis SimBackend::GetBasis() {
  Call("GetBasis");
  MaybeThrow("GetBasis");
  if (script_str("basis", "tags") == "none") return {};
  int salt = (int)script_int("basis_salt", 0);
  std::vector<int> varstt(M().vars.size());
  for (size_t k = 0; k < varstt.size(); ++k) varstt[k] = StatusTag(salt, (int)k);
  auto conmap = ConMapInt(salt, false);
  std::vector<int> constt;
  if (varstt.size()) {
    auto mv = GetValuePresolver().PostsolveBasis({std::move(varstt), conmap});
    varstt = mv.GetVarValues()();
    constt = mv.GetConValues()();
  }
  return {std::move(varstt), std::move(constt)};
}

void SimBackend::SetBasis(mp::SolutionBasis basis) {
  sim::g.yield("stub", "stub.SetBasis");
  auto mv = GetValuePresolver().PresolveBasis({basis.varstt, basis.constt});
  std::string s = "SetBasis var=" + vec_str(mv.GetVarValues()());
  for (auto& kv : mv.GetConValues().GetMap()) s += " g" + std::to_string(kv.first) + "=" + vec_str(kv.second);
  M().calls.push_back(s);
}

void SimBackend::AddPrimalDualStart(mp::Solution sol0) {
  sim::g.yield("stub", "stub.AddPrimalDualStart");
  auto mv = GetValuePresolver().PresolveSolution({sol0.primal, sol0.dual});
  std::string s = "AddPrimalDualStart x=" + vec_str(mv.GetVarValues()());
  for (auto& kv : mv.GetConValues().GetMap()) s += " g" + std::to_string(kv.first) + "=" + vec_str(kv.second);
  M().calls.push_back(s);
}

void SimBackend::AddMIPStart(mp::ArrayRef<double> x0, mp::ArrayRef<int> s0) {
  sim::g.yield("stub", "stub.AddMIPStart");
  auto mv = GetValuePresolver().PresolveSolution({x0});
  auto ms = GetValuePresolver().PresolveGenericInt({s0});
  M().calls.push_back("AddMIPStart x=" + vec_str(mv.GetVarValues()()) + " s=" + vec_str(ms.GetVarValues()()));
}

void SimBackend::VarPriorities(mp::ArrayRef<int> pri) {
  sim::g.yield("stub", "stub.VarPriorities");
  auto mv = GetValuePresolver().PresolveGenericInt({pri});
  M().calls.push_back("VarPriorities " + vec_str(mv.GetVarValues()()));
}

mp::ArrayRef<double> SimBackend::Ray() {
  Call("Ray");
  MaybeThrow("Ray");
  if (script_str("rays", "tags") == "none") return {};
  auto r = VarVec("ray_len", 50000.0);
  auto mv = GetValuePresolver().PostsolveSolution({r});
  std::vector<double> uray = mv.GetVarValues()();
  return uray;   // owning ArrayRef
}

mp::ArrayRef<double> SimBackend::DRay() {
  Call("DRay");
  MaybeThrow("DRay");
  if (script_str("rays", "tags") == "none") return {};
  std::vector<double> fd(M().n_in_group(mp::CG_Linear));
  for (size_t i = 0; i < fd.size(); ++i) fd[i] = ConTag(mp::CG_Linear, (int)i) + 50000.0;
  auto vm = GetValuePresolver().PostsolveSolution({{}, {{{mp::CG_Linear, std::move(fd)}}}});
  return vm.GetConValues().MoveOut();
}

void SimBackend::ComputeIIS() {
  Call("ComputeIIS");
  MaybeThrow("ComputeIIS");
  if (g_script.has("iis_status"))
    SetStatus({(int)script_int("iis_status", 200), "infeasible problem (IIS)"});
}

mp::IIS SimBackend::GetIIS() {
  Call("GetIIS");
  MaybeThrow("GetIIS");
  int salt = (int)script_int("iis_salt", 1);
  std::vector<int> variis(M().vars.size());
  for (size_t k = 0; k < variis.size(); ++k) variis[k] = IISTag(salt, (int)k);
  auto coniis = ConMapInt(salt, true);
  auto mv = GetValuePresolver().PostsolveIIS({variis, coniis});
  return {mv.GetVarValues()(), mv.GetConValues()()};
}

mp::SensRangesPresolved SimBackend::GetSensRangesPresolved() {
  Call("GetSensRangesPresolved");
  MaybeThrow("GetSensRangesPresolved");
  mp::SensRangesPresolved r;
  int nv = (int)M().vars.size();
  int nc = M().n_in_group(mp::CG_Linear);
  auto vv = [&](double sh) { std::vector<double> v(nv); for (int i = 0; i < nv; ++i) v[i] = VarTag(i) + sh; return v; };
  auto cv = [&](double sh) { std::vector<double> v(nc); for (int i = 0; i < nc; ++i) v[i] = ConTag(mp::CG_Linear, i) + sh; return v; };
  r.varlbhi = {{vv(1e5)}, {{{mp::CG_Linear, cv(1e5)}}}};
  r.varlblo = {{vv(2e5)}, {{{mp::CG_Linear, cv(2e5)}}}};
  r.varubhi = {{vv(3e5)}, {{{mp::CG_Linear, cv(3e5)}}}};
  r.varublo = {{vv(4e5)}, {{{mp::CG_Linear, cv(4e5)}}}};
  r.varobjhi = {{vv(5e5)}};
  r.varobjlo = {{vv(6e5)}};
  r.conrhshi = {{}, {{{mp::CG_Linear, cv(7e5)}}}};
  r.conrhslo = {{}, {{{mp::CG_Linear, cv(8e5)}}}};
  r.conlbhi = {{}, {{{mp::CG_Linear, cv(9e5)}}}};
  r.conlblo = {{}, {{{mp::CG_Linear, cv(10e5)}}}};
  r.conubhi = {{}, {{{mp::CG_Linear, cv(11e5)}}}};
  r.conublo = {{}, {{{mp::CG_Linear, cv(12e5)}}}};
  return r;
}

void SimBackend::RunTransfers() {
  const sim::Json& xf = g_script["transfers"];
  if (!xf.is_arr()) return;
  // Implemented in transfers.cc-style inline: each op goes through the real presolver entry points.
  int norig_v = (int)script_int("orig_nvars", 0);
  int norig_c = (int)script_int("orig_ncons", 0);
  for (size_t i = 0; i < xf.size(); ++i) {
    const sim::Json& op = xf[i];
    std::string kind = op["kind"].as_str();
    int salt = (int)op["salt"].as_int(0);
    std::string lenmode = op["len"].as_str();
    auto adj = [&](int n) { return lenmode == "short" ? (n > 0 ? n - 1 : 0) : lenmode == "long" ? n + 2 : lenmode == "empty" ? 0 : n; };
    std::string res;
    sim::g.yield("stub", "stub.transfer");
    try {
      if (kind == "PostSol") {
        int n = adj((int)M().vars.size());
        std::vector<double> x(n);
        for (int k = 0; k < n; ++k) x[k] = VarTag(k) + 1000000.0 * salt;
        std::map<int, std::vector<double>> dm;
        for (auto& gc : M().group_count) {
          if (gc.first != mp::CG_Linear && gc.first != mp::CG_Quadratic) continue;
          int m = adj(gc.second);
          std::vector<double> v(m);
          for (int r = 0; r < m; ++r) v[r] = ConTag(gc.first, r) + 1000000.0 * salt;
          dm[gc.first] = v;
        }
        auto mv = GetValuePresolver().PostsolveSolution({x, {dm}});
        res = "x=" + vec_str(mv.GetVarValues()()) + " y=" + vec_str(mv.GetConValues()());
      } else if (kind == "PostBasis") {
        int n = adj((int)M().vars.size());
        std::vector<int> vs(n);
        for (int k = 0; k < n; ++k) vs[k] = StatusTag(salt, k);
        std::map<int, std::vector<int>> cm;
        int m = adj(M().n_in_group(mp::CG_Linear));
        std::vector<int> cs(m);
        for (int r = 0; r < m; ++r) cs[r] = StatusTag(salt + mp::CG_Linear, r);
        cm[mp::CG_Linear] = cs;
        auto mv = GetValuePresolver().PostsolveBasis({vs, {cm}});
        res = "v=" + vec_str(mv.GetVarValues()()) + " c=" + vec_str(mv.GetConValues()());
      } else if (kind == "PostIIS") {
        int n = adj((int)M().vars.size());
        std::vector<int> vs(n);
        for (int k = 0; k < n; ++k) vs[k] = IISTag(salt, k);
        std::map<int, std::vector<int>> cm;
        for (auto& gc : M().group_count) {
          int m = adj(gc.second);
          std::vector<int> cs(m);
          for (int r = 0; r < m; ++r) cs[r] = IISTag(salt + gc.first, r);
          cm[gc.first] = cs;
        }
        auto mv = GetValuePresolver().PostsolveIIS({vs, {cm}});
        res = "v=" + vec_str(mv.GetVarValues()()) + " c=" + vec_str(mv.GetConValues()());
      } else if (kind == "PostDbl") {
        int n = adj((int)M().vars.size());
        std::vector<double> x(n);
        for (int k = 0; k < n; ++k) x[k] = VarTag(k) + 1000000.0 * salt;
        int m = adj(M().n_in_group(mp::CG_Linear));
        std::vector<double> v(m);
        for (int r = 0; r < m; ++r) v[r] = ConTag(mp::CG_Linear, r) + 1000000.0 * salt;
        auto mv = GetValuePresolver().PostsolveGenericDbl({x, {{{mp::CG_Linear, v}}}});
        res = "v=" + vec_str(mv.GetVarValues()()) + " c=" + vec_str(mv.GetConValues()());
      } else if (kind == "PreSol" || kind == "PreBasis" || kind == "PreInt" || kind == "PreLazy") {
        int n = adj(norig_v), m = adj(norig_c);
        if (kind == "PreSol") {
          std::vector<double> x(n), y(m);
          for (int k = 0; k < n; ++k) x[k] = 30000.0 + k + 0.125 + 1000000.0 * salt;
          for (int r = 0; r < m; ++r) y[r] = 40000.0 + r + 0.375 + 1000000.0 * salt;
          auto mv = GetValuePresolver().PresolveSolution({x, y});
          res = "x=" + vec_str(mv.GetVarValues()());
          for (auto& kv : mv.GetConValues().GetMap()) res += " g" + std::to_string(kv.first) + "=" + vec_str(kv.second);
        } else {
          std::vector<int> x(n), y(m);
          for (int k = 0; k < n; ++k) x[k] = kind == "PreBasis" ? StatusTag(salt, k) : 100 + 10 * salt + k;
          for (int r = 0; r < m; ++r) y[r] = kind == "PreBasis" ? StatusTag(salt + 3, r) : (kind == "PreLazy" ? ((r + salt) % 3) - 1 : 200 + 10 * salt + r);
          auto mv = kind == "PreBasis" ? GetValuePresolver().PresolveBasis({x, y})
                  : kind == "PreLazy" ? GetValuePresolver().PresolveLazyUserCutFlags({{}, y})
                                      : GetValuePresolver().PresolveGenericInt({x, y});
          res = "x=" + vec_str(mv.GetVarValues()());
          for (auto& kv : mv.GetConValues().GetMap()) res += " g" + std::to_string(kv.first) + "=" + vec_str(kv.second);
        }
      } else if (kind == "PreUnit" || kind == "PreUnitDbl") {
        // One original constraint carries a value, all others 0 - once with a positive, once with the negative value.
        // Which delivered items receive it must not depend on the sign (nor on what other items carry).
        int m = norig_c;
        if (m <= 0) { res = "none"; }
        else {
          int item = salt % m;
          auto pattern = [&](double val) {
            std::string pr;
            if (kind == "PreUnit") {
              std::vector<int> y(m, 0); y[item] = (int)val;
              auto mv = GetValuePresolver().PresolveGenericInt({{}, y});
              for (auto& kv : mv.GetConValues().GetMap()) { if (kv.second.empty()) continue; pr += " g" + std::to_string(kv.first) + "="; for (int v : kv.second) pr += v == (int)val ? '#' : v == 0 ? '.' : '?'; }
            } else {
              std::vector<double> y(m, 0.0); y[item] = val;
              auto mv = GetValuePresolver().PresolveGenericDbl({{}, y});
              for (auto& kv : mv.GetConValues().GetMap()) { if (kv.second.empty()) continue; pr += " g" + std::to_string(kv.first) + "="; for (double v : kv.second) pr += v == val ? '#' : v == 0 ? '.' : '?'; }
            }
            return pr;
          };
          std::string a = pattern(7), b = pattern(-7);
          res = "item=" + std::to_string(item) + " pos:" + a + " | neg:" + b;
        }
      } else {
        res = "unknown-op";
      }
    } catch (const std::exception& e) {
      res = std::string("EXC ") + e.what();
    }
    M().calls.push_back("XFER " + std::to_string(i) + " " + kind + " " + res);
  }
}

}  // namespace drvsim
