// SimBackend: the simulated solver's answer side, scripted by the scenario.
#pragma once
#include <list>
#include <map>
#include <string>
#include <vector>

#include "mp/backend-mip.h"
#include "mp/flat/backend_flat.h"

#include "simapi.h"

namespace drvsim {

// The script driving the solver stub for the current run (set by the harness).
extern sim::Json g_script;
extern int g_cb_calls;    // callback invocations of the current run (reset before every run)
extern int g_dual_mode;   // value class of the dual tags (see SimBackend::ConTag); set from script.dual_mode before every run
// Model/call record of the current run (owned by the harness, shared with ModelAPI).
extern StubModel g_stub;

inline const sim::Json& script(const char* key) { return g_script[key]; }
inline long script_int(const char* key, long d) { return g_script.has(key) ? g_script[key].as_int(d) : d; }
inline double script_dbl(const char* key, double d) { return g_script.has(key) ? g_script[key].as_double(d) : d; }
inline std::string script_str(const char* key, const char* d) { return g_script.has(key) ? g_script[key].as_str() : std::string(d); }

class SimBackend : public mp::FlatBackend<mp::MIPBackend<SimBackend>>, public SimCommon {
  using BaseBackend = mp::FlatBackend<mp::MIPBackend<SimBackend>>;

 public:
  SimBackend();
  ~SimBackend();

  static const char* GetAMPLSolverName() { return "simdrv"; }
  static const char* GetAMPLSolverLongName() { return "AMPL-SIMDRV"; }
  static const char* GetSolverName() { return "x-SIMDRV"; }
  std::string GetSolverVersion() { return "0.0.1"; }
  std::string set_external_libs() override { return ""; }
  static const char* GetBackendName() { return "SimBackend"; }
  static const char* GetBackendLongName() { return nullptr; }

  void InitCustomOptions() override;
  void InitOptionParsing() override { Call("InitOptionParsing"); }
  void FinishOptionParsing() override;

  USING_STD_FEATURES;
  ALLOW_STD_FEATURE(MULTIOBJ, true)
  void ObjPriorities(mp::ArrayRef<int> v) override { LogVec("ObjPriorities", v); }
  void ObjWeights(mp::ArrayRef<double> v) override { LogVec("ObjWeights", v); }
  void ObjAbsTol(mp::ArrayRef<double> v) override { LogVec("ObjAbsTol", v); }
  void ObjRelTol(mp::ArrayRef<double> v) override { LogVec("ObjRelTol", v); }
  ALLOW_STD_FEATURE(MULTISOL, true)
  ALLOW_STD_FEATURE(KAPPA, true)
  double Kappa() override { Call("Kappa"); return script_dbl("kappa", 1234.5); }
  ALLOW_STD_FEATURE(FEAS_RELAX, true)
  ALLOW_STD_FEATURE(WRITE_PROBLEM, true)
  void DoWriteProblem(const std::string& name) override;
  ALLOW_STD_FEATURE(WRITE_SOLUTION, true)
  void DoWriteSolution(const std::string& name) override;
  ALLOW_STD_FEATURE(LAZY_USER_CUTS, true)
  void MarkLazyOrUserCuts(mp::ArrayRef<int> v) override;
  ALLOW_STD_FEATURE(BASIS, true)
  mp::SolutionBasis GetBasis() override;
  void SetBasis(mp::SolutionBasis) override;
  ALLOW_STD_FEATURE(WARMSTART, true)
  void AddPrimalDualStart(mp::Solution sol) override;
  ALLOW_STD_FEATURE(MIPSTART, true)
  void AddMIPStart(mp::ArrayRef<double> x0, mp::ArrayRef<int> sparsity) override;
  ALLOW_STD_FEATURE(VAR_PRIORITIES, true)
  void VarPriorities(mp::ArrayRef<int> v) override;
  ALLOW_STD_FEATURE(RAYS, true)
  mp::ArrayRef<double> Ray() override;
  mp::ArrayRef<double> DRay() override;
  ALLOW_STD_FEATURE(IIS, true)
  void ComputeIIS() override;
  mp::IIS GetIIS() override;
  ALLOW_STD_FEATURE(RETURN_MIP_GAP, true)
  double MIPGap() override { Call("MIPGap"); return script_dbl("mipgap", 0.0); }
  double MIPGapAbs() override { Call("MIPGapAbs"); return script_dbl("mipgapabs", 0.0); }
  ALLOW_STD_FEATURE(RETURN_BEST_DUAL_BOUND, true)
  double BestDualBound() override { Call("BestDualBound"); return script_dbl("bestbound", -1e100); }
  ALLOW_STD_FEATURE(SENSITIVITY_ANALYSIS, true)
  mp::SensRangesPresolved GetSensRangesPresolved() override;
  ALLOW_STD_FEATURE(FIX_MODEL, true)

  bool IsMIP() const override;
  bool IsQCP() const override;

  void SetInterrupter(mp::Interrupter* inter) override;
  void Solve() override;
  mp::ArrayRef<double> GetObjectiveValues() override;

  // tagging scheme (shared with the oracles)
  static double VarTag(int k) { return 10000.0 + k + 0.5; }
  // The dual value the solver party reports for row idx of a constraint group.  The scenario chooses the value class
  // (script.dual_mode: 0 large positive, 1 negative, 2 small positive - below every primal tag -, 3 zero on odd rows and
  // negative otherwise) so that a rule like "largest non-zero wins" cannot hide a value that arrives from the wrong slot.
  static double ConTag(int group, int idx);
  static int StatusTag(int salt, int k) { return 1 + ((k * 7 + salt) % 6); }  // BasicStatus 1..6
  static int IISTag(int salt, int k) { return (k * 5 + salt) % 8; }           // IISStatus 0..7

 protected:
  mp::ArrayRef<double> PrimalSolution() override;
  mp::pre::ValueMapDbl DualSolution() override;
  void ReportResults() override;

  StubModel& M() const { return *model(); }
  void Call(const std::string& what) const;
  template <class V> void LogVec(const char* what, const V& v) const;
  void MaybeThrow(const char* where) const;
  void DoRegistrations(mp::Interrupter* inter, int at_iter);
  void RunTransfers();
  std::vector<double> VarVec(const char* lenkey, double base_shift = 0.0) const;
  mp::pre::ValueMapDbl ConMapDbl(double shift) const;
  mp::pre::ValueMapInt ConMapInt(int salt, bool iis) const;

 private:
  struct Options {
    std::string str_opt_;
    int int_opt_ = 0;
    double dbl_opt_ = 0.0;
    bool flag_opt_ = false;
    std::vector<double> list_opt_;
    std::list<std::string> strlist_opt_;
  } opts_;
  std::map<std::string, int> wc_;      // wildcard option wc:*:val, keyed by the '*' body
  mp::Interrupter* inter_ = nullptr;

 public:
  // observation of stored options (C11)
  const std::string& opt_str() const { return opts_.str_opt_; }
  int opt_int() const { return opts_.int_opt_; }
  double opt_dbl() const { return opts_.dbl_opt_; }
  bool opt_flag() const { return opts_.flag_opt_; }
  const std::vector<double>& opt_list() const { return opts_.list_opt_; }
  const std::map<std::string, int>& opt_wc() const { return wc_; }
  int GetWC(const mp::SolverOption& opt) const { auto it = wc_.find(opt.wc_keybody_last()); return it == wc_.end() ? 0 : it->second; }
  void SetWC(const mp::SolverOption& opt, int v) { wc_[opt.wc_keybody_last()] = v; }
};

std::unique_ptr<mp::BasicBackend> CreateSimBackend();
// A driver built directly on mp::BasicBackend (no StdBackend, no model manager): registers its interrupt callbacks and "solves"
// in RunFromNLFile().  Unlike the StdBackend drivers its application object can serve several Run() calls.
std::unique_ptr<mp::BasicBackend> CreateMiniBackend();
// A StdBackend driver with a do-nothing model manager (its backend object can be handed a model file again and again)
std::unique_ptr<mp::BasicBackend> CreateLeanBackend();
// the scripted callback registrations (script.registrations) due at solve iteration at_iter (-1: when the interrupter is handed over)
void do_registrations(mp::Interrupter* inter, int at_iter);
// "session" registration pattern: the solver session (handle) in use; a driver may open a new one while options are parsed
extern int g_session, g_session_regs;

// C15 callbacks (registered through the real SetHandler path)
bool cbA(void* data);
bool cbB(void* data);
extern int g_reg_cells[16];
std::string describe_cb_data(void* data);

}  // namespace drvsim
