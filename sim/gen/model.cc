#include "model.h"

#include <algorithm>
#include <cmath>
#include <cstdio>
#include <set>

namespace gen {

std::string fmt_double(double v) {
  if (std::isinf(v)) return v > 0 ? "Infinity" : "-Infinity";
  char b[40];
  if (v == std::floor(v) && std::fabs(v) < 1e15) snprintf(b, sizeof b, "%.0f", v);
  else snprintf(b, sizeof b, "%.17g", v);
  return b;
}

namespace {

enum Feature { F_ARITH = 1, F_QUAD = 2, F_ABSMINMAX = 4, F_LOGIC = 8, F_COUNT = 16, F_IF = 32, F_PL = 64, F_DIVPOW = 128, F_FUNC = 256, F_UNSUP = 512, F_CONE = 1024 };

struct Ctx {
  sim::Rng& rng;
  const GenOptions& opt;
  Model& m;
  unsigned features;
  std::vector<int> nl_vars;     // variables allowed in nonlinear positions in the current item
  int ncommon_avail = 0;        // common expressions that may be referenced
  double next_tag;
  double tag() { next_tag += 1; return next_tag; }
  std::vector<Expr> pool;       // subexpressions generated so far for the items that share nl_vars: reused now and then, so that
                                // several constraints contain the same subexpression (one shared functional constraint after flattening)
};

Expr gen_log(Ctx& c, int depth);

Expr leaf(Ctx& c) {
  if (!c.nl_vars.empty() && c.rng.chance(0.75)) {
    if (c.ncommon_avail > 0 && c.rng.chance(0.15)) return Expr::Var(c.m.nvars() + (int)c.rng.below(c.ncommon_avail));
    return Expr::Var(c.nl_vars[c.rng.below(c.nl_vars.size())]);
  }
  static const double consts[] = {1, 2, 3, -1, 0.5, 2.5, -4, 7, 10};
  return Expr::Num(consts[c.rng.below(9)]);
}

Expr var_leaf(Ctx& c) {
  if (c.nl_vars.empty()) return Expr::Num(1 + (double)c.rng.below(5));
  return Expr::Var(c.nl_vars[c.rng.below(c.nl_vars.size())]);
}

// affine expression in one or two variables with a constant: a*x + b
Expr affine(Ctx& c) {
  Expr x = var_leaf(c);
  double a = (double)c.rng.range(1, 4) * (c.rng.chance(0.3) ? -1 : 1);
  double b = (double)c.rng.range(-5, 5);
  Expr t = a == 1 ? x : Expr::Op(2, {Expr::Num(a), x});
  if (b == 0) return t;
  return Expr::Op(0, {t, Expr::Num(b)});
}

Expr gen_num_raw(Ctx& c, int depth);
Expr gen_num(Ctx& c, int depth) {
  if (depth > 0 && !c.pool.empty() && c.rng.chance(0.15)) return c.pool[c.rng.below(c.pool.size())];
  Expr e = gen_num_raw(c, depth);
  if (e.kind == 'o' && e.op != 0 && e.op != 1 && e.op != 54 && c.pool.size() < 8 && c.rng.chance(0.6)) c.pool.push_back(e);
  return e;
}
Expr gen_num_raw(Ctx& c, int depth) {
  if (depth <= 0) return c.rng.chance(0.5) ? leaf(c) : affine(c);
  std::vector<int> choices;
  unsigned f = c.features;
  if (f & F_ARITH) { choices.insert(choices.end(), {100, 100, 101, 102, 103}); }
  if (f & F_QUAD) { choices.insert(choices.end(), {110, 111, 112, 113}); if (f & F_ABSMINMAX) choices.push_back(114); }
  if (f & F_ABSMINMAX) { choices.insert(choices.end(), {120, 121, 122}); }
  if (f & F_COUNT) { choices.insert(choices.end(), {130, 131}); }
  if (f & F_IF) { choices.push_back(140); }
  if (f & F_PL) { choices.push_back(150); }
  if (f & F_DIVPOW) { choices.insert(choices.end(), {160, 161, 162, 163, 164, 165}); }
  if (f & F_FUNC) { choices.insert(choices.end(), {170, 170}); }
  if (f & F_UNSUP) { choices.push_back(180); }
  if (choices.empty()) return affine(c);
  int ch = choices[c.rng.below(choices.size())];
  switch (ch) {
    case 100: return Expr::Op(0, {gen_num(c, depth - 1), gen_num(c, depth - 1)});
    case 101: return Expr::Op(1, {gen_num(c, depth - 1), gen_num(c, depth - 1)});
    case 102: return Expr::Op(2, {Expr::Num((double)c.rng.range(2, 5)), gen_num(c, depth - 1)});
    case 103: {
      int n = (int)c.rng.range(3, 4);   // NL: sum needs >= 3 args (binary + otherwise)
      std::vector<Expr> a;
      for (int i = 0; i < n; ++i) a.push_back(gen_num(c, depth - 1));
      return c.rng.chance(0.2) ? Expr::Op(16, {Expr::Op(54, a)}) : Expr::Op(54, a);
    }
    case 110: return Expr::Op(2, {var_leaf(c), var_leaf(c)});
    case 111: return Expr::Op(77, {affine(c)});
    case 112: return Expr::Op(2, {gen_num(c, depth - 1), gen_num(c, depth - 1)});                  // product of arbitrary subexpressions
    case 114: {   // a function of a quadratic body whose quadratic terms cancel once sorted and merged: abs(x*y - y*x + z)
      Expr x = var_leaf(c), y = var_leaf(c), z = var_leaf(c);
      return Expr::Op(15, {Expr::Op(0, {Expr::Op(1, {Expr::Op(2, {x, y}), Expr::Op(2, {y, x})}), z})});
    }
    case 113: { Expr e = gen_num(c, depth - 1); return Expr::Op(2, {e, e}); }                       // e * e (the same subexpression twice)
    case 120: return Expr::Op(15, {gen_num(c, depth - 1)});
    case 121: case 122: {
      int n = (int)c.rng.range(2, 3);
      std::vector<Expr> a;
      for (int i = 0; i < n; ++i) a.push_back(gen_num(c, depth - 1));
      return Expr::Op(ch == 121 ? 11 : 12, a);
    }
    case 130: {   // count of logical args
      int n = (int)c.rng.range(2, 3);
      std::vector<Expr> a;
      for (int i = 0; i < n; ++i) a.push_back(gen_log(c, depth - 1));
      return Expr::Op(59, a);
    }
    case 131: {   // numberof: first arg is the value
      int n = (int)c.rng.range(2, 3);
      std::vector<Expr> a;
      a.push_back(c.rng.chance(0.6) ? Expr::Num((double)c.rng.range(0, 3)) : var_leaf(c));
      for (int i = 0; i < n; ++i) a.push_back(var_leaf(c));
      return Expr::Op(60, a);
    }
    case 140: return Expr::Op(35, {gen_log(c, depth - 1), gen_num(c, depth - 1), gen_num(c, depth - 1)});
    case 150: {
      Expr e; e.kind = 'o'; e.op = 64;
      int nb = (int)c.rng.range(1, 3);
      double bp = (double)c.rng.range(-4, 0);
      double sl = (double)c.rng.range(-3, 3);
      for (int i = 0; i < nb; ++i) { e.slopes.push_back(sl); e.breakpoints.push_back(bp); bp += (double)c.rng.range(1, 4); sl += (double)c.rng.range(1, 3); }
      e.slopes.push_back(sl);
      e.args.push_back(var_leaf(c));
      if (e.args[0].kind != 'v') e.args[0] = Expr::Var(0);
      return e;
    }
    case 160: return Expr::Op(3, {gen_num(c, depth - 1), Expr::Num((double)c.rng.range(2, 5))});   // div by const
    case 161: return Expr::Op(76, {affine(c), Expr::Num((double)c.rng.range(2, 3))});              // pow const exp
    case 162: return Expr::Op(3, {Expr::Num(1), affine(c)});                                        // 1 / expr
    case 163: return Expr::Op(78, {Expr::Num(2), affine(c)});                                       // const base
    case 164: {   // the general power operator (o5) with a constant exponent (2: quadratic, other: power constraint) or a constant base
      int k = (int)c.rng.below(4);
      if (k == 0) return Expr::Op(5, {gen_num(c, depth - 1), Expr::Num(2)});
      if (k == 1) return Expr::Op(5, {affine(c), Expr::Num((double)c.rng.range(3, 4))});
      if (k == 2) return Expr::Op(5, {affine(c), Expr::Num(c.rng.chance(0.5) ? 0.5 : -1)});
      return Expr::Op(5, {Expr::Num((double)c.rng.range(2, 3)), affine(c)});
    }
    case 165: return Expr::Op(3, {gen_num(c, depth - 1), affine(c)});                               // expr / expr
    case 170: {
      static const int fops[] = {44, 43, 41, 46, 38, 39, 42, 51, 53, 49, 40, 45, 37, 50, 52, 47};
      return Expr::Op(fops[c.rng.below(16)], {affine(c)});
    }
    case 180: {
      c.m.uses_unsupported = true;
      int k = (int)c.rng.below(8);
      if (k == 6) return Expr::Op(5, {var_leaf(c), var_leaf(c)});       // x ^ y: variable base and exponent
      if (k == 7) return Expr::Op(14, {affine(c)});                     // ceil
      if (k == 0 && !c.m.funcs.empty()) {
        Expr e; e.kind = 'f'; e.op = (int)c.rng.below(c.m.funcs.size());
        for (int i = 0; i < c.m.funcs[e.op].nargs; ++i) e.args.push_back(affine(c));
        return e;
      }
      if (k == 1) return Expr::Op(48, {affine(c), affine(c)});         // atan2
      if (k == 2) return Expr::Op(57, {affine(c), Expr::Num(0)});       // round
      if (k == 3) return Expr::Op(4, {affine(c), Expr::Num(3)});        // mod
      if (k == 4) return Expr::Op(13, {affine(c)});                     // floor
      return Expr::Op(55, {affine(c), Expr::Num(2)});                   // intdiv
    }
  }
  return affine(c);
}

Expr gen_rel(Ctx& c, int depth) {
  static const int rels[] = {22, 23, 24, 28, 29, 30};
  int op = rels[c.rng.below(6)];
  Expr lhs = gen_num(c, depth > 0 ? depth - 1 : 0);
  Expr rhs = c.rng.chance(0.7) ? Expr::Num((double)c.rng.range(-3, 6) + (c.rng.chance(0.12) ? 0.5 : 0.0)) : gen_num(c, 0);
  return Expr::Op(op, {lhs, rhs}, true);
}

Expr gen_log(Ctx& c, int depth) {
  if (depth <= 0 || !(c.features & F_LOGIC)) return gen_rel(c, depth);
  int ch = (int)c.rng.below(10);
  switch (ch) {
    case 0: return Expr::Op(20, {gen_log(c, depth - 1), gen_log(c, depth - 1)}, true);
    case 1: return Expr::Op(21, {gen_log(c, depth - 1), gen_log(c, depth - 1)}, true);
    case 2: return Expr::Op(34, {gen_log(c, depth - 1)}, true);
    case 3: return Expr::Op(73, {gen_log(c, depth - 1), gen_log(c, depth - 1)}, true);
    case 4: {
      Expr els = c.rng.chance(0.5) ? gen_log(c, depth - 1) : Expr::Num(1);   // "true" else-branch
      if (els.kind == 'n') els.logical = true;
      return Expr::Op(72, {gen_log(c, depth - 1), gen_log(c, depth - 1), els}, true);
    }
    case 5: case 6: {
      int n = (int)c.rng.range(3, 4);   // NL: forall/exists need >= 3 args
      std::vector<Expr> a;
      for (int i = 0; i < n; ++i) a.push_back(gen_log(c, depth - 1));
      return Expr::Op(ch == 5 ? 70 : 71, a, true);
    }
    case 7:
      if ((c.features & F_COUNT) && c.nl_vars.size() >= 2) {
        std::vector<Expr> a;
        int n = (int)c.rng.range(2, 3);
        for (int i = 0; i < n; ++i) a.push_back(var_leaf(c));
        if ((c.features & F_UNSUP) && c.rng.chance(0.3)) { c.m.uses_unsupported = true; return Expr::Op(75, a, true); }   // !alldiff: not implemented by the converter
        return Expr::Op(74, a, true);
      }
      return gen_rel(c, depth);
    case 8:
      if (c.features & F_COUNT) {   // atleast / atmost / exactly: (numeric bound, count expr)
        static const int ops[] = {62, 63, 66, 67, 68, 69};   // atleast atmost exactly + their negations
        std::vector<Expr> la;
        int n = (int)c.rng.range(2, 3);
        for (int i = 0; i < n; ++i) la.push_back(gen_rel(c, 0));
        return Expr::Op(ops[c.rng.below(c.rng.chance(0.25) ? 6 : 3)], {Expr::Num((double)c.rng.range(0, 2)), Expr::Op(59, la)}, true);
      }
      return gen_rel(c, depth);
    default: return gen_rel(c, depth);
  }
}

void add_lin(std::vector<LinTerm>& lin, int var, double coef) {
  for (auto& t : lin) if (t.var == var) { t.coef += coef; return; }
  lin.push_back({var, coef});
}
void sort_lin(std::vector<LinTerm>& lin) {
  std::sort(lin.begin(), lin.end(), [](const LinTerm& a, const LinTerm& b) { return a.var < b.var; });
}

std::string gen_name(sim::Rng& rng, const char* base, int i) {
  std::string s = base;
  s += "[" + std::to_string(i + 1);
  int k = (int)rng.below(12);
  if (k == 0) s += ",'a b'";
  else if (k == 1) s += ",\"q\"";
  else if (k == 2) s += ",'x\\y'";
  else if (k == 3) s += ",'t\tab'";
  else if (k == 4) s += ",'Z\xc3\xbcrich'";                     // UTF-8 string subscripts (two- and three-byte sequences)
  else if (k == 5) s += ",'\xe6\x9d\xb1\xe4\xba\xac'";
  else if (k == 6) s += ",'{A}'";                                  // braces: set members as AMPL prints them; messages quote names
  else if (k == 7) s += ",'{}->{0}'";
  s += "]";
  return s;
}

}  // namespace

Model generate(sim::Rng& rng, const GenOptions& opt) {
  Model m;
  int nv = (int)rng.range(1, opt.max_vars);
  bool has_nl = !opt.linear_only && rng.chance(opt.p_nonlinear);
  int nobjs = (int)rng.range(opt.min_objs, opt.max_objs);
  int ncons = (int)rng.range(0, opt.max_cons);
  int nl = has_nl ? (int)rng.range(0, opt.max_lcons) : 0;
  if (ncons == 0 && nl == 0 && nobjs == 0) ncons = 1;

  // ---- variable classes (NL order)
  int nb = 0, nc_only = 0, no_only = 0;
  if (has_nl) {
    nb = (int)rng.range(0, std::min(nv, 3));
    nc_only = (int)rng.range(0, std::min(nv - nb, 3));
    if (nobjs > 0) no_only = (int)rng.range(0, std::min(nv - nb - nc_only, 2));
    if (nb + nc_only + no_only == 0) { nc_only = std::min(nv, 2); }
  }
  int nlin = nv - nb - nc_only - no_only;
  auto split_int = [&](int n) { return n > 0 && rng.chance(0.4) ? (int)rng.range(0, n) : 0; };
  m.nlvbi = split_int(nb); m.nlvci = split_int(nc_only); m.nlvoi = split_int(no_only);
  int lin_disc = split_int(nlin);
  m.nbv = lin_disc > 0 ? (int)rng.range(0, lin_disc) : 0;
  m.niv = lin_disc - m.nbv;
  m.nlvb = nb; m.nlvc = nb + nc_only; m.nlvo = no_only > 0 ? m.nlvc + no_only : nb;

  auto add_vars = [&](int n, bool integer, bool binary) {
    for (int i = 0; i < n; ++i) {
      Var v; v.integer = integer;
      if (binary) { v.lb = 0; v.ub = 1; }
      else if (integer) {
        if (rng.chance(0.3)) { v.lb = -3; v.ub = 3; } else { v.lb = 0; v.ub = (double)rng.range(1, 6); }
      } else {
        v.lb = (double)rng.range(-10, 0); v.ub = v.lb + (double)rng.range(1, 20);
        if (rng.chance(0.1)) v.lb += 0.5;
      }
      if (opt.allow_unbounded && rng.chance(0.08)) { if (rng.chance(0.5)) v.ub = INFINITY; else v.lb = -INFINITY; if (rng.chance(0.3)) { v.lb = -INFINITY; v.ub = INFINITY; } }
      if (!binary && rng.chance(0.05)) { v.ub = v.lb = std::isinf(v.lb) ? 1.0 : v.lb; }
      if (opt.allow_infeasible_bounds && rng.chance(0.03)) { v.lb = 5; v.ub = 4; }
      if (std::isinf(v.lb) || std::isinf(v.ub)) m.all_bounded = false;
      m.vars.push_back(v);
    }
  };
  add_vars(nb - m.nlvbi, false, false); add_vars(m.nlvbi, true, false);
  add_vars(nc_only - m.nlvci, false, false); add_vars(m.nlvci, true, false);
  add_vars(no_only - m.nlvoi, false, false); add_vars(m.nlvoi, true, false);
  add_vars(nlin - lin_disc, false, false); add_vars(m.nbv, true, true); add_vars(m.niv, true, false);

  std::vector<int> con_nl_vars, obj_nl_vars;
  for (int j = 0; j < nb + nc_only; ++j) con_nl_vars.push_back(j);
  for (int j = 0; j < nb; ++j) obj_nl_vars.push_back(j);
  for (int j = nb + nc_only; j < nb + nc_only + no_only; ++j) obj_nl_vars.push_back(j);

  // ---- features (swarm: random subset per model)
  unsigned features = 0;
  if (has_nl) {
    static const unsigned all[] = {F_ARITH, F_QUAD, F_ABSMINMAX, F_LOGIC, F_COUNT, F_IF, F_PL, F_DIVPOW, F_FUNC};
    for (unsigned f : all) if (rng.chance(0.4)) features |= f;
    if (!features) features = F_ARITH | F_ABSMINMAX;
    if (opt.allow_unsupported && rng.chance(0.12)) features |= F_UNSUP;
    if (con_nl_vars.size() >= 2 && rng.chance(0.2)) features |= F_CONE;
  }
  static const char* fnames[] = {"arith", "quad", "absminmax", "logic", "count", "if", "pl", "divpow", "func", "unsup", "cone"};
  for (int b = 0; b < 11; ++b) if (features & (1u << b)) { if (!m.features.empty()) m.features += ','; m.features += fnames[b]; }

  if ((features & F_UNSUP) && rng.chance(0.7)) {
    int nf = (int)rng.range(1, 2);
    for (int i = 0; i < nf; ++i) { Func f; f.name = i ? "gfun" : "ffun"; f.nargs = (int)rng.range(1, 2); m.funcs.push_back(f); }
  }

  Ctx c{rng, opt, m, features, {}, 0, 90000.0};

  // ---- common expressions
  if (has_nl && !con_nl_vars.empty() && rng.chance(0.3)) {
    int nc = (int)rng.range(1, 2);
    for (int k = 0; k < nc; ++k) {
      CommonExpr ce;
      c.nl_vars = con_nl_vars;
      if (!obj_nl_vars.empty()) { c.nl_vars.clear(); for (int j = 0; j < nb; ++j) c.nl_vars.push_back(j); if (c.nl_vars.empty()) c.nl_vars = con_nl_vars; }
      c.ncommon_avail = k;
      ce.nl = gen_num(c, 1);
      if (rng.chance(0.5)) add_lin(ce.lin, (int)rng.below(nv), (double)rng.range(1, 3));
      m.commons.push_back(ce);
    }
  }
  // common exprs built only from 'both' vars may be used anywhere; otherwise restrict to constraints
  bool commons_in_objs = nb > 0 && nb == (int)con_nl_vars.size();

  // ---- algebraic constraints: nonlinear ones first
  int n_nl_cons = (has_nl && !con_nl_vars.empty()) ? (int)rng.range(0, ncons) : 0;
  for (int i = 0; i < ncons; ++i) {
    AlgCon a;
    a.tag = c.tag();
    int nt = (int)rng.range(i < n_nl_cons ? 0 : 1, std::min(nv, 4));
    std::set<int> used;
    for (int t = 0; t < nt; ++t) {
      int j = (int)rng.below(nv);
      if (used.count(j)) continue;
      used.insert(j);
      double coef = (double)((i + 1) * 100 + (j + 1));     // unique per (row, column)
      if (rng.chance(0.3)) coef = -coef;
      if (rng.chance(0.15)) coef += 0.5;
      add_lin(a.lin, j, coef);
    }
    sort_lin(a.lin);
    int shape = (int)rng.below(5);
    double base = (double)(1000 + 10 * i);
    switch (shape) {
      case 0: a.lb = -base; a.ub = base + 1; break;       // range
      case 1: a.lb = -INFINITY; a.ub = base + 2; break;   // <=
      case 2: a.lb = -base - 3; a.ub = INFINITY; break;   // >=
      case 3: a.lb = a.ub = (double)(i + 4); break;       // ==
      default: a.lb = -base; a.ub = base; break;          // symmetric range
    }
    if (rng.chance(0.03)) { a.lb = -INFINITY; a.ub = INFINITY; }   // free row
    if (i < n_nl_cons && (features & F_CONE) && rng.chance(0.6)) {
      // a constraint in one of the shapes the converter recognises as a (rotated) second-order or exponential cone:
      // no tag inside the body (it would destroy the shape), no linear part unless the shape has one
      a.has_nl = true; a.lin.clear();
      std::vector<int> vs = con_nl_vars;
      for (size_t k = vs.size(); k > 1; --k) std::swap(vs[k - 1], vs[rng.below(k)]);
      auto nonneg = [&](int j) { Var& v = m.vars[(size_t)j]; v.lb = 0; v.ub = rng.chance(0.5) ? INFINITY : (double)rng.range(1, 20); if (std::isinf(v.ub)) m.all_bounded = false; };
      auto sq = [&](int j, double coef) {          // coef * x_j^2, written with o5 (pow 2), o77 (sqr) or x*x
        int w = (int)rng.below(3);
        Expr x2 = w == 0 ? Expr::Op(5, {Expr::Var(j), Expr::Num(2)}) : w == 1 ? Expr::Op(77, {Expr::Var(j)}) : Expr::Op(2, {Expr::Var(j), Expr::Var(j)});
        return coef == 1 ? x2 : Expr::Op(2, {Expr::Num(coef), x2});
      };
      auto sum = [&](std::vector<Expr> t) { if (t.size() == 1) return t[0]; if (t.size() == 2) return Expr::Op(0, {t[0], t[1]}); return Expr::Op(54, t); };
      int nrhs = (int)rng.range(1, std::max(1, std::min((int)vs.size() - 1, 3)));
      std::vector<Expr> norm2;                        // sum of squares of vs[1..nrhs]
      for (int k = 1; k <= nrhs && k < (int)vs.size(); ++k) norm2.push_back(sq(vs[(size_t)k], rng.chance(0.5) ? 1.0 : (double)rng.range(2, 9)));
      if (rng.chance(0.3)) norm2.push_back(Expr::Num((double)rng.range(1, 9)));     // + c^2
      int shape2 = (int)rng.below(6);
      int head = vs[0];
      switch (shape2) {
        case 0: {   // ||y||^2 <= (b x)^2, x >= 0   (quadratic form)
          nonneg(head);
          std::vector<Expr> t = norm2; t.push_back(sq(head, -(double)rng.range(1, 4)));
          a.nl = sum(t); a.lb = -INFINITY; a.ub = 0; break;
        }
        case 1: {   // (b x)^2 >= ||y||^2 written as >=
          nonneg(head);
          std::vector<Expr> t; t.push_back(sq(head, (double)rng.range(1, 4)));
          for (auto& e : norm2) t.push_back(Expr::Op(16, {e}));
          a.nl = sum(t); a.lb = 0; a.ub = INFINITY; break;
        }
        case 2: {   // rotated: ||z||^2 <= k x1 x2, x1, x2 >= 0
          if (vs.size() < 3) { nonneg(head); std::vector<Expr> t = norm2; t.push_back(sq(head, -1)); a.nl = sum(t); a.lb = -INFINITY; a.ub = 0; break; }
          int h2 = vs.back(); nonneg(head); nonneg(h2);
          std::vector<Expr> t;
          for (int k = 1; k + 1 < (int)vs.size() && k <= 2; ++k) t.push_back(sq(vs[(size_t)k], 1));
          t.push_back(Expr::Op(2, {Expr::Num(-(double)rng.range(1, 4)), Expr::Op(2, {Expr::Var(head), Expr::Var(h2)})}));
          a.nl = sum(t); a.lb = -INFINITY; a.ub = 0; break;
        }
        case 3: {   // sqrt(||y||^2) <= b x   (linear part carries b x)
          nonneg(head);
          a.nl = Expr::Op(39, {sum(norm2)});
          a.lin.push_back({head, -(double)rng.range(1, 5)}); a.lb = -INFINITY; a.ub = 0; break;
        }
        case 4: {   // abs(a y) <= b x
          nonneg(head);
          a.nl = Expr::Op(15, {Expr::Op(2, {Expr::Num((double)rng.range(2, 5)), Expr::Var(vs[1])})});
          a.lin.push_back({head, -(double)rng.range(1, 5)}); a.lb = -INFINITY; a.ub = 0; break;
        }
        default: {  // exponential cone: x1 >= x2 * exp(x3 / x2), x1, x2 >= 0
          if (vs.size() < 3) { nonneg(head); a.nl = Expr::Op(44, {Expr::Var(vs[1])}); a.lin.push_back({head, -1}); a.lb = -INFINITY; a.ub = 0; break; }   // exp(y) <= x
          nonneg(head); nonneg(vs[1]);
          a.nl = Expr::Op(2, {Expr::Var(vs[1]), Expr::Op(44, {Expr::Op(3, {Expr::Var(vs[2]), Expr::Var(vs[1])})})});
          a.lin.push_back({head, -1}); a.lb = -INFINITY; a.ub = 0; break;
        }
      }
      sort_lin(a.lin);
    } else if (i < n_nl_cons) {
      a.has_nl = true;
      c.nl_vars = con_nl_vars; c.ncommon_avail = (int)m.commons.size();
      Expr body = gen_num(c, (int)rng.range(1, opt.max_depth));
      a.nl = Expr::Op(0, {body, Expr::Num(a.tag)});
    }
    m.cons.push_back(a);
  }
  // a long run of plain linear range rows at the end (a size at which per-item bookkeeping is done in blocks)
  for (int i = 0; i < opt.extra_ranges; ++i) {
    AlgCon a;
    a.tag = 0;
    int j = i % nv, j2 = (i / nv + j + 1) % nv;
    add_lin(a.lin, j, (double)(100000 + 10 * i + 1));
    if (j2 != j) add_lin(a.lin, j2, -(double)(100000 + 10 * i + 3));
    sort_lin(a.lin);
    a.lb = -50000.0 - i; a.ub = 50000.0 + i;
    m.cons.push_back(a);
  }

  // ---- logical constraints
  for (int i = 0; i < nl; ++i) {
    LogCon lc;
    c.nl_vars = con_nl_vars; c.ncommon_avail = (int)m.commons.size();
    if (c.nl_vars.empty()) break;
    unsigned save = c.features;
    c.features |= F_LOGIC;
    lc.e = gen_log(c, (int)rng.range(1, opt.max_depth));
    c.features = save;
    m.lcons.push_back(lc);
  }

  // ---- objectives
  c.pool.clear();
  for (int i = 0; i < nobjs; ++i) {
    Obj o;
    o.maximize = rng.chance(0.4);
    int nt = (int)rng.range(opt.tag_objectives ? 1 : 0, std::min(nv, 4));
    if (opt.tag_objectives && rng.chance(0.15)) nt = 0;     // an objective without linear part (no G segment): a constant, or purely nonlinear
    std::set<int> used;
    for (int t = 0; t < nt; ++t) {
      int j = (int)rng.below(nv);
      if (used.count(j)) continue;
      used.insert(j);
      // tags that small-integer arithmetic does not produce by accident (40000 = 2*2000*10 turned up as the cross term of a square)
      double coef = opt.tag_objectives ? (double)(20000 * (i + 1) + 11 + 2 * j) : (double)(50 * (i + 1) + j + 1);
      if (!opt.tag_objectives && rng.chance(0.3)) coef = -coef;
      add_lin(o.lin, j, coef);
      o.tags.push_back(coef);
    }
    sort_lin(o.lin);
    o.constant = opt.tag_objectives ? 800000.5 + 1000.0 * i : (rng.chance(0.3) ? (double)rng.range(-9, 9) : 0.0);
    if (opt.tag_objectives) o.tags.push_back(o.constant);
    bool want_nl = has_nl && !obj_nl_vars.empty() && rng.chance(0.5);
    if (want_nl) {
      o.has_nl = true;
      c.nl_vars = obj_nl_vars; c.ncommon_avail = commons_in_objs ? (int)m.commons.size() : 0;
      double t = opt.tag_objectives ? 700001.0 + 1000.0 * i : c.tag();   // far apart: derived bounds (tag +- small) must not collide
      Expr body;
      if (opt.tag_objectives) {
        // shapes whose tag constant survives flattening
        int k = (int)rng.below(4);
        Expr x = var_leaf(c);
        if (k == 3) body = Expr::Op(2, {Expr::Num(o.maximize ? -t : t), Expr::Op(77, {x})});    // +-tag * x^2 (convex for the sense: may become a cone)
        else if (k == 0) body = Expr::Op(15, {Expr::Op(0, {x, Expr::Num(t)})});                // abs(x + tag)
        else if (k == 1) body = Expr::Op(2, {Expr::Op(2, {x, var_leaf(c)}), Expr::Num(t)});     // x*y*tag
        else body = Expr::Op(12, {Expr::Op(0, {x, Expr::Num(t)}), Expr::Num(-t)});              // max(x + tag, -tag)
      } else {
        body = Expr::Op(0, {gen_num(c, (int)rng.range(1, opt.max_depth)), Expr::Num(t)});
      }
      o.tags.push_back(t);
      o.nl = o.constant != 0 ? Expr::Op(0, {body, Expr::Num(o.constant)}) : body;
    } else if (o.constant != 0) {
      o.has_nl = false;   // constant-only nonlinear part is written as n<const>
    }
    if (opt.tag_objectives && rng.chance(0.14)) {
      // an objective without content: AMPL's dummy "minimize Feas: 0;", or one whose G term and O expression cancel
      // (it still is the k-th objective of the file, and the solver is given an objective with nothing in it)
      o.lin.clear(); o.tags.clear(); o.constant = 0; o.has_nl = false; o.nl = Expr();
      if (has_nl && !obj_nl_vars.empty() && rng.chance(0.35)) {
        int j = obj_nl_vars[rng.below(obj_nl_vars.size())];
        double cf = (double)rng.range(2, 9);
        add_lin(o.lin, j, cf);
        o.has_nl = true; o.nl = Expr::Op(2, {Expr::Num(-cf), Expr::Var(j)});
        o.cancels = true;
      }
    }
    m.objs.push_back(o);
  }

  // ---- complementarity on a linear constraint (rare)
  if (!opt.linear_only && !m.cons.empty() && rng.chance(0.05)) {
    AlgCon& a = m.cons.back();
    a.compl_var = (int)rng.below(nv);
    a.lb = -INFINITY; a.ub = INFINITY;
  }

  // ---- suffixes, initial values
  if (opt.want_suffixes) {
    if (rng.chance(0.25)) { Suffix s; s.name = "priority"; s.kind = 0; for (int j = 0; j < nv; ++j) if (rng.chance(0.6)) s.values.push_back({j, (double)(100 + j)}); if (!s.values.empty()) m.suffixes.push_back(s); }
    if (rng.chance(0.2) && !m.cons.empty()) { Suffix s; s.name = "lazy"; s.kind = 1; for (int i = 0; i < (int)m.cons.size(); ++i) if (rng.chance(0.6)) s.values.push_back({i, (double)((i % 3) - 1)}); if (!s.values.empty()) m.suffixes.push_back(s); }
    if (rng.chance(0.2)) {
      Suffix s; s.name = "sstatus"; s.kind = 0; for (int j = 0; j < nv; ++j) s.values.push_back({j, (double)(1 + (j % 6))}); m.suffixes.push_back(s);
      if (!m.cons.empty()) { Suffix t; t.name = "sstatus"; t.kind = 1; for (int i = 0; i < (int)m.cons.size(); ++i) t.values.push_back({i, (double)(1 + ((i + 2) % 6))}); m.suffixes.push_back(t); }
    }
    if (rng.chance(0.10) && nv >= 2) {   // SOS via suffixes: .sosno/.ref (positive: SOS1, negative: SOS2), 1..4 members
      Suffix s; s.name = "sosno"; s.kind = 0; Suffix r; r.name = "ref"; r.kind = 0; r.real = true;
      int members = (int)rng.range(nv >= 3 ? 2 : 1, std::min(nv, 4));
      if (rng.chance(0.1)) members = 1;
      double no = rng.chance(0.5) ? 1 : -1;
      for (int j = 0; j < members; ++j) { s.values.push_back({j, no}); r.values.push_back({j, (double)(j + 1)}); }
      m.suffixes.push_back(s); m.suffixes.push_back(r);
    } else if (rng.chance(0.08) && nv >= 2) {   // .sos/.sosref: what AMPL emits when it linearizes a piecewise-linear term itself (SOS2)
      Suffix s; s.name = "sos"; s.kind = 0; Suffix r; r.name = "sosref"; r.kind = 0; r.real = true;
      int members = (int)rng.range(2, std::min(nv, 5));
      int first = (int)rng.below((uint64_t)(nv - members + 1));
      for (int j = 0; j < members; ++j) { s.values.push_back({first + j, 3}); r.values.push_back({first + j, (double)(j + 1)}); }
      m.suffixes.push_back(s); m.suffixes.push_back(r);
    }
    if (rng.chance(0.12)) {   // a re-solve: the file carries the *result* suffixes of an earlier run (.iis on variables and constraints)
      Suffix s; s.name = "iis"; s.kind = 0; for (int j = 0; j < nv; ++j) s.values.push_back({j, (double)(1 + (j % 7))}); m.suffixes.push_back(s);
      if (!m.cons.empty()) { Suffix t; t.name = "iis"; t.kind = 1; for (int i = 0; i < (int)m.cons.size(); ++i) t.values.push_back({i, (double)(1 + ((i + 3) % 7))}); m.suffixes.push_back(t); }
    }
    if (rng.chance(0.1) && nobjs > 0) { Suffix s; s.name = "objpriority"; s.kind = 2; for (int i = 0; i < nobjs; ++i) s.values.push_back({i, (double)(i + 1)}); m.suffixes.push_back(s); }
  }
  if (rng.chance(0.3)) for (int j = 0; j < nv; ++j) if (rng.chance(0.7)) m.x0.push_back({j, 30000.0 + j + 0.125});
  if (rng.chance(0.2)) for (int i = 0; i < (int)m.cons.size(); ++i) if (rng.chance(0.7)) m.d0.push_back({i, 40000.0 + i + 0.375});

  if (opt.want_names) {
    for (int j = 0; j < nv; ++j) m.vars[j].name = gen_name(rng, "x", j);
    for (int i = 0; i < (int)m.cons.size(); ++i) m.cons[i].name = gen_name(rng, "c", i);
    for (int i = 0; i < (int)m.lcons.size(); ++i) m.lcons[i].name = gen_name(rng, "lc", i);
    for (int i = 0; i < (int)m.objs.size(); ++i) m.objs[i].name = gen_name(rng, "obj", i);
  }

  m.linear_clean = !has_nl && m.all_bounded && m.lcons.empty() && m.commons.empty();
  for (auto& a : m.cons) if (a.compl_var >= 0) m.linear_clean = false;
  for (auto& v : m.vars) if (v.lb > v.ub) m.linear_clean = false;
  for (auto& s : m.suffixes) if (s.name == "sosno" || s.name == "sos") m.linear_clean = false;
  return m;
}

// ------------------------------------------------------------------ NL emitter (text and binary)
namespace {

// One writer for both encodings: header lines are text in both; after the header a text file has
// one record per line with blank-separated fields, a binary file has a code byte, 4-byte ints,
// 8-byte doubles and length-prefixed strings (little endian, arith kind 1).
struct W {
  bool bin;
  std::string out;
  bool first = true;   // text: no blank before the first field of a record / right after a code letter
  void code(char c) { out += c; first = true; }
  void i(long v) {
    if (bin) { int32_t x = (int32_t)v; out.append((const char*)&x, 4); return; }
    if (!first) out += ' ';
    out += std::to_string(v); first = false;
  }
  void d(double v) {
    if (bin) { out.append((const char*)&v, 8); return; }
    if (!first) out += ' ';
    out += fmt_double(v); first = false;
  }
  void name(const std::string& v) {          // F and S segment names
    if (bin) { i((long)v.size()); out += v; return; }
    if (!first) out += ' ';
    out += v; first = false;
  }
  void str(const std::string& v) {           // 'h' string literal
    if (bin) { i((long)v.size()); out += v; return; }
    out += std::to_string(v.size()) + ":" + v; first = false;
  }
  void eol() { if (!bin) out += '\n'; first = true; }
};

void emit_expr(W& w, const Expr& e) {
  switch (e.kind) {
    case 'n': w.code('n'); w.d(e.num); w.eol(); return;
    case 'v': w.code('v'); w.i(e.index); w.eol(); return;
    case 'h': w.code('h'); w.str(e.str); w.eol(); return;
    case 'f':
      w.code('f'); w.i(e.op); w.i((long)e.args.size()); w.eol();
      for (auto& a : e.args) emit_expr(w, a);
      return;
    case 'o': break;
  }
  w.code('o'); w.i(e.op); w.eol();
  if (e.op == 64) {
    w.i((long)e.slopes.size()); w.eol();
    for (size_t k = 0; k < e.breakpoints.size(); ++k) {
      w.code('n'); w.d(e.slopes[k]); w.eol();
      w.code('n'); w.d(e.breakpoints[k]); w.eol();
    }
    w.code('n'); w.d(e.slopes.back()); w.eol();
    emit_expr(w, e.args[0]);
    return;
  }
  bool vararg = e.op == 11 || e.op == 12 || e.op == 54 || e.op == 59 || e.op == 60 || e.op == 61 || e.op == 70 || e.op == 71 || e.op == 74 || e.op == 75;
  if (vararg) { w.i((long)e.args.size()); w.eol(); }
  for (auto& a : e.args) emit_expr(w, a);
}

void emit_bound(W& w, double lb, double ub) {
  bool il = std::isinf(lb), iu = std::isinf(ub);
  // the bound kind is a character in both encodings
  if (il && iu) { w.out += '3'; w.first = false; }
  else if (il) { w.out += '1'; w.first = false; w.d(ub); }
  else if (iu) { w.out += '2'; w.first = false; w.d(lb); }
  else if (lb == ub) { w.out += '4'; w.first = false; w.d(lb); }
  else { w.out += '0'; w.first = false; w.d(lb); w.d(ub); }
  w.eol();
}

}  // namespace

std::string emit_nl(const Model& m, bool binary) {
  std::string out;
  int nv = m.nvars(), nc = (int)m.cons.size(), no = (int)m.objs.size(), nl = (int)m.lcons.size();
  int nranges = 0, neqns = 0, ncompl = 0;
  for (auto& a : m.cons) {
    if (a.compl_var >= 0) { ++ncompl; continue; }
    if (!std::isinf(a.lb) && !std::isinf(a.ub)) { if (a.lb == a.ub) ++neqns; else ++nranges; }
  }
  size_t nzJ = 0, nzG = 0;
  for (auto& a : m.cons) nzJ += a.lin.size();
  for (auto& o : m.objs) nzG += o.lin.size();
  out += (binary ? "b" : "g") + std::to_string(m.noptions);
  for (int i = 0; i < m.noptions; ++i) out += " " + std::to_string(m.options[i]);
  out += "\t# problem gen\n";
  out += " " + std::to_string(nv) + " " + std::to_string(nc) + " " + std::to_string(no) + " " + std::to_string(nranges) + " " + std::to_string(neqns) + " " + std::to_string(nl) + "\t# vars, constraints, objectives, ranges, eqns, lcons\n";
  out += " " + std::to_string(m.num_nl_cons()) + " " + std::to_string(m.num_nl_objs()) + " " + std::to_string(ncompl) + " 0\t# nonlinear constraints, objectives; compl\n";
  out += " 0 0\t# network constraints: nonlinear, linear\n";
  out += " " + std::to_string(m.nlvc) + " " + std::to_string(m.nlvo) + " " + std::to_string(m.nlvb) + "\t# nonlinear vars in constraints, objectives, both\n";
  out += " 0 " + std::to_string(m.funcs.size()) + (binary ? " 1 1" : " 0 1") + "\t# linear network variables; functions; arith, flags\n";
  out += " " + std::to_string(m.nbv) + " " + std::to_string(m.niv) + " " + std::to_string(m.nlvbi) + " " + std::to_string(m.nlvci) + " " + std::to_string(m.nlvoi) + "\t# discrete variables: binary, integer, nonlinear (b,c,o)\n";
  out += " " + std::to_string(nzJ) + " " + std::to_string(nzG) + "\t# nonzeros in Jacobian, gradients\n";
  out += " 0 0\t# max name lengths: constraints, variables\n";
  out += " " + std::to_string(m.commons.size()) + " 0 0 0 0\t# common exprs: b,c,o,c1,o1\n";
  W w; w.bin = binary;
  for (size_t i = 0; i < m.funcs.size(); ++i) {
    w.code('F'); w.i((long)i); w.i(m.funcs[i].type); w.i(m.funcs[i].nargs); w.name(m.funcs[i].name); w.eol();
  }
  for (auto& s : m.suffixes) {
    w.code('S'); w.i(s.kind | (s.real ? 4 : 0)); w.i((long)s.values.size()); w.name(s.name); w.eol();
    for (auto& v : s.values) { w.i(v.first); if (s.real || !binary) w.d(v.second); else w.i((long)v.second); w.eol(); }
  }
  for (size_t k = 0; k < m.commons.size(); ++k) {
    w.code('V'); w.i((long)(nv + k)); w.i((long)m.commons[k].lin.size()); w.i(0); w.eol();
    for (auto& t : m.commons[k].lin) { w.i(t.var); w.d(t.coef); w.eol(); }
    emit_expr(w, m.commons[k].nl);
  }
  for (int i = 0; i < nc; ++i) {
    w.code('C'); w.i(i); w.eol();
    if (m.cons[i].has_nl) emit_expr(w, m.cons[i].nl); else { w.code('n'); w.d(0); w.eol(); }
  }
  for (int i = 0; i < nl; ++i) { w.code('L'); w.i(i); w.eol(); emit_expr(w, m.lcons[i].e); }
  for (int i = 0; i < no; ++i) {
    w.code('O'); w.i(i); w.i(m.objs[i].maximize ? 1 : 0); w.eol();
    if (m.objs[i].has_nl) emit_expr(w, m.objs[i].nl);
    else { w.code('n'); w.d(m.objs[i].constant); w.eol(); }
  }
  if (!m.d0.empty()) { w.code('d'); w.i((long)m.d0.size()); w.eol(); for (auto& v : m.d0) { w.i(v.first); w.d(v.second); w.eol(); } }
  if (!m.x0.empty()) { w.code('x'); w.i((long)m.x0.size()); w.eol(); for (auto& v : m.x0) { w.i(v.first); w.d(v.second); w.eol(); } }
  if (nc > 0) {
    w.code('r'); w.eol();
    for (auto& a : m.cons) {
      if (a.compl_var >= 0) { w.out += '5'; w.first = false; w.i(3); w.i(a.compl_var + 1); w.eol(); }
      else emit_bound(w, a.lb, a.ub);
    }
  }
  w.code('b'); w.eol();
  for (auto& v : m.vars) emit_bound(w, v.lb, v.ub);
  if (nc > 0 && nv > 1) {
    std::vector<int> colcount(nv, 0);
    for (auto& a : m.cons) for (auto& t : a.lin) colcount[t.var]++;
    w.code('k'); w.i(nv - 1); w.eol();
    int cum = 0;
    for (int j = 0; j < nv - 1; ++j) { cum += colcount[j]; w.i(cum); w.eol(); }
  } else if (nv > 1) {
    w.code('k'); w.i(nv - 1); w.eol();
    for (int j = 0; j < nv - 1; ++j) { w.i(0); w.eol(); }
  }
  for (int i = 0; i < nc; ++i) {
    if (m.cons[i].lin.empty()) continue;
    w.code('J'); w.i(i); w.i((long)m.cons[i].lin.size()); w.eol();
    for (auto& t : m.cons[i].lin) { w.i(t.var); w.d(t.coef); w.eol(); }
  }
  for (int i = 0; i < no; ++i) {
    if (m.objs[i].lin.empty()) continue;
    w.code('G'); w.i(i); w.i((long)m.objs[i].lin.size()); w.eol();
    for (auto& t : m.objs[i].lin) { w.i(t.var); w.d(t.coef); w.eol(); }
  }
  return out + w.out;
}

std::string emit_nl_text(const Model& m) { return emit_nl(m, false); }

std::string emit_col(const Model& m) {
  std::string s;
  for (auto& v : m.vars) s += v.name + "\n";
  return s;
}
std::string emit_row(const Model& m) {
  std::string s;
  for (auto& a : m.cons) s += a.name + "\n";
  for (auto& l : m.lcons) s += l.name + "\n";
  for (auto& o : m.objs) s += o.name + "\n";
  return s;
}

std::string describe(const Model& m) {
  return "vars=" + std::to_string(m.nvars()) + " cons=" + std::to_string(m.cons.size()) + " lcons=" + std::to_string(m.lcons.size()) +
         " objs=" + std::to_string(m.objs.size()) + " commons=" + std::to_string(m.commons.size()) + " features=" + m.features +
         (m.linear_clean ? " LINEAR_CLEAN" : "") + (m.uses_unsupported ? " UNSUP" : "");
}

}  // namespace gen
