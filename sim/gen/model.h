// Neutral model IR + seeded generator + text NL emitter (oracle side: independent of NLW2).
// Every generated item carries unique, attributable constants ("tags") so that oracles can
// match delivered items to original ones by content.
#pragma once
#include <map>
#include <string>
#include <vector>

#include "../core/json.h"
#include "../core/prng.h"

namespace gen {

struct Expr {
  // kind: 'n' number, 'v' variable (index may refer to a common expr: >= nvars), 'o' operator, 'f' function call, 'h' string
  char kind = 'n';
  int op = 0;                 // NL opcode for 'o'; function index for 'f'
  double num = 0;             // value for 'n'
  int index = 0;              // variable index for 'v'
  std::string str;            // for 'h'
  std::vector<Expr> args;
  // piecewise-linear term (op 64): slopes.size() == breakpoints.size() + 1, args[0] is the variable
  std::vector<double> slopes, breakpoints;
  bool logical = false;
  static Expr Num(double v) { Expr e; e.kind = 'n'; e.num = v; return e; }
  static Expr Var(int j) { Expr e; e.kind = 'v'; e.index = j; return e; }
  static Expr Op(int op, std::vector<Expr> a, bool logical = false) { Expr e; e.kind = 'o'; e.op = op; e.args = std::move(a); e.logical = logical; return e; }
  bool is_zero_const() const { return kind == 'n' && num == 0; }
};

struct LinTerm { int var; double coef; };

struct Var { double lb = 0, ub = 0; bool integer = false; std::string name; };
struct AlgCon {
  double lb = 0, ub = 0;            // +-inf allowed
  std::vector<LinTerm> lin;         // sorted by var
  bool has_nl = false; Expr nl;
  int compl_var = -1;               // complementarity (r-kind 5) if >= 0
  std::string name;
  double tag = 0;                   // unique constant embedded in this constraint
};
struct LogCon { Expr e; std::string name; };
struct Obj {
  bool maximize = false;
  std::vector<LinTerm> lin;
  bool has_nl = false; Expr nl;     // constant folded into nl as n<const> when no other nl part
  double constant = 0;
  std::vector<double> tags;         // tag constants that identify this objective (linear coefs + nl tag)
  bool cancels = false;             // the G term and the O expression cancel: the objective has no content
  std::string name;
};
struct CommonExpr { std::vector<LinTerm> lin; Expr nl; };
struct Suffix { std::string name; int kind = 0; bool real = false; std::vector<std::pair<int, double>> values; };
struct Func { std::string name; int nargs = 1; int type = 0; };

struct Model {
  std::vector<Var> vars;
  // NL variable-class counts (variables are stored in NL order)
  int nlvb = 0, nlvc = 0, nlvo = 0;       // as written in the header
  int nlvbi = 0, nlvci = 0, nlvoi = 0;    // integer among them
  int nbv = 0, niv = 0;                   // linear binary / integer
  std::vector<AlgCon> cons;               // nonlinear first
  std::vector<LogCon> lcons;
  std::vector<Obj> objs;
  std::vector<CommonExpr> commons;
  std::vector<Suffix> suffixes;
  std::vector<Func> funcs;
  std::vector<std::pair<int, double>> x0, d0;   // initial primal / dual
  long options[3] = {1, 1, 0};
  int noptions = 3;
  // generator-known facts
  bool linear_clean = false;      // linear objs/cons only, finite bounds, no logical parts
  bool uses_unsupported = false;  // contains an operator/function the converter cannot handle
  bool all_bounded = true;
  std::string features;           // comma-separated feature names used
  int nvars() const { return (int)vars.size(); }
  int num_nl_cons() const { int n = 0; for (auto& c : cons) n += c.has_nl; return n; }
  int num_nl_objs() const { int n = 0; for (auto& o : objs) n += o.has_nl; return n; }
};

struct GenOptions {
  int max_vars = 8, max_cons = 6, max_lcons = 4, max_objs = 3;
  int min_objs = 0;
  double p_nonlinear = 0.5;       // chance that a model has any nonlinear/logical content
  bool allow_unsupported = true;  // functions, atan2, round, ... (converter refuses)
  bool allow_unbounded = true;    // infinite variable bounds
  bool allow_infeasible_bounds = false;
  bool want_names = false;
  bool want_suffixes = true;
  bool linear_only = false;
  bool tag_objectives = false;    // C12: objective i gets linear tags 1000(i+1)+j, constant 0.5+i, nl tag 7000+i
  int max_depth = 3;
  int extra_ranges = 0;           // that many plain linear range rows appended after the generated ones
};

Model generate(sim::Rng& rng, const GenOptions& opt);

// Text NL of a model.  Also returns .col/.row contents when names exist.
std::string emit_nl_text(const Model& m);
// text (binary=false) or binary little-endian NL file of the same model
std::string emit_nl(const Model& m, bool binary);
std::string emit_col(const Model& m);
std::string emit_row(const Model& m);

// A compact description for evidence samples / debugging
std::string describe(const Model& m);

std::string fmt_double(double v);   // %.17g with inf handling as NL expects

}  // namespace gen
