# Entries for /verif/propcfg.py  (paste into PROPS; _IO_ASSUME next to _DRV_ASSUME).
# Budgets: single-thread throughput measured on this machine (ASan + full UBSan, -O1):
#   C02 ~550 runs/s, C14 ~950 runs/s, C05 ~2600 runs/s, C03 ~400 runs/s  (x16 workers in the pool).

_IO_ASSUME = [
    'the storage between writer and reader is the simulated disk (a private tmpfs directory plus the libc shim); '
    'faults are those of the fault plan (open/fstat/read/mmap/close, fopen/fread/fwrite/fclose), not real device errors',
    'allocation cap: a single allocation above 256 MiB throws std::bad_alloc instead of exhausting the machine '
    '(hostile counts then surface as bad_alloc, which the oracles accept)',
    'trusted base: the generator IR and its own text/binary NL emitter (sim/iosim/nlgen.cc), the recording handlers '
    '(sim/iosim/nlrec.h, solread.cc), the independent operator table (sim/iosim/nlops.h), the own .sol emitters '
    '(sim/iosim/solgen.cc; the text one is cross-checked against the real writer on every generated scenario)',
    'inputs are bounded: models <= 8 variables / 6 algebraic + 3 logical constraints / 3 objectives, expression depth <= 4, '
    'files <= ~16 KiB (page-multiple family up to 3 pages); deep-recursion stack exhaustion on megabyte inputs is not explored',
    'files that change while being read (size reported by fstat differs from the bytes delivered) are a separate batch judged '
    'only for "terminates without memory error"; size lies that would make the kernel raise SIGBUS/SEGV on the mapping are not generated',
    'UBSan prints to the worker\'s stderr (it ignores log_path in this toolchain), so iosim does not capture fd 2 during runs',
    'only C/POSIX locales exist in this image: locale faults are not injected',
]

PROPS_IOSIM = {
    'C02': dict(
        engine='iosim', level='exploration',
        quick=dict(count=320000), thorough=dict(budget_s=540),
        shrink_paths=[['damage'], ['faults'], ['handlers'], ['simfile', 'chunks']],
        rule='scenario = NL bytes from the structure-aware generator (text / binary / byte-swapped binary, padded below/at/above a page '
             'multiple half of the time) + label {valid 15%, damaged 37% (truncate at header/number/field/line/page boundary, torn tail, '
             'flip/set byte, zeroed block, duplicated block), hostile 33% (one structural field - header count, index, opcode, arity, '
             'string length, suffix kind - rewritten to -1/0/n/n+1/INT_MAX/2^31/2^32-1 ...), shrink 15% (file shorter than fstat says; '
             'verdict only "terminates")} + reader path {ReadNLString | NLFileReader<SimFile> with short reads | ReadNLFile through the shim '
             'with open/fstat/read/mmap/close faults} x flags {0, READ_BOUNDS_FIRST} x handlers {recording checker, mp::Problem, NullNLHandler}. '
             'Every scenario first reads the bytes in memory (exact-size heap buffer) and, when no hard I/O fault fired, demands the identical '
             'notification trace / exception from the file path. Non-trivial = bytes damaged/hostile or a file path used; distinct = distinct '
             '(label, format, path, damage kinds, fault kinds, outcome class + message skeleton per handler)',
        assumptions=_IO_ASSUME,
    ),
    'C14': dict(
        engine='iosim', level='exploration',
        quick=dict(count=600000), thorough=dict(budget_s=540),
        shrink_paths=[['damage'], ['rfaults'], ['wfaults'], ['consumer'], ['sol', 'sufs'], ['sol', 'x'], ['sol', 'y']],
        rule='scenario = seeded solution written by the real mp::WriteSolFile through the fopen shim (optionally with a write fault: '
             'what a crashed writer leaves behind) or by the own binary .sol emitter; then truncation / byte damage / one hostile field '
             '(counts line, option count, objno line, "suffix kind n namelen tablen tablines" fields, binary record lengths); declared problem '
             'size equal / 0 / smaller / larger; consumer script reading all / some / none of each offered vector, SetError mid-vector, '
             'a consumer that rejects a completely read vector in its own words, non-zero OnAMPLOptions; six consumer parties (C++ handler, the library\'s C wrapper around a recording '
             'callback table, its default C callback table, its own easy handler, the C flavour of that on a solver object with a history); read faults SHORT/EIO/ZERO/fopen errors. Oracle: terminates, no sanitizer report, documented return '
             'code with message, never offered more than declared, suffix name/table lengths as stated in the file, no vector reported '
             'complete that the complete file contradicts (prefix rule on truncated files). Non-trivial = anything but a pristine full read',
        assumptions=_IO_ASSUME,
    ),
    'C05': dict(
        engine='iosim', level='exploration',
        quick=dict(count=1200000), thorough=dict(budget_s=420),
        # the option list is deliberately not shrunk: emptying it would turn any finding into the 'no options' one
        shrink_paths=[['sol', 'sufs'], ['sol', 'x'], ['sol', 'y']],
        rule='scenario = seeded solution (message with blank lines / CRLF / backspaces / long lines; 0..9 options incl. the vbtol form, '
             '70% of scenarios restricted to 3..9 plain options so that the option findings do not mask everything else; primal/dual vectors '
             'absent / partial / full with 17-digit values, subnormals, extremes, -0 and (12%) Inf/NaN; objno; solve code; int/real suffixes of '
             'all four kinds with tables) written by the real mp::WriteSolFile and read by the real mp::ReadSOLFile with a consume-everything '
             'recording handler; in 25% a second reader party, the library\'s easy handler (C++ or C flavour) for a mixed-class model, must return message, code, values and variable '
             'suffixes in the caller\'s order. Fault-free, except a separate 6% configuration with one interrupted / short / failing flush of the writer (reported, or the complete file). Oracle: statement tolerances (integral < 1e15 exact, finite within 1e-15 relative, non-finite '
             'identical or non-OK code, message line by line modulo the reserved empty line). Non-trivial = has vectors or suffixes',
        assumptions=_IO_ASSUME,
    ),
    'C03': dict(
        engine='iosim', level='exploration',
        quick=dict(count=200000), thorough=dict(budget_s=540),
        shrink_paths=[['model', 'cons'], ['model', 'lcons'], ['model', 'objs'], ['model', 'sufs'], ['model', 'x0'], ['model', 'd0'],
                      ['model', 'cexprs'], ['model', 'funcs']],
        rule='scenario = explicit model IR (>= 1 variable; every NL operator incl. iterated ones, if/implication, piecewise-linear terms, '
             'function calls with string arguments, defined variables, complementarity, suffixes of 4 kinds int/real, initial primal/dual '
             'values; 60% with awkward doubles: subnormals, +-DBL_MAX, 17-digit values, +-0, +-Inf) fed through the real NLW2 writer in text '
             'AND binary, x comments on/off x bounds first/last x column sizes none/cumulative/plain x output precision 0 / 17..30, read back with the real mp::ReadNLFile '
             '(flags 0 / READ_BOUNDS_FIRST) and the recording checker. Oracle: per-item reader history == feed history computed from the IR '
             '(operators through an independent name<->number table), doubles bit-identical except the sign of zero; text history == binary '
             'history. Fault-free. Non-trivial = model has constraints or objectives',
        assumptions=_IO_ASSUME,
    ),
}
