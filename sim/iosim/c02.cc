// C02 — the NL reader is total, memory-safe and reports only validated data.
//
// Parties: writer (own structure-aware generator, text / binary / byte-swapped binary), storage
// adversary (byte-level damage), hostile writer (one structural field rewritten to a boundary
// value), reader (ReadNLString | NLFileReader<SimFile> | ReadNLFile through the syscall shim)
// with three receiving handlers.
#include <algorithm>
#include <set>

#include "io_common.h"
#include "nlgen.h"
#include "nlread.h"

namespace iosim {
namespace {

const char* kHandlerNames[] = {"check", "problem", "null"};
const size_t kPage = 4096;

size_t round_up(size_t n) { return (n + kPage - 1) / kPage * kPage; }

// Is it safe (no kernel-level SIGBUS/SEGV that no reader could avoid) to let size() claim `claimed`
// bytes for a file that really has `real` bytes?  See FINDINGS/DESIGN: files that change while
// being read are outside the statement; only "terminates" is judged there.
bool safe_claim(size_t real, size_t claimed) {
  if (claimed % kPage == 0) return true;               // copy path: explicit NUL terminator
  if (round_up(claimed) > round_up(real)) return false;  // would touch pages beyond end of file
  return claimed >= real || round_up(claimed) > real;    // a zero byte exists inside the mapping
}

Json damage_op(const char* kind, long at) {
  Json o = Json::object(); o.set("kind", kind); o.set("at", at); return o;
}

Json gen_damage(Rng& rng, const Emitted& em) {
  Json list = Json::array();
  size_t n = em.bytes.size();
  if (n == 0) return list;
  int count = rng.chance(0.8) ? 1 : 2;
  for (int i = 0; i < count; ++i) {
    int pick = (int)rng.below(100);
    if (pick < 30) {           // truncation at a class of position
      long at;
      int cls = (int)rng.below(6);
      if (cls == 0) at = (long)rng.below(em.header_end + 1);                       // inside the header
      else if (cls == 1 && !em.numbers.empty()) {                                  // inside a number
        auto nb = rng.pick(em.numbers); at = (long)(nb.first + rng.below(nb.second + 1));
      } else if (cls == 2 && !em.fields.empty()) {                                 // inside / right after a structural field
        auto& f = rng.pick(em.fields); at = (long)(f.off + rng.below(f.len + 1));
      } else if (cls == 3) {                                                       // at a line boundary
        at = (long)rng.below(n);
        while (at > 0 && em.bytes[(size_t)at - 1] != '\n') --at;
      } else if (cls == 4 && n > kPage) at = (long)(n / kPage * kPage);            // leaves exactly k pages
      else at = (long)rng.below(n);
      list.push(damage_op("truncate", at));
    } else if (pick < 42) {
      Json o = damage_op(rng.chance(0.6) ? "torn" : "tornzero", (long)rng.below(n + 1));
      o.set("unit", rng.chance(0.5) ? 512 : 4096);
      list.push(o);
    } else if (pick < 62) {
      long at = rng.chance(0.3) ? (long)rng.below(em.header_end + 1) : (long)rng.below(n);
      if (rng.chance(0.5)) { Json o = damage_op("flip", at); o.set("x", 1 << rng.below(8)); list.push(o); }
      else {
        static const int bytes[] = {0, '\n', ' ', '-', '9', '0', 'o', 'v', 0xff, 0x80, ':', 'n', 'e', '.', 'b', 'g'};
        Json o = damage_op("set", at); o.set("b", rng.pick(bytes)); list.push(o);
      }
    } else if (pick < 80) {
      Json o = damage_op("zero", (long)rng.below(n));
      o.set("len", rng.chance(0.5) ? (long)(1 + rng.below(16)) : rng.chance(0.5) ? 512 : 4096);
      list.push(o);
    } else {
      long at = (long)rng.below(n);
      if (rng.chance(0.5)) while (at > 0 && em.bytes[(size_t)at - 1] != '\n') --at;
      Json o = damage_op("dup", at);
      o.set("len", rng.chance(0.6) ? (long)(1 + rng.below(64)) : rng.chance(0.5) ? 512 : (long)(1 + rng.below(n)));
      list.push(o);
    }
  }
  return list;
}

Json gen_hostile(Rng& rng, const Emitted& em, bool bin, bool swap) {
  Json list = Json::array();
  if (em.fields.empty()) return list;
  std::vector<std::string> classes;
  {
    std::set<std::string> s;
    for (auto& f : em.fields) s.insert(f.cls);
    classes.assign(s.begin(), s.end());
  }
  int count = rng.chance(0.88) ? 1 : 2;
  for (int i = 0; i < count; ++i) {
    const std::string& cls = rng.pick(classes);
    std::vector<const Field*> inst;
    for (auto& f : em.fields) if (cls == f.cls) inst.push_back(&f);
    const Field& f = *rng.pick(inst);
    if (i > 0) {   // a second patch must not overlap/shift the first: only allow equal-length binary patches
      if (!bin || strncmp(f.cls, "hdr.", 4) == 0) break;
    }
    Json op = hostile_patch(em, f, hostile_value(rng, f), bin, swap);
    // text fields (all header fields, every field of a text file): now and then a literal that is no integer at all
    if ((!bin || strncmp(f.cls, "hdr.", 4) == 0) && strcmp(f.cls, "bound.kind") != 0 && rng.chance(0.12)) {
      static const char* lit[] = {"1e30", "-1e300", "nan", "inf", "-inf", "1.5", "9223372036854775808", "-9223372036854775809", "1e19", "0x10", "1e-5", "+", "-"};
      op.set("ins", std::string(rng.pick(lit)));
      op.set("value", 0);
    }
    list.push(op);
  }
  return list;
}

Json fault(const char* op, int k, const char* kind, long param = 0) {
  sim::FaultOp f; f.role = "nl"; f.op = op; f.k = k; f.kind = kind; f.param = param;
  return f.to_json();
}

Json generate(const std::string& tier, uint64_t seed, uint64_t index) {
  (void)tier;
  Rng rng(seed, "C02", index);
  GenOpts go;
  Model m = gen_model(rng, go);
  EmitOpts eo;
  int fsel = (int)rng.below(100);
  eo.bin = fsel >= 50; eo.swap = fsel >= 80;
  eo.num_style = (int)rng.below(2);
  size_t target = rng.chance(0.5) ? pick_size_near_page(rng) : 0;
  Emitted em = emit_nl_sized(m, eo, target, rng);

  Json sc = Json::object();
  int lsel = (int)rng.below(100);
  std::string label = lsel < 15 ? "valid" : lsel < 52 ? "damaged" : lsel < 85 ? "hostile" : "shrink";
  // rare: an expression nested tens of thousands of levels deep (a chain of unary operators): the reader descends recursively
  const bool deep = rng.chance(0.0003);
  if (deep) {
    label = "deep";
    eo.bin = eo.swap = false;
    static const char* unary[] = {"o16\n", "o15\n", "o39\n", "o13\n"};
    std::string chain; const char* u = rng.pick(unary);
    size_t depth = 30000 + rng.below(30000);
    for (size_t k = 0; k < depth; ++k) chain += u;
    em.bytes = "g3 1 1 0\n 1 1 0 0 0 0\n 1 0\n 0 0\n 1 0 0\n 0 0 0 1\n 0 0 0 0 0\n 0 0\n 0 0\n 0 0 0 0 0\nC0\n" + chain + "v0\nb\n0 0 1\nr\n1 5\n";
    em.fields.clear();
  }
  sc.set("label", label);
  sc.set("fmt", eo.swap ? "binswap" : eo.bin ? "bin" : "text");
  sc.set("nl", em.bytes);
  Json damage = Json::array();
  if (label == "damaged") damage = gen_damage(rng, em);
  else if (label == "hostile") damage = gen_hostile(rng, em, eo.bin, eo.swap);
  else if (label == "shrink" && rng.chance(0.3)) damage = gen_damage(rng, em);
  sc.set("damage", damage);

  // final bytes as the reader will see them (only used to aim faults; run() recomputes)
  std::string fin = em.bytes;
  { Json st = Json::object(); apply_damage(fin, damage, st); }
  size_t fsize = fin.size();

  Json reader = Json::object();
  int psel = (int)rng.below(100);
  std::string path = psel < 30 ? "string" : psel < 65 ? "simfile" : "file";
  if (label == "shrink") path = rng.chance(0.5) ? "simfile" : "file";
  reader.set("path", path);
  reader.set("flags", (long)rng.below(2));
  sc.set("reader", reader);
  Json handlers = Json::array();
  if (rng.chance(0.7)) { handlers.push("check"); handlers.push("problem"); handlers.push("null"); }
  else {
    handlers.push(kHandlerNames[rng.below(3)]);
    if (rng.chance(0.5)) handlers.push("check");
  }
  sc.set("handlers", handlers);

  Json faults = Json::array();
  Json plan = Json::object();
  bool copy_path = fsize % kPage == 0;
  if (path == "simfile") {
    Json chunks = Json::array();
    if (rng.chance(0.7)) {
      // a burst of (possibly tiny) short reads, then the last size repeats
      int nch = 1 + (int)rng.below(6);
      static const long sizes[] = {1, 2, 3, 7, 64, 511, 512, 513, 1000, 4095, 4096, 100000};
      static const long tail[] = {64, 511, 512, 513, 1000, 4095, 4096, 100000};
      for (int i = 0; i < nch; ++i) chunks.push(rng.pick(sizes));
      chunks.push(rng.pick(tail));
    }
    plan.set("chunks", chunks);
    if (label == "shrink") {
      if (rng.chance(0.5)) {
        // file shrinks after size(): read() meets end-of-file early
        plan.set("eof_at", (long)rng.below(fsize + 1));
        if (!copy_path) plan.set("size_delta", (long)(round_up(fsize) - fsize) - (rng.chance(0.5) ? (long)kPage : 0));
      } else {
        static const long deltas[] = {-4096, -1, 1, 2, 4095, 4096, 4097, -100};
        long d = rng.pick(deltas);
        if (rng.chance(0.4)) d = (long)(round_up(fsize + 1) - fsize);   // claim the next page multiple
        plan.set("size_delta", d);
      }
    }
  } else if (path == "file") {
    if (label == "shrink") {
      if (rng.chance(0.5)) {
        long d = (long)(round_up(fsize + 1) - fsize);
        if (rng.chance(0.3)) d = rng.chance(0.5) ? -1 : 1;
        faults.push(fault("fstat", 0, "SIZE", d));
      } else {
        faults.push(fault("read", (int)rng.below(3), "ZERO"));
        if (!copy_path) faults.push(fault("fstat", 0, "SIZE", (long)(round_up(fsize) - fsize)));
      }
    } else if (rng.chance(0.6)) {
      int nf = 1 + (int)rng.below(2);
      for (int i = 0; i < nf; ++i) {
        int pk = (int)rng.below(100);
        if (pk < 35) faults.push(fault("read", (int)rng.below(4), "SHORT", rng.chance(0.5) ? (long)(1 + rng.below(16)) : (long)(1 + rng.below(fsize + 1))));
        else if (pk < 45) faults.push(fault("read", (int)rng.below(3), "EINTR"));
        else if (pk < 52) faults.push(fault("open", 0, "EINTR"));
        else if (pk < 62) { static const char* k[] = {"ENOENT", "EACCES", "EMFILE"}; faults.push(fault("open", 0, rng.pick(k))); }
        else if (pk < 70) faults.push(fault("fstat", 0, "EIO"));
        else if (pk < 80) faults.push(fault("read", (int)rng.below(3), "EIO"));
        else if (pk < 97) faults.push(fault("mmap", 0, "ENOMEM"));   // close faults stay rare: mp reports them on stderr
        else faults.push(fault("close", 0, "EIO"));
      }
    }
  }
  sc.set("simfile", plan);
  sc.set("faults", faults);
  sc.set("std_string", rng.chance(0.3));     // the in-memory path is given a std::string (bytes may contain NULs: every binary file does)
  return sc;
}

// messages name the file: make them independent of the per-process scratch directory
void strip_scratch(ReadOutcome& o) {
  const std::string dir = sim::scratch_dir();
  size_t p;
  while (!dir.empty() && (p = o.msg.find(dir)) != std::string::npos) o.msg.replace(p, dir.size(), "@/");
}

bool allowed_status(const std::string& s) {
  // mp::OverflowError is the library's checked-arithmetic error for sizes computed from file-provided
  // counts (property C17: "either the true size or an error"): a legitimate way to reject hostile counts
  return s == "ok" || s == "ReadError" || s == "BinaryReadError" || s == "Error" || s == "UnsupportedError" ||
         s == "SystemError" || s == "bad_alloc" || s == "std:mp::OverflowError";
}

struct Verdict {
  sim::RunResult& r;
  explicit Verdict(sim::RunResult& rr) : r(rr) {}
  void set(const std::string& cls, const std::string& key, const std::string& detail) {
    if (r.verdict != "OK") return;   // keep the first
    r.verdict = cls;
    r.sig = "C02:" + cls + ":" + key;
    r.detail = detail;
  }
};

sim::RunResult run(const Json& sc) {
  sim::RunResult r;
  r.stats = Json::object();
  Verdict v(r);
  Json& st = r.stats;
  const std::string& label = sc["label"].as_str();
  const std::string& fmtname = sc["fmt"].as_str();
  std::string bytes = sc["nl"].as_str();
  const std::string original = bytes;
  std::string kinds;
  apply_damage(bytes, sc["damage"], st, &kinds);
  for (auto& op : sc["damage"].arr())
    if (op["kind"].as_str() == "patch" && op.has("label")) bump(st, "hostile." + op["label"].as_str().substr(0, op["label"].as_str().find('.')));
  bool pristine = bytes == original && label != "shrink";
  bool expect_valid = pristine && sc["nl_valid"].as_bool(true);
  const std::string path = sc["reader"]["path"].as_str();
  int flags = (int)sc["reader"]["flags"].as_int(0);
  bump(st, "label." + label);
  bump(st, "fmt." + fmtname);
  if (fmtname == "binswap") bump(st, "byteswapped");
  bump(st, "path." + path);
  bump(st, flags ? "flags.bounds_first" : "flags.0");
  bool copy_path = bytes.size() % kPage == 0;

  sim::clean_scratch();
  const std::string file = sim::scratch_dir() + "m.nl";
  if (path != "string") {
    sim::write_file(file, bytes);
    bump(st, copy_path ? "copy_path" : "mmap_path");
  }

  uint64_t fp = sim::fnv1a(bytes);
  uint64_t ts = sim::fnv1a(label + "|" + fmtname + "|" + path + "|" + kinds);
  Json nofaults = Json::array();

  // faults for path (iii), filtered for the kernel-level hazards described at safe_claim()
  Json faults = Json::array();
  for (auto& f : sc["faults"].arr()) {
    if (f["op"].as_str() == "fstat" && f["kind"].as_str() == "SIZE") {
      long claimed = (long)bytes.size() + f["param"].as_int();
      if (claimed < 0) claimed = 0;
      if (!safe_claim(bytes.size(), (size_t)claimed)) { bump(st, "skipped.unsafe_size_claim"); continue; }
    }
    faults.push(f);
  }

  // stderr is deliberately NOT captured: UBSan prints its report to fd 2 (it ignores log_path in
  // this toolchain) and the supervisor builds the crash signature from the worker's stderr.
  for (auto& hj : sc["handlers"].arr()) {
    const std::string hname = hj.as_str();
    ReadOpts ro; ro.flags = flags; ro.handler = handler_id(hname);
    // every notification consumes input, and the input is passed over at most twice (bounds first): a generous linear bound
    ro.max_notifications = 16 * (long)bytes.size() + 4096;
    bump(st, "handler." + hname);
    // ---------------- path (i): in-memory, exact-size heap buffer
    ReadOutcome a;
    SimRun sa = sim_session(nofaults, 200000, [&] { a = read_nl_string(bytes, file, ro); });
    if (sa.exited) { a.status = "simexit"; }
    strip_scratch(a);
    fp = sim::fnv1a(a.outcome_key(), fp); fp = sim::fnv1a(&a.trace_hash, 8, fp); fp = sim::fnv1a(a.digest, fp);
    ts = sim::fnv1a(hname + "=" + a.status + ":" + skeleton(a.msg.compare(0, 6, "@/m.nl") == 0 ? a.msg.substr(6) : a.msg), ts);
    bump(st, "outcome." + a.status);
    // the same bytes handed over as a std::string (its size, not its first NUL, ends the input): same notifications.  Run only
    // after the guarded-pointer path has come back - an over-read faults there at once, here it would wander through the heap.
    if (sc["std_string"].as_bool() && !sa.exited && a.status != "runaway") {
      ReadOpts rs = ro; rs.std_string = true;
      ReadOutcome as;
      SimRun ss = sim_session(nofaults, 200000, [&] { as = read_nl_string(bytes, file, rs); });
      strip_scratch(as);
      bump(st, "std_string_overload_runs");
      if (!ss.exited && (as.outcome_key() != a.outcome_key() || as.trace_hash != a.trace_hash || as.digest != a.digest))
        v.set("PATH_MISMATCH", "std-string/" + hname, "same bytes: ReadNLString(NLStringRef(pointer, size)) gave [" + a.status + "] " + a.msg + " (" + std::to_string(a.notifications) +
              " notifications), ReadNLString(std::string) gave [" + as.status + "] " + as.msg + " (" + std::to_string(as.notifications) + ")");
    }
    if (sa.fired.count("ALLOC_CAP")) bump(st, "bad_alloc_by_cap");
    if (a.status == "ReadError" || a.status == "BinaryReadError") bump(st, a.located ? "rejected_with_located_error" : "rejected_unlocated");
    else if (a.status == "Error" || a.status == "UnsupportedError") bump(st, "rejected_unlocated");
    if (a.dup_items) bump(st, "probe.dup_item_notifications", a.dup_items);
    st.set("notifications", st["notifications"].as_int(0) + a.notifications);
    const bool cut_short = sa.exited || a.status == "runaway";
    if (cut_short)
      v.set("HANG", "string/" + hname, a.status == "runaway" ? "ReadNLString keeps notifying the handler (" + std::to_string(a.notifications) + " notifications for " + std::to_string(bytes.size()) + " bytes of input)"
                                                               : "ReadNLString did not return within the step/allocation budget");
    else if (!allowed_status(a.status))
      v.set("UNEXPECTED_EXCEPTION", a.status + "/" + hname, "ReadNLString (" + hname + " handler) threw " + a.status + ": " + a.msg);
    if (!a.viol_class.empty())
      v.set(a.viol_class, a.viol_key, "recording checker (in-memory path, flags=" + std::to_string(flags) + "): " + a.viol_detail);
    if (expect_valid) {
      bump(st, "valid_total");
      if (a.status == "ok") bump(st, "valid_accepted");
      else v.set("VALID_REJECTED", hname + "/" + skeleton(a.msg.compare(0, 6, "@/m.nl") == 0 ? a.msg.substr(6) : a.msg, 50),
                 "generated valid " + fmtname + " file rejected by " + hname + " handler: " + a.status + ": " + a.msg);
    }
    if (cut_short) break;      // the verdict is HANG already; the other handlers / paths would only burn the same budget again
    if (path == "string") continue;

    // ---------------- path (ii) / (iii)
    ReadOutcome b;
    SimRun sb;
    bool hard_fault = false;
    SimFilePlan plan;
    if (path == "simfile") {
      for (auto& c : sc["simfile"]["chunks"].arr()) plan.chunks.push_back(c.as_int(1));
      plan.size_delta = sc["simfile"]["size_delta"].as_int(0);
      plan.eof_at = sc["simfile"].has("eof_at") ? sc["simfile"]["eof_at"].as_int(-1) : -1;
      long claimed = (long)bytes.size() + plan.size_delta;
      if (claimed < 0) claimed = 0;
      if (plan.size_delta != 0 && !safe_claim(bytes.size(), (size_t)claimed)) { plan.size_delta = 0; bump(st, "skipped.unsafe_size_claim"); }
      sb = sim_session(nofaults, 200000, [&] { b = read_nl_simfile(file, plan, ro); });
      if (plan.short_reads) bump(st, "fired.simfile_short_read", plan.short_reads);
      if (plan.size_delta) { bump(st, "fired.simfile_size_lie"); hard_fault = true; }
      if (plan.zero_reads) { bump(st, "fired.simfile_premature_eof", plan.zero_reads); hard_fault = true; }
      if (plan.eof_at >= 0 && plan.eof_at < (long)bytes.size()) hard_fault = true;
    } else {
      sb = sim_session(faults, 3000, [&] { b = read_nl_file(file, ro); });
      for (auto& kv : sb.fired) {
        bump(st, "fired." + kv.first, kv.second);
        if (kv.first != "SHORT" && kv.first != "EINTR" && kv.first != "ALLOC_CAP") hard_fault = true;
        ts = sim::fnv1a(kv.first, ts);
      }
    }
    if (sb.exited) b.status = "simexit";
    strip_scratch(b);
    fp = sim::fnv1a(b.outcome_key(), fp); fp = sim::fnv1a(&b.trace_hash, 8, fp); fp = sim::fnv1a(&sb.hash, 8, fp);
    ts = sim::fnv1a(path + "=" + b.status, ts);
    bump(st, "outcome2." + b.status);
    bool spun = b.status == "spin" || b.status == "runaway" || (sb.exited && sb.step_budget);
    if (label == "shrink") {
      // separate batch: the only verdict is "terminates without memory error"
      if (spun)
        v.set("HANG_SHORT_FILE", path, "file shorter than its reported size (shrank after fstat / premature read()==0): "
              "NLFileReader::Read keeps calling read() forever (" + std::to_string(path == "simfile" ? plan.zero_reads : (long)sb.yields) + " calls observed)");
      if (spun) break;   // the spin does not depend on the receiving handler: one is enough
      continue;
    }
    if (spun) { v.set(hard_fault ? "HANG_SHORT_FILE" : "HANG", path + "/" + hname, "reader did not return within the step budget"); continue; }
    if (sb.exited) { v.set("SIM_EXIT", path, "reader called exit(" + std::to_string(sb.exit_code) + ")"); continue; }
    if (!allowed_status(b.status))
      v.set("UNEXPECTED_EXCEPTION", b.status + "/" + hname + "/" + path, path + " path threw " + b.status + ": " + b.msg);
    if (!b.viol_class.empty())
      v.set(b.viol_class, b.viol_key, "recording checker (" + path + " path): " + b.viol_detail);
    if (!hard_fault) {
      if (a.outcome_key() != b.outcome_key() || a.trace_hash != b.trace_hash || a.digest != b.digest) {
        std::string d = "same bytes, no I/O fault: in-memory path gave [" + a.status + "] " + a.msg + " (" + std::to_string(a.notifications) +
                        " notifications), " + path + " path gave [" + b.status + "] " + b.msg + " (" + std::to_string(b.notifications) + ")";
        // first differing trace line
        size_t p = 0;
        while (p < a.trace_log.size() && p < b.trace_log.size() && a.trace_log[p] == b.trace_log[p]) ++p;
        size_t ls = a.trace_log.rfind('\n', p ? p - 1 : 0);
        ls = ls == std::string::npos ? 0 : ls + 1;
        d += " | first difference: mem='" + a.trace_log.substr(ls, a.trace_log.find('\n', ls) - ls) + "' file='" +
             (ls < b.trace_log.size() ? b.trace_log.substr(ls, b.trace_log.find('\n', ls) - ls) : std::string("<end>")) + "'";
        v.set("PATH_MISMATCH", path + "/" + hname, d);
      }
      bump(st, "paths_compared");
    } else {
      bump(st, "paths_not_compared_hard_fault");
    }
  }

  r.fingerprint = fp;
  r.trace_sig = ts;
  r.nontrivial = !pristine || path != "string";
  if (r.verdict == "OK") r.sig = "";
  return r;
}

Json describe() {
  Json d = Json::object();
  d.set("writer", "own structure-aware generator + own text/binary/byte-swapped emitter (sim/iosim/nlgen.cc)");
  d.set("reader", "real mp::ReadNLString / internal::NLFileReader<SimFile> (template seam) / mp::ReadNLFile through the syscall shim");
  d.set("handlers", "recording checker (sim/iosim/nlrec.h), real mp::Problem builder, mp::NullNLHandler");
  return d;
}

const Property kC02 = {"C02", generate, run, describe};
IOSIM_REGISTER(kC02);

}  // namespace
}  // namespace iosim
