// C03 — NL writer output is read back as the same model (text = binary), fault-free hand-off.
//
// Writer party: the real NLW2 writer (mp::WriteNLFile) driven through its NLFeeder interface by an
// adaptor over the neutral model IR.  Reader party: real mp::ReadNLFile with the recording handler.
// Oracle: the reader's per-item notification history equals the feed history (computed from the
// IR by this file, never by NLW2), every double bit-identical except the sign of zero; the text and
// binary encodings of one model give identical histories.
#include <algorithm>
#include <cfloat>

#include "mp/nl-writer2.h"
#include "mp/nl-writer2.hpp"
extern "C" {
#include "api/c/nl-feeder-c.h"
#include "api/c/nl-solver-c.h"
#include "api/c/nl-writer2-misc-c.h"
}

#include "io_common.h"
#include "nlgen.h"
#include "nlread.h"
#include "nlrec.h"
#include "nlops.h"

namespace iosim {
namespace {

class QuietUtils : public mp::NLUtils {
 public:
  void log_message(const char*, ...) override {}
  void log_warning(const char*, ...) override {}
  void myexit(const std::string& msg) override { throw std::runtime_error("NLUtils::myexit: " + msg); }
};

struct WriterOpts { bool binary = false; bool comments = false; bool bounds_first = true; int colsizes = 1; int precision = 0; };

mp::NLHeader make_header(const Model& m, const WriterOpts& w) {
  mp::NLHeader h;
  h.format = w.binary ? mp::NLHeader::BINARY : mp::NLHeader::TEXT;
  h.num_ampl_options = m.nopts;
  for (int i = 0; i < 9; ++i) h.ampl_options[i] = i < m.nopts ? m.options[i] : 0;
  h.ampl_vbtol = m.has_vbtol ? m.vbtol : 0;
  h.flags = m.hflags;
  h.num_vars = m.nvars; h.num_algebraic_cons = (int)m.cons.size(); h.num_objs = (int)m.objs.size();
  h.num_logical_cons = (int)m.lcons.size();
  int nranges = 0, neqns = 0, nlc = 0, nlo = 0, ncompl = 0, nlcompl = 0;
  for (auto& c : m.cons) {
    if (c.b.kind == 0) ++nranges;
    if (c.b.kind == 4) ++neqns;
    bool nl = !c.e.is_zero_const();
    if (nl) ++nlc;
    if (c.b.kind == 5) { ++ncompl; if (nl) ++nlcompl; }
  }
  for (auto& ob : m.objs) if (ob.e.tag != 'n') ++nlo;
  h.num_ranges = nranges; h.num_eqns = neqns; h.num_nl_cons = nlc; h.num_nl_objs = nlo;
  h.num_compl_conds = ncompl; h.num_nl_compl_conds = nlcompl;
  h.num_nl_vars_in_cons = m.nlvc; h.num_nl_vars_in_objs = m.nlvo; h.num_nl_vars_in_both = m.nlvb;
  h.num_funcs = (int)m.funcs.size();
  h.num_linear_binary_vars = m.nbv; h.num_linear_integer_vars = m.niv;
  h.num_nl_integer_vars_in_both = m.nlvbi; h.num_nl_integer_vars_in_cons = m.nlvci; h.num_nl_integer_vars_in_objs = m.nlvoi;
  size_t nzc = 0, nzo = 0;
  for (auto& c : m.cons) nzc += c.lin.size();
  for (auto& ob : m.objs) nzo += ob.lin.size();
  h.num_con_nonzeros = nzc; h.num_obj_nonzeros = nzo;
  h.num_common_exprs_in_both = m.cexpr_split[0]; h.num_common_exprs_in_cons = m.cexpr_split[1];
  h.num_common_exprs_in_objs = m.cexpr_split[2]; h.num_common_exprs_in_single_cons = m.cexpr_split[3];
  h.num_common_exprs_in_single_objs = m.cexpr_split[4];
  h.prob_name = "iosim";
  return h;
}

// ------------------------------------------------------------------ feeder adaptor
class IrFeeder : public mp::NLFeeder<IrFeeder, const Ex*> {
 public:
  const Model& m;
  WriterOpts w;
  IrFeeder(const Model& mm, const WriterOpts& ww) : m(mm), w(ww) {}
  // optional names: columns; rows = algebraic + logical constraints, then objectives
  const std::vector<std::string>* colnames = nullptr;
  const std::vector<std::string>* rownames = nullptr;
  template <class W> void FeedColNames(W& wrt) { if (colnames && wrt) for (auto& n : *colnames) wrt << n.c_str(); }
  template <class W> void FeedRowAndObjNames(W& wrt) { if (rownames && wrt) for (auto& n : *rownames) wrt << n.c_str(); }

  mp::NLHeader Header() { return make_header(m, w); }
  bool WantNLComments() const { return w.comments; }
  int OutputPrecision() const { return w.precision; }     // 0: shortest exact form; >= 17 asks for all digits explicitly (fewer would be lossy by request)
  bool WantBoundsFirst() const { return w.bounds_first; }
  int WantColumnSizes() const { return w.colsizes; }

  const char* ObjDescription(int) { return "obj descr"; }
  int ObjType(int i) { return m.objs[(size_t)i].type; }
  template <class F> void FeedObjGradient(int i, F& f) { lin(f, m.objs[(size_t)i].lin); }
  template <class EW> void FeedObjExpression(int i, EW& ew) { put(ew, m.objs[(size_t)i].e); }

  template <class DVF> void FeedDefinedVariables(int i, DVF& dvf) {
    int nc = (int)m.cons.size() + (int)m.lcons.size();
    for (size_t k = 0; k < m.cexprs.size(); ++k) {
      const CommonExpr& ce = m.cexprs[k];
      int want = ce.position <= nc ? ce.position : -(ce.position - nc);
      if (want != i) continue;
      auto dv = dvf.StartDefVar(m.nvars + (int)k, (int)ce.lin.size(), "defvar");
      {
        auto lw = dv.GetLinExprWriter();
        for (auto& t : ce.lin) lw.Write(t.var, t.coef);
      }
      auto ew = dv.GetExprWriter();
      put(ew, ce.e);
    }
  }
  template <class VBW> void FeedVarBounds(VBW& vbw) { for (auto& b : m.vbounds) vbw.WriteLbUb(b.lb, b.ub); }
  template <class CBW> void FeedConBounds(CBW& cbw) {
    for (auto& c : m.cons) {
      AlgConRange r;
      if (c.b.kind == 5) { r.k = c.b.cflags; r.cvar = c.b.cvar - 1; }
      else { r.L = c.b.lb; r.U = c.b.ub; }
      cbw.WriteAlgConRange(r);
    }
  }
  const char* ConDescription(int) { return "con descr"; }
  template <class F> void FeedLinearConExpr(int i, F& f) { lin(f, m.cons[(size_t)i].lin); }
  template <class EW> void FeedConExpression(int i, EW& ew) {
    size_t na = m.cons.size();
    if ((size_t)i < na) put(ew, m.cons[(size_t)i].e);
    else put(ew, m.lcons[(size_t)i - na]);
  }
  template <class EW> void FeedExpr(const Ex* e, EW& ew) { put(ew, *e); }

  struct FuncDef {
    const NLFunc* f;
    const char* Name() { return f->name.c_str(); }
    int NumArgs() { return f->nargs; }
    int Type() { return f->type; }
  };
  FuncDef Function(int i) { return FuncDef{&m.funcs[(size_t)i]}; }

  template <class CSW> void FeedColumnSizes(CSW& csw) {
    if (!w.colsizes) return;
    std::vector<int> cs = m.colsizes();
    for (int i = 0; i + 1 < m.nvars; ++i) csw.Write(cs[(size_t)i]);
  }
  template <class IGW> void FeedInitialGuesses(IGW& igw) {
    if (m.x0.empty()) return;
    auto vw = igw.MakeVectorWriter(m.x0.size());
    for (auto& p : m.x0) vw.Write(p.first, p.second);
  }
  template <class IGW> void FeedInitialDualGuesses(IGW& igw) {
    if (m.d0.empty()) return;
    auto vw = igw.MakeVectorWriter(m.d0.size());
    for (auto& p : m.d0) vw.Write(p.first, p.second);
  }
  template <class SWF> void FeedSuffixes(SWF& swf) {
    for (auto& s : m.sufs) {
      if (s.real) {
        auto sw = swf.StartDblSuffix(s.name.c_str(), s.kind | 4, (int)s.vals.size());
        for (auto& p : s.vals) sw.Write(p.first, p.second);
      } else {
        auto sw = swf.StartIntSuffix(s.name.c_str(), s.kind, (int)s.vals.size());
        for (auto& p : s.vals) sw.Write(p.first, (int)p.second);
      }
    }
  }

 private:
  template <class F> void lin(F& f, const std::vector<Lin>& l) {
    if (l.empty()) return;
    auto vw = f.MakeVectorWriter(l.size());
    for (auto& t : l) vw.Write(t.var, t.coef);
  }
  // feed one expression tree through an argument writer
  template <class EW> void put(EW& ew, const Ex& e) {
    switch (e.tag) {
      case 'n': ew.NPut(e.num); return;
      case 'v': ew.VPut(e.idx, "ref"); return;
      case 'h': ew.StrPut(e.str.c_str()); return;
      case 'f': {
        auto aw = ew.FuncPut(e.op, (int)e.a.size(), "call");
        for (auto& a : e.a) put(aw, a);
        return;
      }
    }
    const int code = writer_opcode(e.op);   // the code NLW2's own table gives the named operator
    switch (op_class(e.op)) {
      case OC_UNARY: case OC_NOT: { auto aw = ew.OPut1(code, "u"); put(aw, e.a[0]); return; }
      case OC_BINARY: case OC_BINLOG: case OC_REL: case OC_LOGCOUNT: {
        auto aw = ew.OPut2(code, "b"); put(aw, e.a[0]); put(aw, e.a[1]); return;
      }
      case OC_IF: case OC_IFSYM: case OC_IMPL: {
        auto aw = ew.OPut3(code, "t"); put(aw, e.a[0]); put(aw, e.a[1]); put(aw, e.a[2]); return;
      }
      case OC_PLTERM: {
        auto aw = ew.OPutN(code, (int)e.pl.size() + 1, "pl");
        for (double v : e.pl) aw.NPut(v);
        aw.VPut(e.a[0].idx, "plarg");
        return;
      }
      default: {
        // iterated: the k-th argument of a nested expression is fed through EPut for variety
        auto aw = ew.OPutN(code, (int)e.a.size(), "n");
        size_t k = 0;
        for (auto& a : e.a) { if ((k++ & 1) && a.tag == 'o') aw.EPut(&a); else put(aw, a); }
        return;
      }
    }
  }
};


// ------------------------------------------------------------------ third writer party: a C callback table
// The same hand-off through the C flavour of the feeder interface (NLW2_NLFeeder_C, adapted to the
// writer by api/c/nl-feeder-c-impl.h and entered through NLW2_LoadNLFeed2_C as a C client does).
// The C interface has no expression callbacks, so this party feeds the linear shadow of the model:
// same variables, bounds, ranges / complementarity, linear parts, initial values and suffixes;
// every nonlinear part is the constant 0, logical constraints / defined variables / functions are gone.
Model linear_shadow(const Model& m) {
  Model s = m;
  s.lcons.clear(); s.cexprs.clear(); s.funcs.clear();
  for (int& c : s.cexpr_split) c = 0;
  for (auto& c : s.cons) c.e = Ex();
  for (auto& o : s.objs) o.e = Ex();
  s.nlvb = s.nlvc = s.nlvo = s.nlvbi = s.nlvci = s.nlvoi = 0;
  const int nc = (int)s.cons.size();
  for (auto& sf : s.sufs)
    if ((sf.kind & 3) == 1) {
      std::vector<std::pair<int, double>> keep;
      for (auto& p : sf.vals) if (p.first < nc) keep.push_back(p);
      sf.vals.swap(keep);
    }
  std::vector<std::pair<int, double>> d;
  for (auto& p : s.d0) if (p.first < nc) d.push_back(p);
  s.d0.swap(d);
  return s;
}

struct CUser { const Model* m; WriterOpts w; const std::vector<std::string>* col = nullptr; const std::vector<std::string>* row = nullptr; };
const Model& cm_of(void* u) { return *static_cast<CUser*>(u)->m; }
extern "C" {
static NLHeader_C c_header(void* u) {
  CUser* cu = static_cast<CUser*>(u);
  mp::NLHeader h = make_header(*cu->m, cu->w);
  NLHeader_C hc;
  hc.pi = static_cast<const NLProblemInfo_C&>(h);
  hc.nli = static_cast<const NLInfo_C&>(h);
  return hc;
}
static const char* c_objdescr(void*, int) { return "obj descr"; }
static int c_objtype(void* u, int i) { return cm_of(u).objs[(size_t)i].type; }
static int c_objnnz(void* u, int i) { return (int)cm_of(u).objs[(size_t)i].lin.size(); }
static void c_objgrad(void* u, int i, void* api) { for (auto& t : cm_of(u).objs[(size_t)i].lin) NLW2_WriteSparseDblEntry(api, t.var, t.coef); }
static void c_varbounds(void* u, void* api) { for (auto& b : cm_of(u).vbounds) NLW2_WriteVarLbUb(api, b.lb, b.ub); }
static void c_conbounds(void* u, void* api) {
  for (auto& c : cm_of(u).cons) {
    NLW2_AlgConRange_C r;
    // as the documented skeleton does: either {k > 0, cvar} or {k = 0, L, U}; the members that do not
    // apply are indeterminate in a C client - here fixed values that would show in the file if they were used
    if (c.b.kind == 5) { r.k = c.b.cflags; r.cvar = c.b.cvar - 1; r.L = 12345.5; r.U = -777.25; }
    else { r.k = 0; r.cvar = 1000003; r.L = c.b.lb; r.U = c.b.ub; }
    NLW2_WriteAlgConRange(api, &r);
  }
}
static const char* c_condescr(void*, int) { return "con descr"; }
static int c_connnz(void* u, int i) { return (int)cm_of(u).cons[(size_t)i].lin.size(); }
static void c_conlin(void* u, int i, void* api) { for (auto& t : cm_of(u).cons[(size_t)i].lin) NLW2_WriteSparseDblEntry(api, t.var, t.coef); }
static void c_colsizes(void* u, void* api) {
  const Model& m = cm_of(u);
  std::vector<int> cs = m.colsizes();
  for (int i = 0; i + 1 < m.nvars; ++i) NLW2_WriteColSize(api, cs[(size_t)i]);
}
static int c_x0nnz(void* u) { return (int)cm_of(u).x0.size(); }
static void c_x0(void* u, void* api) { for (auto& p : cm_of(u).x0) NLW2_WriteSparseDblEntry(api, p.first, p.second); }
static int c_d0nnz(void* u) { return (int)cm_of(u).d0.size(); }
static void c_d0(void* u, void* api) { for (auto& p : cm_of(u).d0) NLW2_WriteSparseDblEntry(api, p.first, p.second); }
static void c_sufs(void* u, void* api) {
  for (auto& s : cm_of(u).sufs) {
    if (s.real) {
      void* sw = NLW2_StartDblSuffix(api, s.name.c_str(), s.kind | 4, (int)s.vals.size());
      for (auto& p : s.vals) NLW2_WriteSparseDblEntry(sw, p.first, p.second);
    } else {
      void* sw = NLW2_StartIntSuffix(api, s.name.c_str(), s.kind, (int)s.vals.size());
      for (auto& p : s.vals) NLW2_WriteSparseIntEntry(sw, p.first, (int)p.second);
    }
  }
}
static void c_colnames(void* u, void* api) { for (auto& n : *static_cast<CUser*>(u)->col) NLW2_WriteName(api, n.c_str()); }
static void c_rownames(void* u, void* api) { for (auto& n : *static_cast<CUser*>(u)->row) NLW2_WriteName(api, n.c_str()); }
}  // extern "C"

// ------------------------------------------------------------------ feed history (expected items)
struct Expect {
  const Model& m;
  std::map<std::string, std::string> items;
  std::string dc(double v) const { return dbl_canon(v, true); }
  explicit Expect(const Model& mm) : m(mm) {}

  void ser(const Ex& e, bool logical, std::string& out) const {
    switch (e.tag) {
      case 'n': if (logical) out += e.num != 0 ? "b1" : "b0"; else out += "n" + dc(e.num); return;
      case 'v': out += e.idx < m.nvars ? "v" + std::to_string(e.idx) : "e" + std::to_string(e.idx - m.nvars); return;
      case 'h': out += "h" + std::to_string(e.str.size()) + ":" + e.str; return;
      case 'f':
        out += "(f" + std::to_string(e.op);
        for (auto& a : e.a) { out += ' '; ser(a, false, out); }
        out += ')';
        return;
    }
    OpClass oc = op_class(e.op);
    if (oc == OC_PLTERM) {
      out += "(pl";
      for (size_t i = 0; i < e.pl.size(); ++i) { out += (i % 2 == 0) ? " s" : " p"; out += dc(e.pl[i]); }
      out += ' '; ser(e.a[0], false, out); out += ')';
      return;
    }
    out += "(o" + std::to_string(e.op);
    for (size_t i = 0; i < e.a.size(); ++i) {
      bool lg = false;
      switch (oc) {
        case OC_NOT: case OC_BINLOG: case OC_IMPL: case OC_ITERLOG: case OC_COUNT: lg = true; break;
        case OC_IF: case OC_IFSYM: lg = i == 0; break;
        default: break;
      }
      out += ' ';
      ser(e.a[i], lg, out);
    }
    out += ')';
  }
  std::string linstr(const std::vector<Lin>& l) const {
    std::string s;
    for (auto& t : l) { s += std::to_string(t.var); s += '*'; s += dc(t.coef); s += ' '; }
    return s;
  }
  static double wr_lb(double L) { return L <= -DBL_MAX ? -INFINITY : L; }
  static double wr_ub(double U) { return U >= DBL_MAX ? INFINITY : U; }

  void build(const mp::NLHeader& h, const WriterOpts& w) {
    items["HDR"] = RecHandler::header_item(h, true);
    for (size_t i = 0; i < m.funcs.size(); ++i)
      items["F" + std::to_string(i)] = m.funcs[i].name + " " + std::to_string(m.funcs[i].nargs) + " " + std::to_string(m.funcs[i].type);
    for (auto& s : m.sufs) {
      if (s.vals.empty()) continue;
      std::string v;
      for (auto& p : s.vals) { v += std::to_string(p.first); v += '='; v += s.real ? dc(p.second) : std::to_string((long)(int)p.second); v += ' '; }
      items["S" + std::to_string(s.kind) + (s.real ? "r:" : "i:") + s.name] = v;
    }
    for (size_t k = 0; k < m.cexprs.size(); ++k) {
      std::string e; ser(m.cexprs[k].e, false, e);
      items["V" + std::to_string(k)] = e + " pos=" + std::to_string(m.cexprs[k].position);
      items["Vlin" + std::to_string(k)] = linstr(m.cexprs[k].lin);
    }
    for (size_t i = 0; i < m.cons.size(); ++i) {
      std::string e; ser(m.cons[i].e, false, e);
      items["C" + std::to_string(i)] = e;
      if (!m.cons[i].lin.empty()) items["J" + std::to_string(i)] = linstr(m.cons[i].lin);
      const Bound& b = m.cons[i].b;
      if (b.kind == 5) {
        double lb = (b.cflags & 2) ? -INFINITY : 0, ub = (b.cflags & 1) ? INFINITY : 0;
        items["r" + std::to_string(i)] = "compl " + std::to_string(b.cvar - 1) + " " + dbl_canon(lb, false) + " " + dbl_canon(ub, false);
      } else items["r" + std::to_string(i)] = dc(b.lb) + " " + dc(b.ub);
    }
    for (size_t i = 0; i < m.lcons.size(); ++i) { std::string e; ser(m.lcons[i], true, e); items["L" + std::to_string(i)] = e; }
    for (size_t i = 0; i < m.objs.size(); ++i) {
      std::string e; ser(m.objs[i].e, false, e);
      items["O" + std::to_string(i)] = std::to_string(m.objs[i].type != 0 ? 1 : 0) + " " + e;
      if (!m.objs[i].lin.empty()) items["G" + std::to_string(i)] = linstr(m.objs[i].lin);
    }
    for (size_t i = 0; i < m.vbounds.size(); ++i) items["b" + std::to_string(i)] = dc(m.vbounds[i].lb) + " " + dc(m.vbounds[i].ub);
    for (auto& p : m.x0) items["x" + std::to_string(p.first)] = dc(p.second);
    for (auto& p : m.d0) items["d" + std::to_string(p.first)] = dc(p.second);
    if (w.colsizes) {
      std::vector<int> cs = m.colsizes();
      std::string s;
      for (int i = 0; i + 1 < m.nvars; ++i) { s += std::to_string(cs[(size_t)i]); s += ' '; }
      items["k"] = s;
    }
  }
};

// ------------------------------------------------------------------ scenario
// The scenario carries the model explicitly (JSON form of the IR) so that a replay file stays
// valid when the generator changes and so that ddmin can drop constraints / objectives / suffixes.
Model model_of(const Json& sc) {
  Model m = Model::from_json(sc["model"]);
  if (m.nvars < 1) m.nvars = 1, m.vbounds.resize(1);
  // references inside expressions must stay within what is left after shrinking
  int nrefs = m.nvars + (int)m.cexprs.size(), nfuncs = (int)m.funcs.size();
  struct Fix {
    int nrefs, nfuncs, nvars;
    void operator()(Ex& e) const {
      if (e.tag == 'v' && (e.idx < 0 || e.idx >= nrefs)) e.idx = 0;
      if (e.tag == 'f' && (e.op < 0 || e.op >= nfuncs)) { e = Ex(); return; }
      if (e.tag == 'o' && op_class(e.op) == OC_PLTERM && (e.a.empty() || e.a[0].tag != 'v' || e.pl.size() < 3 || e.pl.size() % 2 == 0)) { e = Ex(); return; }
      for (auto& k : e.a) (*this)(k);
    }
  } fix{nrefs, nfuncs, m.nvars};
  for (auto& c : m.cons) { fix(c.e); if (c.b.kind == 5 && (c.b.cvar < 1 || c.b.cvar > m.nvars || c.b.cflags < 1 || c.b.cflags > 3)) c.b = Bound(); }
  for (auto& e : m.lcons) fix(e);
  for (auto& ob : m.objs) fix(ob.e);
  for (size_t k = 0; k < m.cexprs.size(); ++k) { Fix f2{m.nvars + (int)k, nfuncs, m.nvars}; f2(m.cexprs[k].e); }
  for (auto& vb : m.vbounds) { if (vb.kind == 5) vb = Bound(); if (vb.kind == 3) { vb.lb = -INFINITY; vb.ub = INFINITY; } }
  for (auto& c : m.cons) if (c.b.kind == 3) { c.b.lb = -INFINITY; c.b.ub = INFINITY; }
  return m;
}

Json generate(const std::string& tier, uint64_t seed, uint64_t index) {
  (void)tier;
  Rng rng(seed, "C03", index);
  Json sc = Json::object();
  GenOpts go; go.feeder_safe = true; go.awkward_numbers = rng.chance(0.6);
  Model m = gen_model(rng, go);
  sc.set("model", m.to_json());
  Json w = Json::object();
  w.set("comments", rng.chance(0.5));
  w.set("bounds_first", rng.chance(0.5));
  w.set("colsizes", (long)(rng.chance(0.6) ? 1 : rng.chance(0.6) ? 2 : 0));
  if (rng.chance(0.2)) { static const long pr[] = {17, 18, 19, 25, 30}; w.set("precision", pr[rng.below(5)]); }
  sc.set("writer", w);
  sc.set("read_flags", (long)rng.below(2));
  // the receiving handler: takes everything, or wants a single objective (NeedObj), as a driver with objno=k does
  sc.set("only_obj", !m.objs.empty() && rng.chance(0.3) ? (long)rng.below(m.objs.size()) : -1L);
  // names (.col: variables; .row: constraints, logical constraints, objectives), given for none, one or both files
  auto gen_names = [&](const char* base, size_t n) {
    Json a = Json::array();
    for (size_t i = 0; i < n; ++i) {
      std::string nm = std::string(base) + "[" + std::to_string(i + 1);
      switch (rng.below(8)) { case 0: nm += ",'a b'"; break; case 1: nm += ",\"q\""; break; case 2: nm += ",'Z\xc3\xbcrich'"; break; case 3: nm += ",'x\\y'"; break; default: break; }
      a.push(nm + "]");
    }
    return a;
  };
  int nm_mode = (int)rng.below(10);   // 0-3 none, 4-7 both, 8 columns only, 9 rows only
  if (nm_mode >= 4 && nm_mode != 9) sc.set("colnames", gen_names("x", (size_t)m.nvars));
  if (nm_mode >= 4 && nm_mode != 8) sc.set("rownames", gen_names("c", m.cons.size() + m.lcons.size() + m.objs.size()));
  // history: the same stub was written before, by a model that had names
  sc.set("stub_used_before", rng.chance(0.35));
  return sc;
}

struct Verdict {
  sim::RunResult& r;
  explicit Verdict(sim::RunResult& rr) : r(rr) {}
  void set(const std::string& cls, const std::string& key, const std::string& detail) {
    if (r.verdict != "OK") return;
    r.verdict = cls; r.sig = "C03:" + cls + ":" + key; r.detail = detail;
  }
};

// which kind of number makes two canonical item strings differ (for low-cardinality keys)
std::string item_kind(const std::string& key) {
  if (key == "HDR" || key == "k") return key;
  if (key.compare(0, 4, "Vlin") == 0) return "Vlin";
  return key.substr(0, 1);
}

sim::RunResult run(const Json& sc) {
  sim::RunResult r;
  r.stats = Json::object();
  Json& st = r.stats;
  Verdict v(r);
  Model m = model_of(sc);
  WriterOpts w;
  w.comments = sc["writer"]["comments"].as_bool(); w.bounds_first = sc["writer"]["bounds_first"].as_bool(true);
  w.colsizes = (int)sc["writer"]["colsizes"].as_int(1);
  w.precision = (int)sc["writer"]["precision"].as_int(0);
  if (w.precision) bump(st, "opt.precision_given");
  int flags = (int)sc["read_flags"].as_int(0);
  sim::clean_scratch();
  Json nofaults = Json::array();
  uint64_t fp = 1469598103934665603ULL;
  std::map<std::string, std::string> got[2];
  bool ok[2] = {false, false};
  bump(st, w.comments ? "opt.comments" : "opt.nocomments");
  bump(st, w.bounds_first ? "opt.bounds_first" : "opt.bounds_last");
  bump(st, "opt.colsizes" + std::to_string(w.colsizes));
  bump(st, flags ? "flags.bounds_first" : "flags.0");
  st.set("model.vars", m.nvars); st.set("model.cons", (long)m.cons.size()); st.set("model.lcons", (long)m.lcons.size());
  st.set("model.objs", (long)m.objs.size()); st.set("model.cexprs", (long)m.cexprs.size()); st.set("model.sufs", (long)m.sufs.size());

  std::vector<std::string> colnames, rownames;
  const bool have_col = sc.has("colnames"), have_row = sc.has("rownames");
  for (auto& e : sc["colnames"].arr()) colnames.push_back(e.as_str());
  for (auto& e : sc["rownames"].arr()) rownames.push_back(e.as_str());
  if (have_col || have_row) bump(st, "names.given");
  for (int pass = 0; pass < 2; ++pass) {
    w.binary = pass == 1;
    const char* enc = w.binary ? "binary" : "text";
    const std::string base = sim::scratch_dir() + (w.binary ? "mb" : "mt");
    if (sc["stub_used_before"].as_bool()) {   // history: an earlier model with (more) names went to the same stub
      std::vector<std::string> oc, orow;
      for (int j = 0; j < m.nvars + 2; ++j) oc.push_back("old_x" + std::to_string(j));
      for (size_t i = 0; i < m.cons.size() + m.lcons.size() + m.objs.size() + 2; ++i) orow.push_back("old_c" + std::to_string(i));
      sim_session(nofaults, 500000, [&] {
        try { IrFeeder f0(m, w); f0.colnames = &oc; f0.rownames = &orow; QuietUtils u0; mp::WriteNLFile(base, f0, u0); } catch (const std::exception&) {}
      });
      bump(st, "history.stub_used_before");
    }
    // ---------------- writer party
    mp::WriteNLResult wres{NLW2_WriteNL_Unset, ""};
    std::string wexc;
    SimRun sw = sim_session(nofaults, 500000, [&] {
      try {
        IrFeeder feeder(m, w);
        if (have_col) feeder.colnames = &colnames;
        if (have_row) feeder.rownames = &rownames;
        QuietUtils utils;
        wres = mp::WriteNLFile(base, feeder, utils);
      } catch (const std::exception& e) { wexc = e.what(); }
    });
    if (sw.exited) { v.set("HANG", std::string("writer/") + enc, "NL writer did not return"); continue; }
    if (!wexc.empty()) { v.set("WRITER_FAILED", std::string("exception/") + enc, "WriteNLFile threw: " + wexc); continue; }
    if (wres.first != NLW2_WriteNL_OK) { v.set("WRITER_FAILED", std::string("rc/") + enc, "WriteNLFile returned " + std::to_string((int)wres.first) + " " + wres.second); continue; }
    std::string bytes;
    sim::read_file(base + ".nl", bytes);
    fp = sim::fnv1a(bytes, fp);
    bump(st, std::string("bytes.") + enc, (long)bytes.size());
    // ---------------- reader party
    ReadOpts ro; ro.flags = flags; ro.handler = H_CHECK; ro.want_items = true; ro.norm_zero = true;
    const int only_obj = sc.has("only_obj") ? (int)sc["only_obj"].as_int(-1) : -1;
    ro.only_obj = only_obj;
    auto unwanted = [&](const std::string& key) {      // items of objectives the handler declined
      if (only_obj < 0 || key.size() < 2 || (key[0] != 'O' && key[0] != 'G') || !isdigit((unsigned char)key[1])) return false;
      return atoi(key.c_str() + 1) != only_obj;
    };
    ReadOutcome out;
    SimRun sr = sim_session(nofaults, 500000, [&] { out = read_nl_file(base + ".nl", ro); });
    if (sr.exited) { v.set("HANG", std::string("reader/") + enc, "NL reader did not return"); continue; }
    fp = sim::fnv1a(out.outcome_key(), fp); fp = sim::fnv1a(&out.trace_hash, 8, fp);
    if (out.status != "ok") {
      v.set("READ_FAILED", out.status + "/" + enc, std::string(enc) + " file written by NLW2 rejected by the reader: " + out.status + ": " + out.msg);
      continue;
    }
    if (!out.viol_class.empty()) v.set(out.viol_class, out.viol_key, std::string("recording checker on NLW2 ") + enc + " output: " + out.viol_detail);
    got[pass] = out.items;
    ok[pass] = true;
    // ---------------- refinement: reader history == feed history
    Expect ex(m);
    mp::NLHeader hx = make_header(m, w);
    // the writer reports the longest name it wrote in the header
    if (have_col) for (auto& n : colnames) hx.max_var_name_len = std::max(hx.max_var_name_len, (int)n.size());
    if (have_row) for (auto& n : rownames) hx.max_con_name_len = std::max(hx.max_con_name_len, (int)n.size());
    ex.build(hx, w);
    for (auto& kv : ex.items) {
      if (unwanted(kv.first)) { if (out.items.count(kv.first)) v.set("ITEM_PHANTOM", item_kind(kv.first) + "/" + enc, "item " + kv.first + " of a declined objective was notified"); continue; }
      auto it = out.items.find(kv.first);
      if (it == out.items.end()) { v.set("ITEM_MISSING", item_kind(kv.first) + "/" + enc, "fed item " + kv.first + " = [" + kv.second.substr(0, 200) + "] never notified by the reader (" + enc + ")"); break; }
      if (it->second != kv.second) {
        size_t p = 0;
        while (p < kv.second.size() && p < it->second.size() && kv.second[p] == it->second[p]) ++p;
        size_t from = p > 30 ? p - 30 : 0;
        std::string cause = item_kind(kv.first);
        if (kv.first == "HDR" && kv.second.compare(0, kv.second.find(" vbtol="), it->second, 0, it->second.find(" vbtol=")) == 0) cause = "HDR-vbtol";
        else if (kv.second.find("0x1.fffffffffffffp+1023") != std::string::npos && it->second.find("inf") != std::string::npos) cause += "-dblmax-as-infinity";
        v.set("ITEM_MISMATCH", cause + "/" + enc, std::string(enc) + " item " + kv.first + ": fed [..." + kv.second.substr(from, 120) + "] read [..." +
              it->second.substr(from, 120) + "]");
        break;
      }
    }
    // ---------------- names: what the library's own name reader (mp::NameProvider) finds next to the .nl file
    {
      struct NF { const char* ext; bool given; const std::vector<std::string>* want; } nf[2] = {{".col", have_col, &colnames}, {".row", have_row, &rownames}};
      for (auto& f : nf) {
        std::string content;
        bool exists = sim::read_file(base + f.ext, content);
        if (!f.given || f.want->empty()) {
          if (exists && !content.empty()) v.set("STALE_NAMES", std::string(f.ext + 1) + "/" + enc, std::string("no names were fed for ") + f.ext + " but the file exists after WriteNLFile: '" + content.substr(0, 60) + "'");
          continue;
        }
        if (!exists) { v.set("NAMES_MISSING", std::string(f.ext + 1) + "/" + enc, std::string(f.ext) + " not written although names were fed"); continue; }
        try {
          mp::NameProvider np(base + f.ext, "_gen", f.want->size());
          if (np.number_read() != f.want->size()) v.set("NAMES_MISMATCH", std::string(f.ext + 1) + "-count/" + enc, std::string(f.ext) + ": fed " + std::to_string(f.want->size()) + " names, read " + std::to_string(np.number_read()));
          else for (size_t i = 0; i < f.want->size(); ++i) {
            fmt::StringRef got = np.name(i);
            if (std::string(got.data(), got.size()) != (*f.want)[i]) { v.set("NAMES_MISMATCH", std::string(f.ext + 1) + "/" + enc, std::string(f.ext) + " name " + std::to_string(i) + ": fed '" + (*f.want)[i] + "' read '" + std::string(got.data(), got.size()) + "'"); break; }
          }
          bump(st, "names.compared");
        } catch (const std::exception& e) { v.set("NAMES_MISMATCH", std::string(f.ext + 1) + "-unreadable/" + enc, std::string(f.ext) + " written by NLW2 cannot be read back: " + e.what()); }
      }
    }
    for (auto& kv : out.items)
      if (!ex.items.count(kv.first)) { v.set("ITEM_PHANTOM", item_kind(kv.first) + "/" + enc, "reader notified item " + kv.first + " = [" + kv.second.substr(0, 200) + "] that was never fed"); break; }
    bump(st, "items_compared", (long)ex.items.size());
  }

  // ---------------- third writer party: C callback table over the linear shadow (no writer options: the C adapter fixes them)
  if (!sc.has("c_feeder") || sc["c_feeder"].as_bool(true)) {
    const Model ms = linear_shadow(m);
    WriterOpts wc;
    for (int pass = 0; pass < 2; ++pass) {
      wc.binary = pass == 1;
      const std::string enc = wc.binary ? "c-feeder-binary" : "c-feeder-text";
      const std::string base = sim::scratch_dir() + (wc.binary ? "cb" : "ct");
      CUser cu{&ms, wc};
      // names through the C table: the shadow has no logical constraints, their row names are left out
      std::vector<std::string> rows_s;
      for (size_t i = 0; i < rownames.size(); ++i) if (i < m.cons.size() || i >= m.cons.size() + m.lcons.size()) rows_s.push_back(rownames[i]);
      const bool c_col = have_col && !colnames.empty(), c_row = have_row && !rows_s.empty();
      cu.col = &colnames; cu.row = &rows_s;
      int rc = 0; std::string werr, wexc;
      SimRun sw = sim_session(nofaults, 500000, [&] {
        try {
          NLW2_NLFeeder_C f = NLW2_MakeNLFeeder_C_Default();
          f.p_user_data_ = &cu;
          f.Header = c_header;
          f.ObjDescription = c_objdescr; f.ObjType = c_objtype; f.ObjGradientNNZ = c_objnnz; f.FeedObjGradient = c_objgrad;
          f.FeedVarBounds = c_varbounds; f.FeedConBounds = c_conbounds;
          f.ConDescription = c_condescr; f.LinearConExprNNZ = c_connnz; f.FeedLinearConExpr = c_conlin;
          f.FeedColumnSizes = c_colsizes;
          f.InitialGuessesNNZ = c_x0nnz; f.FeedInitialGuesses = c_x0;
          f.InitialDualGuessesNNZ = c_d0nnz; f.FeedInitialDualGuesses = c_d0;
          f.FeedSuffixes = c_sufs;
          if (c_col) { f.want_col_names_ = 1; f.FeedColNames = c_colnames; }
          if (c_row) { f.want_row_and_obj_names_ = 1; f.FeedRowAndObjNames = c_rownames; }
          NLW2_NLUtils_C u = NLW2_MakeNLUtils_C_Default();
          NLW2_NLSolver_C cs = NLW2_MakeNLSolver_C(&u);
          NLW2_SetFileStub_C(&cs, base.c_str());
          rc = NLW2_LoadNLFeed2_C(&cs, &f);
          if (!rc) { const char* e = NLW2_GetErrorMessage_C(&cs); werr = e ? e : ""; }
          NLW2_DestroyNLSolver_C(&cs);
          NLW2_DestroyNLUtils_C_Default(&u);
          NLW2_DestroyNLFeeder_C_Default(&f);
        } catch (const std::exception& e) { wexc = e.what(); }
      });
      if (sw.exited) { v.set("HANG", "writer/" + enc, "NL writer (C feeder) did not return"); continue; }
      if (!wexc.empty()) { v.set("WRITER_FAILED", "exception/" + enc, "NLW2_LoadNLFeed2_C threw: " + wexc); continue; }
      if (!rc) { v.set("WRITER_FAILED", "rc/" + enc, "NLW2_LoadNLFeed2_C returned 0: " + werr); continue; }
      std::string bytes;
      sim::read_file(base + ".nl", bytes);
      fp = sim::fnv1a(bytes, fp);
      ReadOpts ro; ro.flags = 0; ro.handler = H_CHECK; ro.want_items = true; ro.norm_zero = true; ro.only_obj = -1;
      ReadOutcome out;
      SimRun sr = sim_session(nofaults, 500000, [&] { out = read_nl_file(base + ".nl", ro); });
      if (sr.exited) { v.set("HANG", "reader/" + enc, "NL reader did not return"); continue; }
      fp = sim::fnv1a(out.outcome_key(), fp); fp = sim::fnv1a(&out.trace_hash, 8, fp);
      if (out.status != "ok") { v.set("READ_FAILED", out.status + "/" + enc, enc + " file rejected by the reader: " + out.status + ": " + out.msg); continue; }
      if (!out.viol_class.empty()) v.set(out.viol_class, out.viol_key, "recording checker on " + enc + " output: " + out.viol_detail);
      Expect ex(ms);
      mp::NLHeader hx = make_header(ms, wc);
      if (c_col) for (auto& n : colnames) hx.max_var_name_len = std::max(hx.max_var_name_len, (int)n.size());
      if (c_row) for (auto& n : rows_s) hx.max_con_name_len = std::max(hx.max_con_name_len, (int)n.size());
      ex.build(hx, wc);
      {
        struct NF { const char* ext; bool given; const std::vector<std::string>* want; } nf[2] = {{".col", c_col, &colnames}, {".row", c_row, &rows_s}};
        for (auto& f : nf) {
          std::string content;
          bool exists = sim::read_file(base + f.ext, content);
          if (!f.given) {
            if (exists && !content.empty()) v.set("STALE_NAMES", std::string(f.ext + 1) + "/" + enc, std::string("no names were fed for ") + f.ext + " but the file exists after NLW2_LoadNLFeed2_C: '" + content.substr(0, 60) + "'");
            continue;
          }
          if (!exists) { v.set("NAMES_MISSING", std::string(f.ext + 1) + "/" + enc, std::string(f.ext) + " not written although names were fed"); continue; }
          try {
            mp::NameProvider np(base + f.ext, "_gen", f.want->size());
            if (np.number_read() != f.want->size()) v.set("NAMES_MISMATCH", std::string(f.ext + 1) + "-count/" + enc, std::string(f.ext) + ": fed " + std::to_string(f.want->size()) + " names, read " + std::to_string(np.number_read()));
            else for (size_t i = 0; i < f.want->size(); ++i) {
              fmt::StringRef gotn = np.name(i);
              if (std::string(gotn.data(), gotn.size()) != (*f.want)[i]) { v.set("NAMES_MISMATCH", std::string(f.ext + 1) + "/" + enc, std::string(f.ext) + " name " + std::to_string(i) + ": fed '" + (*f.want)[i] + "' read '" + std::string(gotn.data(), gotn.size()) + "'"); break; }
            }
            bump(st, "c_feeder.names_compared");
          } catch (const std::exception& e) { v.set("NAMES_MISMATCH", std::string(f.ext + 1) + "-unreadable/" + enc, std::string(f.ext) + " written through the C feeder cannot be read back: " + e.what()); }
        }
      }
      for (auto& kv : ex.items) {
        auto it = out.items.find(kv.first);
        if (it == out.items.end()) { v.set("ITEM_MISSING", item_kind(kv.first) + "/" + enc, "fed item " + kv.first + " = [" + kv.second.substr(0, 200) + "] never notified by the reader (" + enc + ")"); break; }
        if (it->second != kv.second) {
          size_t p = 0;
          while (p < kv.second.size() && p < it->second.size() && kv.second[p] == it->second[p]) ++p;
          size_t from = p > 30 ? p - 30 : 0;
          v.set("ITEM_MISMATCH", item_kind(kv.first) + "/" + enc, enc + " item " + kv.first + ": fed [..." + kv.second.substr(from, 120) + "] read [..." + it->second.substr(from, 120) + "]");
          break;
        }
      }
      for (auto& kv : out.items)
        if (!ex.items.count(kv.first)) { v.set("ITEM_PHANTOM", item_kind(kv.first) + "/" + enc, "reader notified item " + kv.first + " = [" + kv.second.substr(0, 200) + "] that was never fed"); break; }
      bump(st, "c_feeder.items_compared", (long)ex.items.size());
      bump(st, "c_feeder.roundtrips");
      for (auto& c : ms.cons) if (c.b.kind == 5) { bump(st, c.b.cvar == 1 ? "c_feeder.compl_first_var" : "c_feeder.compl_other_var"); }
    }
  }
  if (ok[0] && ok[1] && got[0] != got[1]) {
    std::string k;
    for (auto& kv : got[0]) { auto it = got[1].find(kv.first); if (it == got[1].end() || it->second != kv.second) { k = kv.first; break; } }
    if (k.empty()) for (auto& kv : got[1]) if (!got[0].count(kv.first)) { k = kv.first; break; }
    v.set("TEXT_BINARY_DIFFER", item_kind(k), "item " + k + ": text gives [" + got[0][k].substr(0, 150) + "] binary gives [" + got[1][k].substr(0, 150) + "]");
  }
  if (ok[0] && ok[1]) bump(st, "roundtrips_ok");
  r.fingerprint = fp;
  r.trace_sig = sim::fnv1a(r.verdict + (w.comments ? "c" : "-") + (w.bounds_first ? "b" : "-") + std::to_string(w.colsizes) + std::to_string(flags) +
                           std::to_string(m.cons.size()) + std::to_string(m.lcons.size()) + std::to_string(m.objs.size()) + std::to_string(m.sufs.size()) + std::to_string(m.cexprs.size()));
  r.nontrivial = !m.cons.empty() || !m.objs.empty() || !m.lcons.empty();
  if (r.verdict == "OK") r.sig = "";
  return r;
}

Json describe() {
  Json d = Json::object();
  d.set("writer", "real NLW2 writer (mp::WriteNLFile, text and binary formatters) fed through an NLFeeder adaptor over the model IR");
  d.set("writer_c", "real NLW2 C adapter (NLW2_NLFeeder_C callback table -> NLW2_LoadNLFeed2_C) fed the linear shadow of the same model, text and binary");
  d.set("reader", "real mp::ReadNLFile with the recording checker (per-item history)");
  return d;
}

const Property kC03 = {"C03", generate, run, describe};
IOSIM_REGISTER(kC03);

}  // namespace
}  // namespace iosim
