// C05 — a written .sol file is read back as the same solution (fault-free hand-off).
//
// Writer party: real mp::WriteSolFile over a real mp suffix set.  Reader party: real
// mp::ReadSOLFile with a recording handler that consumes everything.  Oracle: same data back.
#include <algorithm>

#include "io_common.h"
#include "solgen.h"
#include "solread.h"

namespace iosim {
namespace {

Json generate(const std::string& tier, uint64_t seed, uint64_t index) {
  (void)tier;
  Rng rng(seed, "C05", index);
  SolGenOpts go;
  go.awkward = rng.chance(0.7);
  go.nonfinite = rng.chance(0.12);
  go.reader_friendly_options = rng.chance(0.7);
  Sol s = gen_sol(rng, go);
  // a first line made only of backspaces has no agreed meaning (the reader drops the whole line): keep text after them
  size_t nb = 0;
  while (nb < s.message.size() && s.message[nb] == '\b') ++nb;
  if (nb && (nb == s.message.size() || s.message[nb] == '\n' || s.message[nb] == '\r')) s.message.insert(nb, "msg");
  Json sc = Json::object();
  sc.set("sol", s.to_json());
  // fault-injecting configuration (kept apart from the fault-free one): one fault on one of the writer's flushes - an interrupted,
  // short or failing write - with a small stdio buffer, so that the file leaves in many pieces.  The writer either reports the
  // failure or has written the complete file.
  if (rng.chance(0.06)) {
    static const long bs[] = {16, 64, 200, 1024, 4096};
    static const char* kd[] = {"EINTR", "EINTR", "SHORT", "ENOSPC", "EIO"};
    Json f = Json::object();
    f.set("role", "sol"); f.set("op", "fwrite"); f.set("k", (long)rng.below(12)); f.set("kind", kd[rng.below(5)]); f.set("param", (long)rng.below(40));
    Json fl = Json::array(); fl.push(f);
    sc.set("wfaults", fl); sc.set("stdio_bufsize", bs[rng.below(5)]);
  }
  // a second writer party (20 %, where the solution fits that interface): the way a driver writes - suffix values reported to an
  // mp::Problem (optionally after an earlier report for the same suffixes), vectors handed to mp::SolutionWriterImpl::HandleSolution
  if (!sc.has("wfaults") && rng.chance(0.2)) { sc.set("driver_entry", true); sc.set("driver_entry_history", rng.chance(0.4)); }
  // a second reader party: the library's own handler behind NLSolver::ReadSolution() (the "easy" API), for a model whose
  // columns are of mixed classes, so that the file's NL order is a proper permutation of the caller's order
  if (s.nvars > 0 && s.nlcons == 0 && rng.chance(0.25)) {
    Json ty = Json::array();
    for (int j = 0; j < s.nvars; ++j) ty.push((long)rng.below(3));
    sc.set("easy_types", ty);
    sc.set("easy_c", rng.chance(0.5));
  }
  return sc;
}

struct Verdict {
  sim::RunResult& r;
  explicit Verdict(sim::RunResult& rr) : r(rr) {}
  void set(const std::string& cls, const std::string& key, const std::string& detail) {
    if (r.verdict != "OK") return;
    r.verdict = cls; r.sig = "C05:" + cls + ":" + key; r.detail = detail;
  }
};

std::vector<std::string> split_lines(const std::string& s) {
  std::vector<std::string> v;
  size_t p = 0;
  for (;;) {
    size_t q = s.find('\n', p);
    if (q == std::string::npos) { v.push_back(s.substr(p)); break; }
    v.push_back(s.substr(p, q - p));
    p = q + 1;
  }
  if (!v.empty() && v.back().empty()) v.pop_back();   // text ending in '\n' has no further line
  return v;
}
// line-by-line normal form: CR before LF dropped, the reserved empty line and its stand-in " " identified
std::vector<std::string> norm_lines(const std::string& s) {
  std::vector<std::string> v = split_lines(s);
  for (auto& l : v) {
    if (!l.empty() && l.back() == '\r') l.pop_back();
    if (l.empty()) l = " ";
  }
  return v;
}

const char* num_class(double v) {
  if (std::isnan(v)) return "nan";
  if (std::isinf(v)) return "inf";
  if (v == std::floor(v) && std::fabs(v) < 1e15) return "integral";
  if (std::fabs(v) < 2.2250738585072014e-308) return "subnormal";
  return "real";
}
// the statement's tolerance
bool value_ok(double w, double r) {
  if (std::isnan(w)) return std::isnan(r);
  if (std::isinf(w)) return r == w;
  if (w == std::floor(w) && std::fabs(w) < 1e15) return r == w;
  if (!std::isfinite(r)) return false;
  return std::fabs(r - w) <= 1e-15 * std::fabs(w);
}

// which awkward feature of the written message could explain a deviation (for low-cardinality keys)
std::string message_feature(const std::string& m) {
  std::vector<std::string> lines;
  size_t p = 0;
  for (;;) { size_t q = m.find('\n', p); if (q == std::string::npos) { lines.push_back(m.substr(p)); break; } lines.push_back(m.substr(p, q - p)); p = q + 1; }
  bool crlf_blank = false, bs_inside = false, long_line = false;
  for (size_t i = 0; i < lines.size(); ++i) {
    const std::string& l = lines[i];
    if (l == "\r" && i + 1 < lines.size()) crlf_blank = true;
    if (i > 0 && !l.empty() && l[0] == '\b') bs_inside = true;
    if (l.size() > 509) long_line = true;
  }
  return crlf_blank ? "msg-crlf-blank-line" : bs_inside ? "msg-backspace-inside" : long_line ? "msg-long-line" : "msg-plain";
}
const char* real_mismatch_kind(double w, double r) {
  if (std::isfinite(w) && std::isinf(r)) return "rounds-to-inf";
  if (std::isfinite(w) && std::isnan(r)) return "becomes-nan";
  return num_class(w);
}

sim::RunResult run(const Json& sc) {
  sim::RunResult r;
  r.stats = Json::object();
  Json& st = r.stats;
  Verdict v(r);
  Sol s = Sol::from_json(sc["sol"]);
  sim::clean_scratch();
  const std::string path = sim::scratch_dir() + "stub.sol";
  Json nofaults = Json::array();

  std::string werr;
  const bool wfaulted = sc.has("wfaults");
  bool driver_entry = sc["driver_entry"].as_bool();
  if (driver_entry) {
    std::string w0;
    SimRun s0 = sim_session(nofaults, 200000, [&] { w0 = write_sol_driver_entry(s, sim::scratch_dir() + "stub", sc["driver_entry_history"].as_bool()); });
    if (w0 == "skip" || s0.exited) driver_entry = false; else { werr = w0; bump(st, "writer_entry.driver"); if (sc["driver_entry_history"].as_bool()) bump(st, "writer_entry.driver_with_history"); }
  }
  SimRun sw = driver_entry ? SimRun() : wfaulted ? sim_session(sc["wfaults"], 200000, [&] { werr = write_sol_real(s, path); }, sc["stdio_bufsize"].as_int(0))
                       : sim_session(nofaults, 200000, [&] { werr = write_sol_real(s, path); });
  std::string bytes;
  sim::read_file(path, bytes);
  if (wfaulted) {
    bool fired = false; for (auto& kv : sw.fired) { bump(st, "wfired." + kv.first, kv.second); fired = true; }
    if (fired && !werr.empty()) {
      // the writer said so: nothing more is demanded of this hand-off
      bump(st, "writer_reported_fault");
      { std::string w = werr; const std::string sd = sim::scratch_dir(); for (size_t q; (q = w.find(sd)) != std::string::npos; ) w.replace(q, sd.size(), "@/");   // the text names the file: not the pid's digits
        r.fingerprint = sim::fnv1a(bytes, sim::fnv1a(w)); }
      r.trace_sig = sim::fnv1a(std::string("wfault-reported")); r.nontrivial = true;
      return r;
    }
    if (fired) bump(st, "writer_survived_fault");      // it returned normally: the file must be the complete one (judged below)
  }
  if (!werr.empty()) { v.set("WRITER_FAILED", "exception", "WriteSolFile threw: " + werr); }
  SolReadConfig cfg; cfg.nvars = s.nvars; cfg.ncons = s.ncons; cfg.nlcons = s.nlcons;
  SolReadResult res;
  SimRun sr = sim_session(nofaults, 200000, [&] { res = read_sol(path, cfg); });

  bool nonfinite = false;
  for (double d : s.x) if (!std::isfinite(d)) nonfinite = true;
  for (double d : s.y) if (!std::isfinite(d)) nonfinite = true;
  for (auto& f : s.sufs) if (f.real) for (auto& p : f.vals) if (!std::isfinite(p.second)) nonfinite = true;
  size_t nopt = s.options.size();
  bool vbtol_form = nopt >= 2 && s.options[1] == 3;
  std::string optclass = nopt == 0 ? "none" : nopt < 3 ? "1-2" : vbtol_form ? "vbtol" : "3-9";
  bump(st, "options." + optclass);
  const std::string mfeat = message_feature(s.message);
  bump(st, mfeat);
  // the most specific known-awkward input feature, used as the key of any deviation
  const std::string cause = optclass != "3-9" ? "options-" + optclass : mfeat;
  if (nonfinite) bump(st, "has_nonfinite");
  if (!s.sufs.empty()) bump(st, "has_suffixes");
  bump(st, "bytes", (long)bytes.size());
  uint64_t ts = sim::fnv1a(optclass + (nonfinite ? "|nf" : "") + "|" + res.status + std::to_string(res.rc));

  if (sw.exited || sr.exited) v.set("HANG", sw.exited ? "writer" : "reader", "party did not return");
  else if (res.status != "returned") v.set("UNEXPECTED_EXCEPTION", res.status, "ReadSOLFile threw " + res.status + ": " + res.what);
  else if (res.rc != 0) {
    if (nonfinite) bump(st, "nonfinite_rejected");   // allowed by the statement
    else v.set("READ_FAILED", "rc" + std::to_string(res.rc) + "/" + cause,
               "file written by mp::WriteSolFile rejected by mp::ReadSOLFile: rc=" + std::to_string(res.rc) + " msg=" + res.msg +
               " (options written: " + std::to_string(nopt) + (vbtol_form ? ", vbtol form" : "") + ")");
  } else {
    bump(st, "read_ok");
    if (!res.viol_class.empty()) v.set(res.viol_class, res.viol_key, res.viol_detail);
    // ---- message
    {
      std::string m = s.message;
      size_t nb = 0;
      while (nb < m.size() && m[nb] == '\b') ++nb;
      m.erase(0, nb);
      std::vector<std::string> want = norm_lines(m), got = norm_lines(res.message);
      if (want.size() == 1 && want[0] == " " && m.empty()) want.clear();
      if (want != got || (nb && res.nbs != (int)nb)) {
        size_t i = 0;
        while (i < want.size() && i < got.size() && want[i] == got[i]) ++i;
        std::string key = want.size() != got.size() ? "line-count" : "line-text";
        if (want == got) key = "backspace-count";
        v.set("MESSAGE_MISMATCH", key + "/" + mfeat, "message: wrote " + std::to_string(want.size()) + " lines, read " + std::to_string(got.size()) + "; first difference at line " +
              std::to_string(i) + ": wrote '" + (i < want.size() ? want[i].substr(0, 60) : "<none>") + "' read '" + (i < got.size() ? got[i].substr(0, 60) : "<none>") +
              "' (backspaces written " + std::to_string(nb) + ", reported " + std::to_string(res.nbs) + ")");
      }
    }
    // ---- options (reader hands out: count, options..., ncons, nduals, nvars, nprimals)
    {
      std::vector<long> want;
      want.push_back((long)nopt);
      for (long o : s.options) want.push_back(o);
      want.push_back(s.ncons); want.push_back((long)s.y.size()); want.push_back(s.nvars); want.push_back((long)s.x.size());
      if (!res.got_opts) v.set("OPTIONS_MISMATCH", "not-delivered/" + cause, "OnAMPLOptions never called");
      else if (res.options != want || res.has_vbtol) {
        std::string a, b;
        for (long o : want) a += std::to_string(o) + " ";
        for (long o : res.options) b += std::to_string(o) + " ";
        v.set("OPTIONS_MISMATCH", "values/" + cause, "options+counts written [" + a + "] read [" + b + "] has_vbtol=" + std::to_string(res.has_vbtol));
      }
    }
    // ---- vectors
    size_t vi = 0;
    auto vec = [&](char what, const std::vector<double>& w) {
      if (w.empty()) { if (vi < res.vecs.size() && res.vecs[vi].what == what) { v.set("VECTOR_MISMATCH", std::string(1, what) + "/phantom", "absent vector delivered"); ++vi; } return; }
      if (vi >= res.vecs.size() || res.vecs[vi].what != what) { v.set("VECTOR_MISMATCH", std::string(1, what) + "/missing", "vector not delivered"); return; }
      const VecRec& g = res.vecs[vi++];
      if (g.vals.size() != w.size() || g.offered != (int)w.size()) { v.set("VECTOR_MISMATCH", std::string(1, what) + "/length", "wrote " + std::to_string(w.size()) + " values, offered " + std::to_string(g.offered)); return; }
      for (size_t i = 0; i < w.size(); ++i)
        if (g.st[i] != 0 || !value_ok(w[i], g.vals[i])) {
          v.set("VECTOR_MISMATCH", std::string(1, what) + "/" + real_mismatch_kind(w[i], g.vals[i]), "element " + std::to_string(i) + ": wrote " + dbl_canon(w[i], false) + " read " +
                dbl_canon(g.vals[i], false) + " status " + std::to_string(g.st[i]));
          return;
        }
    };
    vec('y', s.y);
    vec('x', s.x);
    // ---- objno / code
    if (!res.got_objno || res.objno != s.objno - 1) v.set("OBJNO_MISMATCH", "objno", "wrote objno " + std::to_string(s.objno - 1) + " read " + (res.got_objno ? std::to_string(res.objno) : "nothing"));
    if (!res.got_code || res.code != s.status) v.set("CODE_MISMATCH", "solve-code", "wrote " + std::to_string(s.status) + " read " + (res.got_code ? std::to_string(res.code) : "nothing"));
    // ---- suffixes: file order = kind, then (name length, name)
    std::vector<const SolSuffix*> want;
    for (int k = 0; k < 4; ++k) {
      std::vector<const SolSuffix*> g;
      for (auto& f : s.sufs) if (f.kind == k) g.push_back(&f);
      std::sort(g.begin(), g.end(), [](const SolSuffix* a, const SolSuffix* b) { return a->name.size() != b->name.size() ? a->name.size() < b->name.size() : a->name < b->name; });
      want.insert(want.end(), g.begin(), g.end());
    }
    for (const SolSuffix* f : want) {
      if (vi >= res.vecs.size()) { v.set("SUFFIX_MISMATCH", "missing", "suffix " + f->name + " not delivered"); break; }
      const VecRec& g = res.vecs[vi++];
      std::vector<std::pair<int, double>> w;
      for (int i = 0; i < f->size; ++i) {
        bool have = false; double val = 0;
        for (auto& p : f->vals) if (p.first == i) { have = true; val = f->real ? p.second : (double)(int)p.second; }
        if (have && (val != 0 || std::isnan(val))) w.push_back({i, val});
      }
      std::string why;
      if ((g.what == 'd') != f->real || g.sufkind != (f->kind | (f->real ? 4 : 0))) why = "kind";
      else if (g.name != f->name) why = "name";
      else if (norm_lines(g.table) != norm_lines(f->table) && !(f->table.empty() && g.table.empty())) why = "table";
      else if (g.vals.size() != w.size()) why = "count";
      else for (size_t i = 0; i < w.size(); ++i) {
        if (g.idx[i] != w[i].first) { why = "index"; break; }
        if (g.st[i] != 0 || !value_ok(w[i].second, g.vals[i])) { why = std::string("value-") + real_mismatch_kind(w[i].second, g.vals[i]); break; }
      }
      if (!why.empty()) {
        v.set("SUFFIX_MISMATCH", why, "suffix '" + f->name + "' kind " + std::to_string(f->kind) + (f->real ? " real" : " int") + ": " + why + " differs (read name '" +
              g.name.substr(0, 40) + "' kind " + std::to_string(g.sufkind) + " values " + std::to_string(g.vals.size()) + "/" + std::to_string(w.size()) + " table '" +
              g.table.substr(0, 50) + "' vs written '" + f->table.substr(0, 50) + "')");
        break;
      }
    }
    if (vi < res.vecs.size() && r.verdict == "OK") v.set("SUFFIX_MISMATCH", "phantom", "more vectors/suffixes delivered than written");
  }
  // ---- the same file through the easy API: everything per column comes back in the caller's order
  if (sc.has("easy_types") && r.verdict == "OK" && res.status == "returned" && res.rc == 0 && !nonfinite) {
    SolReadConfig ec; ec.nvars = s.nvars; ec.ncons = s.ncons; ec.nlcons = 0; ec.easy_party = true;
    // half of them through the C flavour (NLW2_ReadSolution_C on a solver object that has read another solution before)
    if (sc["easy_c"].as_bool()) { ec.easy_party = false; ec.easy_c_party = true; bump(st, "easy_party_c_flavour"); }
    for (auto& t : sc["easy_types"].arr()) ec.easy_types.push_back((int)t.as_int());
    SolReadResult er;
    SimRun se = sim_session(nofaults, 400000, [&] { er = read_sol(path, ec); });
    bump(st, "easy_party_runs");
    if (se.exited) v.set("HANG", "easy-reader", "NLSolver::ReadSolution did not return");
    else if (er.status != "returned") v.set("UNEXPECTED_EXCEPTION", "easy/" + er.status, "NLSolver::ReadSolution threw " + er.status + ": " + er.what);
    else if (er.rc != 0) bump(st, "easy_party_rejected");       // (objective / problem suffixes beyond what the one-objective model has, ...)
    else if ((int)er.easy_vperm.size() == s.nvars) {
      bump(st, "easy_party_read_ok");
      // the message and the solve result come back as the recording handler saw them
      if (er.got_msg && norm_lines(er.message) != norm_lines(res.message))
        v.set("EASY_MESSAGE", ec.easy_c_party ? "c" : "cpp", "the easy reader returned the message '" + er.message.substr(0, 60) + "' (" + std::to_string(er.message.size()) + " bytes), the file holds '" + res.message.substr(0, 60) + "' (" + std::to_string(res.message.size()) + " bytes)");
      if (er.got_code && er.code != s.status) v.set("EASY_MESSAGE", "code", "the easy reader returned solve result " + std::to_string(er.code) + ", written " + std::to_string(s.status));
      const std::vector<int>& vp = er.easy_vperm;
      bool moved = false; for (int j = 0; j < s.nvars; ++j) moved |= vp[(size_t)j] != j;
      if (moved) bump(st, "easy_party_permuted");
      { std::vector<int> seen((size_t)s.nvars, 0); int c3 = 0; for (int j = 0; j < s.nvars; ++j) if (!seen[(size_t)j]) { int len = 0; for (int q = j; !seen[(size_t)q]; q = vp[(size_t)q]) { seen[(size_t)q] = 1; ++len; } if (len >= 3) ++c3; } if (c3) bump(st, "easy_party_long_cycle"); }
      const VecRec* ex = nullptr; for (auto& g : er.vecs) if (g.what == 'x') ex = &g;
      if (!s.x.empty() && ex && (int)ex->vals.size() == s.nvars && (int)s.x.size() == s.nvars)
        for (int j = 0; j < s.nvars; ++j) if (!value_ok(s.x[(size_t)vp[(size_t)j]], ex->vals[(size_t)j])) { v.set("EASY_ORDER", "x", "column " + std::to_string(j) + " (NL position " + std::to_string(vp[(size_t)j]) + "): wrote " + dbl_canon(s.x[(size_t)vp[(size_t)j]], false) + ", NLSolution.x_ has " + dbl_canon(ex->vals[(size_t)j], false)); break; }
      for (auto& f : s.sufs) {
        if (r.verdict != "OK") break;
        const SolReadResult::EasySuf* g = nullptr;
        for (auto& q : er.easy_sufs) if (q.name == f.name && (q.kind & 3) == f.kind && ((q.kind & 4) != 0) == f.real) g = &q;
        if (!g) continue;          // (same name and kind as int and real: the solution keeps one of them)
        int dups = 0; for (auto& f2 : s.sufs) if (f2.name == f.name && f2.kind == f.kind) ++dups;
        if (dups > 1) continue;
        for (auto& p0 : f.vals) {
          double val = f.real ? p0.second : (double)(int)p0.second;
          int at = p0.first;
          if (f.kind == 0) { at = -1; for (int j = 0; j < s.nvars; ++j) if (vp[(size_t)j] == p0.first) at = j; }
          if (at < 0 || at >= (int)g->values.size()) continue;
          bool later = false; for (auto& p1 : f.vals) if (&p1 > &p0 && p1.first == p0.first) later = true;    // an index written twice: the last one counts
          if (later) continue;
          if (!value_ok(val, g->values[(size_t)at])) { v.set("EASY_ORDER", f.kind == 0 ? "var-suffix" : "other-suffix", "suffix '" + f.name + "' kind " + std::to_string(f.kind) + ": the value " + dbl_canon(val, false) + " written for NL item " + std::to_string(p0.first) + " belongs to the caller's item " + std::to_string(at) + ", which received " + dbl_canon(g->values[(size_t)at], false)); break; }
        }
      }
    }
  }
  r.fingerprint = sim::fnv1a(bytes, res.hash);
  r.trace_sig = ts ^ sim::fnv1a(r.sig);
  r.nontrivial = !s.sufs.empty() || !s.x.empty() || !s.y.empty();
  if (r.verdict == "OK") r.sig = "";
  return r;
}

Json describe() {
  Json d = Json::object();
  d.set("writer", "real mp::WriteSolFile over a SolutionAdapter on a real mp::SuffixManager (through the fopen shim, fault-free)");
  d.set("reader", "real mp::ReadSOLFile with a recording handler that consumes every offered vector");
  return d;
}

const Property kC05 = {"C05", generate, run, describe};
IOSIM_REGISTER(kC05);

}  // namespace
}  // namespace iosim
