// C14 — the SOL reader is total and memory-safe on arbitrary files.
//
// Parties: writer (real mp::WriteSolFile through the fopen shim, or an own binary .sol emitter),
// storage adversary / hostile writer, consumer (scripted SOLHandler), reader (mp::ReadSOLFile).
#include <unistd.h>

#include <algorithm>
#include <set>

#include "io_common.h"
#include "solgen.h"
#include "solread.h"

namespace iosim {
namespace {

Json dmg(const char* kind, long at) { Json o = Json::object(); o.set("kind", kind); o.set("at", at); return o; }

Json sol_fault(const char* op, int k, const char* kind, long param = 0) {
  sim::FaultOp f; f.role = "sol"; f.op = op; f.k = k; f.kind = kind; f.param = param;
  return f.to_json();
}

Json gen_sol_damage(Rng& rng, const std::string& bytes, bool prefix_only) {
  Json list = Json::array();
  size_t n = bytes.size();
  if (!n) return list;
  int count = rng.chance(0.8) ? 1 : 2;
  for (int i = 0; i < count; ++i) {
    int pick = prefix_only ? (int)rng.below(40) : (int)rng.below(100);
    if (pick < 30) {
      long at = (long)rng.below(n);
      int cls = (int)rng.below(4);
      if (cls == 0) { while (at > 0 && bytes[(size_t)at - 1] != '\n') --at; }          // at a line boundary
      else if (cls == 1) { at = (long)n - 1 - (long)rng.below(std::min<size_t>(n, 24)); if (at < 0) at = 0; }   // near the end: inside the last numbers
      list.push(dmg("truncate", at));
    } else if (pick < 40) {
      Json o = dmg("torn", (long)rng.below(n + 1)); o.set("unit", rng.chance(0.7) ? 512 : 4096); list.push(o);
    } else if (pick < 60) {
      long at = (long)rng.below(n);
      if (rng.chance(0.5)) { Json o = dmg("flip", at); o.set("x", 1 << rng.below(8)); list.push(o); }
      else {
        static const int b[] = {0, '\n', ' ', '-', '9', '0', 'O', 's', 0xff, 0x80, '\r', '\b', 'e', '.'};
        Json o = dmg("set", at); o.set("b", rng.pick(b)); list.push(o);
      }
    } else if (pick < 78) {
      Json o = dmg("zero", (long)rng.below(n)); o.set("len", rng.chance(0.6) ? (long)(1 + rng.below(16)) : 512); list.push(o);
    } else {
      long at = (long)rng.below(n);
      if (rng.chance(0.5)) while (at > 0 && bytes[(size_t)at - 1] != '\n') --at;
      Json o = dmg("dup", at); o.set("len", rng.chance(0.6) ? (long)(1 + rng.below(64)) : (long)(1 + rng.below(n))); list.push(o);
    }
  }
  return list;
}

long sol_hostile_value(Rng& rng, const Field& f) {
  std::vector<long> c = {-1, 0, 1, 2, 511, 512, 513, 1000, 65536, 2147483647L, 2147483648L, 4294967295L, f.val - 1, f.val + 1, 1073741824L, 536870912L};
  if (f.bound >= 0) { c.push_back(f.bound); c.push_back(f.bound + 1); }
  long v = rng.pick(c);
  if (v == f.val) v = f.val + 1;
  return v;
}

Json gen_sol_hostile(Rng& rng, const SolEmitted& em, bool bin) {
  Json list = Json::array();
  if (em.fields.empty()) return list;
  std::vector<std::string> classes;
  { std::set<std::string> s; for (auto& f : em.fields) s.insert(f.cls); classes.assign(s.begin(), s.end()); }
  const std::string& cls = rng.pick(classes);
  std::vector<const Field*> inst;
  for (auto& f : em.fields) if (cls == f.cls) inst.push_back(&f);
  const Field& f = *rng.pick(inst);
  long v = sol_hostile_value(rng, f);
  Json op = Json::object();
  op.set("kind", "patch"); op.set("at", (long)f.off); op.set("del", (long)f.len);
  std::string ins;
  if (bin) { uint32_t x = (uint32_t)v; ins.assign((const char*)&x, 4); }
  else ins = std::to_string(v);
  op.set("ins", ins); op.set("label", std::string(f.cls)); op.set("value", v);
  list.push(op);
  // binary: a record length appears twice (before and after the payload); often rewrite both consistently
  if (bin && !strncmp(f.cls, "bin.", 4) && rng.chance(0.5)) {
    for (auto& g : em.fields)
      if (&g != &f && !strcmp(g.cls, f.cls) && g.val == f.val && g.off > f.off) {
        Json op2 = op; op2.set("at", (long)g.off);
        list.push(op2);
        break;
      }
  }
  return list;
}

Json generate(const std::string& tier, uint64_t seed, uint64_t index) {
  (void)tier;
  Rng rng(seed, "C14", index);
  SolGenOpts go; go.awkward = rng.chance(0.5); go.nonfinite = rng.chance(0.15);
  Sol s = gen_sol(rng, go);
  Json sc = Json::object();
  bool bin = rng.chance(0.4);
  sc.set("writer", bin ? "own-binary" : "mp-text");
  sc.set("sol", s.to_json());
  SolBinOpts bo; bo.with_options = rng.chance(0.8); bo.objno_short = rng.chance(0.1);
  if (bin) { Json b = Json::object(); b.set("with_options", bo.with_options); b.set("objno_short", bo.objno_short); sc.set("binopts", b); }

  // bytes as the writer will produce them (to aim damage / locate fields)
  SolEmitted em = bin ? emit_sol_binary(s, bo) : emit_sol_text(s);
  bool fields_ok = true;
  if (!bin) {
    std::string tmp = sim::scratch_dir() + "gen.sol";
    std::string real;
    write_sol_real(s, tmp);
    sim::read_file(tmp, real);
    ::unlink(tmp.c_str());
    if (real != em.bytes) { fields_ok = false; em.bytes = real; em.fields.clear(); sc.set("own_text_emitter_mismatch", true); }
  }
  int lsel = (int)rng.below(100);
  std::string label = lsel < 12 ? "pristine" : lsel < 30 ? "trunc" : lsel < 55 ? "damaged" : lsel < 85 ? "hostile" : "wfault";
  if (label == "hostile" && !fields_ok) label = "damaged";
  if (label == "wfault" && bin) label = "trunc";
  sc.set("label", label);
  Json damage = Json::array(), wfaults = Json::array(), rfaults = Json::array();
  if (label == "trunc") damage = gen_sol_damage(rng, em.bytes, true);
  else if (label == "damaged") damage = gen_sol_damage(rng, em.bytes, false);
  else if (label == "hostile") damage = gen_sol_hostile(rng, em, bin);
  else if (label == "wfault") {
    // the writer's device fills up / fails: what is left on the disk is what the reader gets
    int pk = (int)rng.below(100);
    if (pk < 70) wfaults.push(sol_fault("fwrite", (int)rng.below(3), "SHORT", (long)rng.below(em.bytes.size() + 1)));
    else if (pk < 85) wfaults.push(sol_fault("fwrite", (int)rng.below(2), rng.chance(0.5) ? "ENOSPC" : "EIO"));
    else wfaults.push(sol_fault("fclose", 0, "EIO"));
  }
  sc.set("damage", damage);
  sc.set("wfaults", wfaults);
  if (rng.chance(0.25)) {
    int pk = (int)rng.below(100);
    if (pk < 50) rfaults.push(sol_fault("fread", (int)rng.below(3), "SHORT", (long)(1 + rng.below(64))));
    else if (pk < 75) rfaults.push(sol_fault("fread", (int)rng.below(3), "EIO"));
    else if (pk < 90) rfaults.push(sol_fault("fread", (int)rng.below(3), "ZERO"));
    else if (pk < 96) { static const char* k[] = {"ENOENT", "EACCES", "EMFILE"}; rfaults.push(sol_fault("fopen", 0, rng.pick(k))); }
    else rfaults.push(sol_fault("fclose", 0, "EIO"));
  }
  sc.set("rfaults", rfaults);
  // declared problem size: equal / 0 / smaller / larger
  Json decl = Json::object();
  int dsel = (int)rng.below(100);
  int dv = s.nvars, dc = s.ncons;
  if (dsel >= 60 && dsel < 70) { dv = 0; dc = 0; }
  else if (dsel >= 70 && dsel < 82) { dv = (int)rng.below(s.nvars + 1); dc = (int)rng.below(s.ncons + 1); }
  else if (dsel >= 82) { dv = s.nvars + 1 + (int)rng.below(4); dc = s.ncons + (int)rng.below(4); }
  decl.set("nvars", dv); decl.set("ncons", dc); decl.set("nlcons", s.nlcons);
  sc.set("declared", decl);
  // consumer script
  Json script = Json::array();
  if (rng.chance(0.45)) {
    int n = 1 + (int)rng.below(5);
    for (int i = 0; i < n; ++i) {
      Json st = Json::object();
      int m = (int)rng.below(100);
      st.set("mode", m < 32 ? "all" : m < 44 ? "counted" : m < 65 ? "some" : m < 85 ? "none" : m < 93 ? "seterr" : "seterr_end");
      st.set("k", (long)rng.below(6));
      script.push(st);
    }
  }
  sc.set("consumer", script);
  sc.set("options_rv", rng.chance(0.1) ? (long)(1 + rng.below(5)) : 0L);
  sc.set("c_party", rng.chance(0.2));
  sc.set("easy_party", !sc["c_party"].as_bool() && rng.chance(0.15));
  // two more consumer parties from the C side of the library: its default callback table, and NLW2_ReadSolution_C on a solver
  // object with a history (it has read another solution, with suffixes of its own, before)
  if (sc["easy_party"].as_bool() && rng.chance(0.4)) sc.set("easy_after_other_model", true);
  { int q = (int)rng.below(100); if (!sc["c_party"].as_bool() && !sc["easy_party"].as_bool()) { if (q < 8) sc.set("c_default_party", true); else if (q < 18) sc.set("easy_c_party", true); } }   // the library's own handler (NLSolver::ReadSolution for an NLModel of the declared size)      // the consumer is a C callback table behind the library's C wrapper (api/c)
  return sc;
}

struct Verdict {
  sim::RunResult& r;
  explicit Verdict(sim::RunResult& rr) : r(rr) {}
  void set(const std::string& cls, const std::string& key, const std::string& detail) {
    if (r.verdict != "OK") return;
    r.verdict = cls; r.sig = "C14:" + cls + ":" + key; r.detail = detail;
  }
};

struct SufHdr { int kind, n, namelen, tablen, tablines; };
std::vector<SufHdr> scan_text_suffix_headers(const std::string& bytes) {
  std::vector<SufHdr> v;
  size_t p = 0;
  while (p < bytes.size()) {
    size_t q = bytes.find('\n', p);
    std::string line = bytes.substr(p, q == std::string::npos ? std::string::npos : q - p);
    if (line.compare(0, 7, "suffix ") == 0) {
      SufHdr h; int used = 0;
      if (sscanf(line.c_str() + 7, "%d %d %d %d %d%n", &h.kind, &h.n, &h.namelen, &h.tablen, &h.tablines, &used) == 5) v.push_back(h);
    }
    if (q == std::string::npos) break;
    p = q + 1;
  }
  return v;
}

SolReadConfig config_of(const Json& sc) {
  SolReadConfig c;
  c.nvars = (int)sc["declared"]["nvars"].as_int(); c.ncons = (int)sc["declared"]["ncons"].as_int(); c.nlcons = (int)sc["declared"]["nlcons"].as_int();
  for (auto& st : sc["consumer"].arr()) { ConsumerStep s; s.mode = st["mode"].as_str(); s.k = (int)st["k"].as_int(); c.script.push_back(s); }
  c.options_rv = (int)sc["options_rv"].as_int(0);
  c.c_party = sc["c_party"].as_bool();
  c.easy_party = sc["easy_party"].as_bool();
  if (sc["easy_after_other_model"].as_bool()) { c.easy_history = true; c.easy_types.assign((size_t)std::max(0, c.nvars), 0); }   // all continuous: identity order after a permuted model
  c.c_default_party = sc["c_default_party"].as_bool();
  c.easy_c_party = sc["easy_c_party"].as_bool();
  return c;
}

sim::RunResult run(const Json& sc) {
  sim::RunResult r;
  r.stats = Json::object();
  Json& st = r.stats;
  Verdict v(r);
  Sol s = Sol::from_json(sc["sol"]);
  const std::string writer = sc["writer"].as_str();
  const std::string label = sc["label"].as_str();
  bool bin = writer == "own-binary";
  bump(st, "label." + label); bump(st, "writer." + writer);
  if (sc["own_text_emitter_mismatch"].as_bool()) bump(st, "own_text_emitter_mismatch");
  sim::clean_scratch();
  const std::string path = sim::scratch_dir() + "stub.sol";
  uint64_t ts = sim::fnv1a(label + "|" + writer);

  // ---------------- writer party
  std::string werr;
  if (sc.has("raw")) {
    // hand-made file (minimised findings): no writer party
    sim::write_file(path, sc["raw"].as_str());
  } else if (bin) {
    SolBinOpts bo; bo.with_options = sc["binopts"]["with_options"].as_bool(true); bo.objno_short = sc["binopts"]["objno_short"].as_bool(false);
    sim::write_file(path, emit_sol_binary(s, bo).bytes);
  } else {
    SimRun sw = sim_session(sc["wfaults"], 100000, [&] { werr = write_sol_real(s, path); });
    for (auto& kv : sw.fired) { bump(st, "wfired." + kv.first, kv.second); ts = sim::fnv1a("w" + kv.first, ts); }
    if (!werr.empty()) bump(st, "writer_threw");
  }
  std::string written;
  sim::read_file(path, written);
  // ---------------- storage adversary / hostile writer
  std::string bytes = written;
  std::string kinds;
  apply_damage(bytes, sc["damage"], st, &kinds);
  for (auto& op : sc["damage"].arr())
    if (op["kind"].as_str() == "patch" && op.has("label")) bump(st, "hostile." + op["label"].as_str());
  ts = sim::fnv1a(kinds, ts);
  bool damaged = bytes != written;
  if (damaged) sim::write_file(path, bytes);
  bool wfaulted = !sc["wfaults"].arr().empty() && st.dump().find("wfired.") != std::string::npos;

  // ---------------- reference: the same reader on the complete, undamaged file (only needed for the prefix rule)
  Json nofaults = Json::array();
  const std::string rpath = sim::scratch_dir() + "ref.sol";
  std::string full = written;
  if (wfaulted) {   // what a fault-free writer leaves on the disk
    sim_session(nofaults, 100000, [&] { write_sol_real(s, rpath); });
    sim::read_file(rpath, full);
  }
  bool prefix = bytes.size() < full.size() && full.compare(0, bytes.size(), bytes) == 0;
  SolReadConfig cfg = config_of(sc);
  bool declared_equal = cfg.nvars == s.nvars && cfg.ncons == s.ncons;
  SolReadResult ref;
  bool have_ref = false;
  if (prefix && declared_equal) {
    sim::write_file(rpath, full);
    SolReadConfig rc; rc.nvars = s.nvars; rc.ncons = s.ncons; rc.nlcons = s.nlcons;
    sim_session(nofaults, 200000, [&] { ref = read_sol(rpath, rc); });
    have_ref = ref.status == "returned";
  }

  // ---------------- reader + consumer party
  SolReadResult res;
  SimRun sr = sim_session(sc["rfaults"], 200000, [&] { res = read_sol(path, cfg); });
  bool rfault = false;
  for (auto& kv : sr.fired) { bump(st, "rfired." + kv.first, kv.second); ts = sim::fnv1a("r" + kv.first, ts); if (kv.first != "ALLOC_CAP") rfault = true; }
  if (sr.fired.count("ALLOC_CAP")) bump(st, "bad_alloc_by_cap");
  bump(st, "status." + res.status);
  if (res.status == "returned") bump(st, "rc." + std::to_string(res.rc));
  for (auto& vr : res.vecs) bump(st, std::string("consumer.") + vr.mode);
  ts = sim::fnv1a(res.status + std::to_string(res.rc) + skeleton(res.msg, 60), ts);

  if (sr.exited)
    v.set(sr.step_budget ? "HANG" : "SIM_EXIT", "ReadSOLFile", "ReadSOLFile did not return (" + std::string(sr.step_budget ? "step budget" : "exit") + ")");
  else if (res.status != "returned" && res.status != "bad_alloc")
    v.set("UNEXPECTED_EXCEPTION", res.status, "ReadSOLFile threw " + res.status + ": " + res.what);
  if (!sr.exited && res.status == "returned") {
    if (res.rc < 0 || res.rc > 7)
      v.set("BAD_RETURN_CODE", std::to_string(res.rc), "ReadSOLFile returned undocumented code " + std::to_string(res.rc) + " msg=" + res.msg);
    else if (res.rc != 0 && res.msg.empty())
      v.set("NO_MESSAGE", "rc" + std::to_string(res.rc), "ReadSOLFile returned code " + std::to_string(res.rc) + " with an empty message");
    if (!res.viol_class.empty()) v.set(res.viol_class, res.viol_key, res.viol_detail);
    // a failed vector must not come with an overall OK
    if (res.rc == 0)
      for (auto& vr : res.vecs)
        if (vr.final_status != 0 || vr.left > 0) {
          v.set("FAILURE_REPORTED_OK", std::string(1, vr.what), "vector '" + std::string(1, vr.what) + "' ended with status " + std::to_string(vr.final_status) +
                " and " + std::to_string(vr.left) + " unread values but ReadSOLFile returned OK");
          break;
        }
    // ... nor a vector in which one of the reads failed, even if later reads succeeded again (a consumer that asks for
    // exactly the announced number of values, as the C flavour of the API does, keeps reading after a failure)
    if (res.rc == 0)
      for (auto& vr : res.vecs) {
        size_t bad = 0; while (bad < vr.st.size() && vr.st[bad] == 0) ++bad;
        if (bad < vr.st.size()) {
          v.set("FAILED_VALUE_REPORTED_OK", std::string(1, vr.what) + "/" + vr.mode, "read " + std::to_string(bad) + " of vector '" + std::string(1, vr.what) + "' failed with status " + std::to_string(vr.st[bad]) +
                " (consumer '" + vr.mode + "', " + std::to_string(vr.offered) + " values offered) but ReadSOLFile returned OK");
          break;
        }
      }
    // the C flavour of the easy reader on a solver object with a history: every suffix it returns is one of this file
    if (sc["easy_c_party"].as_bool() && res.rc == 0) {
      bump(st, "easy_c_party_read_ok");
      for (auto& es : res.easy_sufs) {
        bool in_file = bin ? bytes.find(es.name + std::string(1, '\0')) != std::string::npos
                           : bytes.find("\n" + es.name + "\n") != std::string::npos || bytes.find("\n" + es.name + "\r\n") != std::string::npos;
        if (!in_file) { v.set("FOREIGN_SUFFIX_RETURNED", bin ? "binary" : "text", "NLW2_ReadSolution_C returned a suffix named '" + es.name.substr(0, 40) + "' (kind " + std::to_string(es.kind) + ", " + std::to_string(es.values.size()) + " values): the file holds no suffix of that name (the solver object read another solution before)"); break; }
      }
    }
    if (sc["c_default_party"].as_bool()) bump(st, "c_default_party_runs");
    // a consumer that rejected a completely read vector gets its code back, and its own words in the message
    if (!res.consumer_rejected.empty()) {
      bump(st, "consumer_rejected_complete_vector");
      if (res.rc != res.consumer_rejected_code) v.set("HANDLER_ERROR_LOST", "code", "the consumer set error code " + std::to_string(res.consumer_rejected_code) + " after reading a whole vector; ReadSOLFile returned " + std::to_string(res.rc));
      else if (res.msg.find(res.consumer_rejected) == std::string::npos) v.set("HANDLER_ERROR_LOST", "message", "the consumer's error text '" + res.consumer_rejected + "' does not appear in the message: " + res.msg.substr(0, 200));
    }
    // suffix names/tables have the lengths stated in the file
    if (!bin) {
      std::vector<SufHdr> hdrs = scan_text_suffix_headers(bytes);
      for (auto& vr : res.vecs) {
        if (vr.what != 'i' && vr.what != 'd') continue;
        bool ok = false;
        for (auto& h : hdrs)
          if (h.kind == vr.sufkind && h.n == vr.offered && h.namelen == (int)vr.name.size() + 1 &&
              (h.tablen == 0 ? vr.table.empty() : (int)vr.table.size() < h.tablen)) { ok = true; break; }
        if (!ok) {
          v.set("SUFFIX_LENGTH_MISMATCH", bytes.find('\0') != std::string::npos ? "text-embedded-nul" : "text", "suffix delivered with name '" + vr.name.substr(0, 40) + "' (" + std::to_string(vr.name.size()) + " chars), table of " +
                std::to_string(vr.table.size()) + " chars, kind " + std::to_string(vr.sufkind) + ", n " + std::to_string(vr.offered) + ": no suffix header line in the file states these lengths");
          break;
        }
      }
    } else if (!rfault && !sc["easy_party"].as_bool() && !sc["easy_c_party"].as_bool()) {
      // binary, any file (valid, damaged, hostile header fields): the stated lengths count the terminating NUL, so a delivered
      // name (table) of the stated length stands in the file followed by a NUL byte
      for (auto& vr : res.vecs) {
        if (vr.what != 'i' && vr.what != 'd') continue;
        if (bytes.find(vr.name + std::string(1, '\0')) == std::string::npos || (!vr.table.empty() && bytes.find(vr.table + std::string(1, '\0')) == std::string::npos)) {
          v.set("SUFFIX_LENGTH_MISMATCH", "binary-unterminated", "binary suffix delivered with name '" + vr.name.substr(0, 40) + "' (" + std::to_string(vr.name.size()) + " chars) and table of " + std::to_string(vr.table.size()) +
                " chars: the file holds no such NUL-terminated string (a name / table not terminated within its stated length runs into what follows)");
          break;
        }
      }
    }
    if (bin && !damaged && !rfault) {
      size_t k = 0;
      for (auto& vr : res.vecs) {
        if (vr.what != 'i' && vr.what != 'd') continue;
        if (k < s.sufs.size() && (vr.name != s.sufs[k].name || vr.table != s.sufs[k].table))
          v.set("SUFFIX_LENGTH_MISMATCH", "binary", "binary suffix " + std::to_string(k) + " delivered as name '" + vr.name.substr(0, 40) + "' table '" + vr.table.substr(0, 40) +
                "', written name '" + s.sufs[k].name + "' table '" + s.sufs[k].table.substr(0, 40) + "'");
        ++k;
      }
    }
    // prefix rule: every value reported complete must be the value the complete file holds there
    if (have_ref && !rfault) {
      for (size_t j = 0; j < res.vecs.size() && j < ref.vecs.size(); ++j) {
        const VecRec& a = res.vecs[j]; const VecRec& b = ref.vecs[j];
        if (a.what != b.what) break;
        if (a.mode == "easy") continue;    // the library's own handler hands out full-size vectors whatever the file held
        // "reported as complete": the consumer read everything it was offered and the vector's reader ended OK
        bool complete = a.final_status == 0 && a.left == 0 && (int)a.vals.size() == a.offered;
        for (size_t i = 0; i < a.vals.size() && i < b.vals.size(); ++i) {
          if (a.st[i] != 0 || b.st[i] != 0) continue;
          bool same = dbl_bits(a.vals[i]) == dbl_bits(b.vals[i]) || (std::isnan(a.vals[i]) && std::isnan(b.vals[i]));
          if (!same || (!a.idx.empty() && a.idx[i] != b.idx[i])) {
            if (!complete) { bump(st, "probe.truncated_value_in_failed_vector"); break; }
            // A file cut inside the digits of its last number: all announced values arrive, the last one torn.
            // The statement speaks of vectors *partially delivered* yet reported complete, not of torn digits that
            // the text format cannot detect without a terminator check: counted, not raised (see DESIGN.md, C14).
            bump(st, std::string("probe.torn_last_value_accepted.") + (res.rc == 0 ? "rc-ok" : "rc-error"));
            // In a binary file a value is 8 bytes (an index 4): a short read is unambiguous, so there a torn
            // value delivered with reader status OK *is* a partially delivered vector reported as complete.
            if (bin) v.set("TRUNCATED_VALUE_ACCEPTED", std::string(1, a.what) + (res.rc == 0 ? "/rc-ok" : "/rc-error"),
                  "file cut at byte " + std::to_string(bytes.size()) + " of " + std::to_string(full.size()) + ": element " + std::to_string(i) + " of vector '" +
                  std::string(1, a.what) + "' (all " + std::to_string(a.offered) + " values delivered, reader status OK) is " + dbl_canon(a.vals[i], false) +
                  " but the complete file holds " + dbl_canon(b.vals[i], false) + " (ReadSOLFile rc=" + std::to_string(res.rc) + ")");
            break;
          }
        }
      }
      if (res.rc == 0 && res.got_code && ref.got_code && res.code != ref.code) bump(st, "probe.truncated_solve_code_accepted");
      bump(st, "prefix_rule_checked");
    }
    if (label == "pristine" && !rfault && declared_equal && cfg.script.empty() && cfg.options_rv == 0) bump(st, res.rc == 0 ? "pristine_ok" : "pristine_rejected");
  }
  r.fingerprint = sim::fnv1a(bytes, res.hash) ^ sr.hash;
  // a value delivered although the file does not hold it is whatever the reader's buffer held (uninitialised bytes of the code
  // under test): the fingerprint of such a run keeps to what is reproducible - the file, the return code, the verdict
  if (r.verdict == "TRUNCATED_VALUE_ACCEPTED" || r.verdict == "PREFIX_CONTRADICTED") r.fingerprint = sim::fnv1a(bytes, sim::fnv1a(r.sig + std::to_string(res.rc)));
  r.trace_sig = ts;
  r.nontrivial = damaged || wfaulted || rfault || !declared_equal || !cfg.script.empty();
  if (r.verdict == "OK") r.sig = "";
  return r;
}

Json describe() {
  Json d = Json::object();
  d.set("writer", "real mp::WriteSolFile (text, through the fopen shim incl. write faults) / own binary .sol emitter (sim/iosim/solgen.cc)");
  d.set("reader", "real mp::ReadSOLFile (nl-writer2 SOLReader2) through the fopen shim");
  d.set("consumer", "scripted recording SOLHandler (sim/iosim/solread.cc)");
  return d;
}

const Property kC14 = {"C14", generate, run, describe};
IOSIM_REGISTER(kC14);

}  // namespace
}  // namespace iosim
