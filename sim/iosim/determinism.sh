#!/bin/bash
# Determinism drill for iosim: N scenario indices per property are run
#  (A) in one worker sequence, (B) again, (C) split over two interleaved workers (--step 2),
#  (D) in reverse-ish order (second half first).  The "index fingerprint verdict" lines must be identical.
# usage: determinism.sh [N] [seed]
N=${1:-3000}; SEED=${2:-1}; D=/dev/shm/iosim-det.$$; mkdir -p $D
E=/verif/sim/iosim/explore.py
rc=0
for P in ${PROPS:-C02 C14 C05 C03}; do
  python3 $E $P --seed $SEED --count $N --rlines $D/$P.a >/dev/null
  python3 $E $P --seed $SEED --count $N --rlines $D/$P.b >/dev/null
  python3 $E $P --seed $SEED --start 0 --step 2 --count $((N/2)) --rlines $D/$P.c0 >/dev/null
  python3 $E $P --seed $SEED --start 1 --step 2 --count $((N/2)) --rlines $D/$P.c1 >/dev/null
  python3 $E $P --seed $SEED --start $((N/2)) --count $((N/2)) --rlines $D/$P.d0 >/dev/null
  python3 $E $P --seed $SEED --start 0 --count $((N/2)) --rlines $D/$P.d1 >/dev/null
  sort -n $D/$P.a > $D/$P.A; sort -n $D/$P.b > $D/$P.B
  cat $D/$P.c0 $D/$P.c1 | sort -n > $D/$P.C
  cat $D/$P.d0 $D/$P.d1 | sort -n > $D/$P.D
  for X in B C D; do
    if cmp -s $D/$P.A $D/$P.$X; then echo "$P A==$X ok ($(wc -l < $D/$P.A) lines, $(grep -c CRASH $D/$P.A) crashes)"; else echo "$P A!=$X DIFFERENT"; diff $D/$P.A $D/$P.$X | head -5; rc=1; fi
  done
done
rm -rf $D
exit $rc
