#!/usr/bin/env python3
"""Single-process exploration helper for iosim (development aid; the real driver is /verif/supervisor.py).

Runs `build/iosim gen` over an index range, restarts the worker after a sanitizer death, and prints
per-signature counts (violations reported by the engine and crashes with the first /repo frame).

usage: explore.py PROP [--seed N] [--start A] [--count N] [--rlines FILE]
"""
import argparse, collections, json, re, subprocess, sys, time

ap = argparse.ArgumentParser()
ap.add_argument('prop')
ap.add_argument('--seed', type=int, default=1)
ap.add_argument('--start', type=int, default=0)
ap.add_argument('--count', type=int, default=20000)
ap.add_argument('--step', type=int, default=1)
ap.add_argument('--tier', default='quick')
ap.add_argument('--rlines', help='write "index fingerprint verdict" lines here (determinism drills)')
ap.add_argument('--keep', type=int, default=1, help='examples kept per signature')
a = ap.parse_args()

import os
ENGINE = os.environ.get('IOSIM', '/verif/build/iosim')
sigs = collections.Counter(); examples = {}; stats = collections.Counter()
runs = 0; crashes = 0
rl = open(a.rlines, 'w') if a.rlines else None
t0 = time.time()
n_done = 0
while n_done < a.count:
    start = a.start + n_done * a.step
    p = subprocess.run([ENGINE, 'gen', '--prop', a.prop, '--tier', a.tier, '--seed', str(a.seed), '--start', str(start),
                        '--step', str(a.step), '--count', str(a.count - n_done)], stdout=subprocess.PIPE, stderr=subprocess.PIPE)
    cur = None; clean = False
    for l in p.stdout.decode('utf-8', 'replace').split('\n'):
        if l.startswith('S '): cur = int(l[2:])
        elif l.startswith('R '):
            runs += 1
            f = l.split(' ', 5)
            if rl: rl.write('%s %s %s\n' % (f[1], f[2], f[5]))
        elif l.startswith('V '):
            j = json.loads(l.split(' ', 2)[2]); s = j['result']['sig']; sigs[s] += 1
            examples.setdefault(s, []);
            if len(examples[s]) < a.keep: examples[s].append((j['index'], j['result']['detail'][:400]))
        elif l.startswith('STATS '):
            st = json.loads(l[6:])
            for k, v in st['counters'].items(): stats[k] += v
        elif l.startswith('BYE'): clean = True
    if clean:
        break
    # worker died inside scenario `cur`
    crashes += 1
    err = p.stderr.decode('utf-8', 'replace')
    m = re.search(r'runtime error: ([^\n]*)', err) or re.search(r'ERROR: \w+Sanitizer: ([^\n]*)', err)
    kind = re.sub(r'[0-9]+', '#', m.group(1))[:70] if m else 'exit%d' % p.returncode
    frame = ''
    for fm in re.finditer(r'#\d+ 0x[0-9a-f]+ in ([^\n]*)', err):
        if '/repo/' in fm.group(1):
            frame = fm.group(1).split('/repo/')[-1]; break
    s = '%s:CRASH:%s @ %s' % (a.prop, kind, frame)
    sigs[s] += 1
    examples.setdefault(s, [])
    if len(examples[s]) < a.keep: examples[s].append((cur, err[-1500:]))
    if rl: rl.write('%s CRASH %s\n' % (cur, s))
    if cur is None: print('worker died before first scenario', err[-2000:]); break
    n_done = (cur - a.start) // a.step + 1
el = time.time() - t0
print('runs %d crashes %d wall %.1fs (%.0f runs/s)' % (runs, crashes, el, runs / max(el, 1e-9)))
print('STATS', json.dumps(dict(sorted(stats.items())))[:3000])
for s, n in sorted(sigs.items()):
    print('%6d  %s' % (n, s))
    for ex in examples[s]: print('        e.g. index %s: %s' % (ex[0], ex[1].replace('\n', ' | ')[:700]))
