// iosim: helpers shared by the four hand-off properties (C02, C14, C05, C03).
#pragma once
#include <cstdint>
#include <cstdio>
#include <cstring>
#include <cmath>
#include <string>
#include <vector>

#include "../core/json.h"
#include "../core/prng.h"
#include "../core/sim.h"
#include "../core/worker.h"
#include "../core/shim.h"

#include <csetjmp>
#include <map>

namespace iosim {

using sim::Json;
using sim::Rng;

// ---------------------------------------------------------------- small utilities
inline std::string hex64(uint64_t v) { char b[20]; snprintf(b, sizeof b, "%016lx", (unsigned long)v); return b; }
inline uint64_t dbl_bits(double d) { uint64_t u; memcpy(&u, &d, 8); return u; }
// canonical text of a double: bit pattern; both zeros map to +0 when norm_zero
inline std::string dbl_canon(double d, bool norm_zero) {
  if (norm_zero && d == 0) d = 0.0;
  if (std::isnan(d)) return "nan";
  char b[40]; snprintf(b, sizeof b, "%a", d); return b;
}
// message skeleton: digits collapsed, long byte runs cut (low-cardinality key for trace signatures)
inline std::string skeleton(const std::string& s0, size_t max = 80) {
  const std::string s = sim::norm_paths(s0);
  std::string o;
  bool in_num = false;
  for (unsigned char c : s) {
    if (c >= '0' && c <= '9') { if (!in_num) o += '#'; in_num = true; continue; }
    in_num = false;
    o += (c < 0x20 || c >= 0x7f) ? '?' : (char)c;
    if (o.size() >= max) break;
  }
  return o;
}

// Notification trace: a running hash of everything plus a bounded text log.
struct Trace {
  uint64_t h = 1469598103934665603ULL;
  std::string log;
  size_t lines = 0;
  size_t max_lines = 300;
  void add(const std::string& s) {
    h = sim::fnv1a(s, h);
    h = sim::fnv1a("\n", 1, h);
    ++lines;
    if (lines <= max_lines) {
      if (s.size() > 200) { log.append(s, 0, 200); log += "..."; } else log += s;
      log += '\n';
    }
  }
  void clear() { h = 1469598103934665603ULL; log.clear(); lines = 0; }
  std::string tail(size_t n = 12) const {     // last n logged lines (for details)
    size_t pos = log.size(), cnt = 0;
    while (pos > 0 && cnt <= n) { --pos; if (log[pos] == '\n') ++cnt; }
    return log.substr(pos ? pos + 1 : 0);
  }
};

// ---------------------------------------------------------------- storage adversary
// Damage ops are explicit scenario data so that the supervisor's ddmin can drop them:
//   {"kind":"truncate","at":N}            file ends at byte N ("writer crashed")
//   {"kind":"torn","at":N,"unit":512}     tail lost back to the last unit boundary <= N
//   {"kind":"tornzero","at":N,"unit":U}   size kept, bytes from that boundary to the end are zero
//   {"kind":"flip","at":N,"x":B}          byte N ^= B
//   {"kind":"set","at":N,"b":B}           byte N = B
//   {"kind":"zero","at":N,"len":L}        lost write
//   {"kind":"dup","at":N,"len":L}         block written twice
//   {"kind":"patch","at":N,"del":D,"ins":"bytes","label":"..."}   hostile writer: one field rewritten
//   {"kind":"padto","size":S,"byte":B}    append bytes up to size S
inline void apply_damage(std::string& bytes, const Json& ops, Json& stats, std::string* kinds = nullptr) {
  for (auto& op : ops.arr()) {
    const std::string& k = op["kind"].as_str();
    size_t n = bytes.size();
    size_t at = (size_t)std::max(0L, op["at"].as_int());
    bool applied = false;
    if (k == "truncate") {
      if (at < n) { bytes.resize(at); applied = true; }
    } else if (k == "torn" || k == "tornzero") {
      size_t unit = (size_t)std::max(1L, op["unit"].as_int(512));
      if (at > n) at = n;
      size_t cut = at / unit * unit;
      if (cut < n) {
        if (k == "torn") bytes.resize(cut);
        else std::fill(bytes.begin() + cut, bytes.end(), '\0');
        applied = true;
      }
    } else if (k == "flip") {
      if (at < n) { bytes[at] = (char)(bytes[at] ^ (char)op["x"].as_int(1)); applied = op["x"].as_int(1) % 256 != 0; }
    } else if (k == "set") {
      if (at < n) { bytes[at] = (char)op["b"].as_int(0); applied = true; }
    } else if (k == "zero") {
      size_t len = (size_t)std::max(0L, op["len"].as_int());
      if (at < n && len) { if (len > n - at) len = n - at; std::fill(bytes.begin() + at, bytes.begin() + at + len, '\0'); applied = true; }
    } else if (k == "dup") {
      size_t len = (size_t)std::max(0L, op["len"].as_int());
      if (at < n && len) {
        if (len > n - at) len = n - at;
        if (len > (1u << 16)) len = 1u << 16;
        std::string blk = bytes.substr(at, len);
        bytes.insert(at + len, blk);
        applied = true;
      }
    } else if (k == "patch") {
      size_t del = (size_t)std::max(0L, op["del"].as_int());
      if (at <= n) {
        if (del > n - at) del = n - at;
        bytes.replace(at, del, op["ins"].as_str());
        applied = true;
      }
    } else if (k == "padto") {
      size_t sz = (size_t)std::max(0L, op["size"].as_int());
      if (sz > n && sz <= (1u << 20)) { bytes.append(sz - n, (char)op["byte"].as_int(' ')); applied = true; }
    }
    if (applied) {
      stats.set("damage." + k, stats["damage." + k].as_int(0) + 1);
      if (kinds) { *kinds += k; *kinds += ','; }
    }
  }
}

inline void bump(Json& stats, const std::string& key, long by = 1) { stats.set(key, stats[key].as_int(0) + by); }

// positions that matter for the page-multiple code path of NLFileReader
inline size_t pick_size_near_page(Rng& rng) {
  static const long deltas[] = {-2, -1, 0, 0, 0, 1, 2};
  long base = rng.chance(0.7) ? 4096 : (rng.chance(0.5) ? 8192 : 12288);
  return (size_t)(base + rng.pick(deltas));
}

// a structural numeric field of an emitted file (target of the hostile writer)
struct Field { size_t off, len; const char* cls; long val; long bound; };

// Property plug-ins of the engine
struct Property {
  const char* id;
  Json (*generate)(const std::string& tier, uint64_t seed, uint64_t index);
  sim::RunResult (*run)(const Json& scenario);
  Json (*describe)();
};
void register_property(const Property& p);
#define IOSIM_REGISTER(p) static struct Reg_##p { Reg_##p() { iosim::register_property(p); } } reg_##p

// run f() under the simulator with the given fault list (allocation cap, shim faults on the
// simulated disk, step budget).  If the simulated process "exits" (step budget exceeded / exit())
// control comes back here through siglongjmp and `exited` is set.
struct SimRun {
  bool exited = false;
  bool step_budget = false;
  int exit_code = 0;
  std::map<std::string, long> fired;
  uint64_t hash = 0;
  uint64_t yields = 0;
};

template <class F>
SimRun sim_session(const Json& faults, uint64_t max_yields, F f, long stdio_bufsize = 0) {
  using sim::g;
  static sigjmp_buf jb;
  g.reset();
  sim::shim_reset();
  g.scratch = sim::scratch_dir();
  g.record_history = false;
  g.max_yields = max_yields;
  if (g.max_allocs > 1000000) g.max_allocs = 1000000;   // reader sessions are small: a few thousand allocations
  if (g.cpu_budget_s > 6.0) g.cpu_budget_s = 6.0;       // and take microseconds to milliseconds of CPU
  for (auto& fj : faults.arr()) g.faults.push_back(sim::FaultOp::from_json(fj));
  if (stdio_bufsize > 0) g.stdio_bufsize = stdio_bufsize;     // tuning knob: small buffers make a small file leave in many flushes
  g.exit_jmp = &jb;
  g.begin();
  if (sigsetjmp(jb, 1) == 0) {
    f();
  }
  g.end();
  g.exit_jmp = nullptr;
  SimRun r;
  r.exited = g.exited; r.exit_code = g.exit_code; r.step_budget = g.step_budget_exceeded;
  r.fired = g.fired; r.hash = g.hash; r.yields = g.yields;
  return r;
}

}  // namespace iosim
