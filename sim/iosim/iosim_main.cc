// iosim: the hand-off simulator for the four serialisers (NL writer/reader, SOL writer/reader).
#include "io_common.h"

#include "../core/shim.h"

namespace iosim {

static std::vector<Property>& registry() { static std::vector<Property> r; return r; }
void register_property(const Property& p) { registry().push_back(p); }
static const Property* find_property(const std::string& id) {
  for (auto& p : registry()) if (id == p.id) return &p;
  return nullptr;
}

}  // namespace iosim

namespace {

class IoEngine : public sim::Engine {
 public:
  std::string name() const override { return "iosim"; }
  std::vector<std::string> props() const override {
    std::vector<std::string> v;
    return v;
  }
  sim::Json generate(const std::string& prop, const std::string& tier, uint64_t seed, uint64_t index) override {
    const iosim::Property* p = iosim::find_property(prop);
    if (!p) return sim::Json();
    sim::Json sc = p->generate(tier, seed, index);
    if (!sc.is_null()) sc.set("prop", prop);
    return sc;
  }
  sim::RunResult run(const sim::Json& sc) override {
    sim::RunResult r;
    const iosim::Property* p = iosim::find_property(sc["prop"].as_str());
    if (!p) { r.verdict = "BAD_SCENARIO"; r.sig = "iosim:BAD_SCENARIO:unknown-property"; r.detail = "unknown property"; return r; }
    return p->run(sc);
  }
  sim::Json describe(const std::string& prop) override {
    const iosim::Property* p = iosim::find_property(prop);
    return p && p->describe ? p->describe() : sim::Json::object();
  }
};

}  // namespace

int main(int argc, char** argv) {
  IoEngine e;
  return sim::worker_main(argc, argv, e);
}
