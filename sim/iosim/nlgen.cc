#include "nlgen.h"

#include <algorithm>
#include <cfloat>
#include <climits>
#include <cstdlib>

namespace iosim {

// ------------------------------------------------------------------ opcode classes
OpClass op_class(int op) {
  switch (op) {
    case 13: case 14: case 15: case 16: case 37: case 38: case 39: case 40: case 41: case 42: case 43: case 44:
    case 45: case 46: case 47: case 49: case 50: case 51: case 52: case 53: case 77: return OC_UNARY;
    case 0: case 1: case 2: case 3: case 4: case 5: case 6: case 48: case 55: case 56: case 57: case 58:
    case 76: case 78: return OC_BINARY;
    case 11: case 12: return OC_VARARG;
    case 54: return OC_SUM;
    case 59: return OC_COUNT;
    case 60: return OC_NUMBEROF;
    case 61: return OC_NUMBEROF_SYM;
    case 62: case 63: case 66: case 67: case 68: case 69: return OC_LOGCOUNT;
    case 64: return OC_PLTERM;
    case 35: return OC_IF;
    case 65: return OC_IFSYM;
    case 34: return OC_NOT;
    case 20: case 21: case 73: return OC_BINLOG;
    case 22: case 23: case 24: case 28: case 29: case 30: return OC_REL;
    case 72: return OC_IMPL;
    case 70: case 71: return OC_ITERLOG;
    case 74: case 75: return OC_PAIRWISE;
  }
  return OC_BAD;
}

namespace {

const int kUnary[] = {13, 14, 15, 16, 37, 38, 39, 40, 41, 42, 43, 44, 45, 46, 47, 49, 50, 51, 52, 53, 77};
const int kBinary[] = {0, 1, 2, 3, 4, 5, 6, 48, 55, 56, 57, 58, 76, 78};
const int kRel[] = {22, 23, 24, 28, 29, 30};
const int kBinLog[] = {20, 21, 73};
const int kLogCount[] = {62, 63, 66, 67, 68, 69};

struct Gen {
  Rng& rng;
  const GenOpts& o;
  Model& m;
  int nrefs = 0;          // variables + common expressions available for references
  int tagc = 0;           // unique tag constants
  Gen(Rng& r, const GenOpts& oo, Model& mm) : rng(r), o(oo), m(mm) {}

  double number() {
    if (o.awkward_numbers && rng.chance(0.45)) {
      static const double pool[] = {0.0, -0.0, 1.0, -1.0, 0.1, 1.0 / 3, 2.0 / 3, 1e-7, 123456789.123456789, 0.1 + 0.2,
                                    DBL_MAX, -DBL_MAX, DBL_MIN, -DBL_MIN, 4.9406564584124654e-324, 2.2250738585072009e-308,
                                    1e15, 1e16, 9007199254740993.0, 1e22, 1e23, 1.7976931348623157e308, 5e-324, 1e-320,
                                    3.141592653589793, 2.718281828459045, 1e300, 1e-300, INFINITY, -INFINITY, 32767, 32768, -32768, -32769,
                                    2147483647.0, 2147483648.0, -2147483648.0, -2147483649.0, 0.5, 1e21, 123456.7};
      return rng.pick(pool);
    }
    if (o.awkward_numbers && rng.chance(0.18)) {   // binade boundaries: +-2^k and its two neighbours (where the spacing of
                                                   // doubles changes: the special case of every shortest-digits printer)
      double p = std::ldexp(1.0, (int)rng.range(-1074, 1023));
      switch (rng.below(4)) { case 0: p = std::nextafter(p, 0.0); break; case 1: p = std::nextafter(p, INFINITY); break; default: break; }
      return rng.chance(0.5) ? p : -p;
    }
    if (o.awkward_numbers && rng.chance(0.3)) {   // random bit patterns (finite)
      for (;;) {
        uint64_t b = rng.next();
        double d; memcpy(&d, &b, 8);
        if (std::isfinite(d)) return d;
      }
    }
    switch (rng.below(6)) {
      case 0: return (double)rng.range(-9, 9);
      case 1: return (double)rng.range(-1000, 1000) / 8.0;
      case 2: return 1000.0 + (++tagc) + 0.5;
      case 3: return rng.real() * 100 - 50;
      case 4: return std::ldexp(1.0 + rng.real(), (int)rng.range(-40, 40));
      default: return (double)rng.range(-40000, 40000);
    }
  }
  Ex num() {
    Ex e; e.tag = 'n';
    e.num = number();
    if (!o.feeder_safe && rng.chance(0.25)) {
      if (rng.chance(0.5)) { e.numform = 's'; e.num = (double)rng.range(-32768, 32767); }
      else { e.numform = 'l'; e.num = (double)rng.range(-2147483647L - 1, 2147483647L); }
    }
    return e;
  }
  Ex ref() {
    Ex e;
    if (nrefs <= 0) return num();
    e.tag = 'v'; e.idx = (int)rng.below(nrefs);
    return e;
  }
  Ex varref() {   // plain variable or common expression (PL term argument)
    Ex e; e.tag = 'v'; e.idx = (int)rng.below(nrefs > 0 ? nrefs : 1);
    return e;
  }
  int arity(int lo) { return lo + (int)rng.below(4); }

  Ex numeric(int d) {
    if (d <= 0 || rng.chance(0.28)) return rng.chance(0.55) ? ref() : num();
    Ex e; e.tag = 'o';
    int pick = (int)rng.below(100);
    if (pick < 22) { e.op = rng.pick(kUnary); e.a.push_back(numeric(d - 1)); }
    else if (pick < 50) { e.op = rng.pick(kBinary); e.a.push_back(numeric(d - 1)); e.a.push_back(numeric(d - 1)); }
    else if (pick < 58) { e.op = rng.chance(0.5) ? 11 : 12; int n = arity(1); for (int i = 0; i < n; ++i) e.a.push_back(numeric(d - 1)); }
    else if (pick < 66) { e.op = 54; int n = arity(3); for (int i = 0; i < n; ++i) e.a.push_back(numeric(d - 1)); }
    else if (pick < 71) { e.op = 59; int n = arity(1); for (int i = 0; i < n; ++i) e.a.push_back(logical(d - 1)); }
    else if (pick < 76) { e.op = 60; int n = arity(1); for (int i = 0; i < n; ++i) e.a.push_back(numeric(d - 1)); }
    else if (pick < 79) { e.op = 61; int n = arity(1); for (int i = 0; i < n; ++i) e.a.push_back(symbolic(d - 1)); }
    else if (pick < 86) { e.op = 35; e.a.push_back(logical(d - 1)); e.a.push_back(numeric(d - 1)); e.a.push_back(numeric(d - 1)); }
    else if (pick < 92 && nrefs > 0) {
      e.op = 64;
      int nb = 1 + (int)rng.below(4);
      if (rng.chance(0.15)) nb = 8 + (int)rng.below(24);     // long PL terms: many slopes follow the count in the file
      double bp = (double)rng.range(-20, 0);
      for (int i = 0; i < nb; ++i) {
        e.pl.push_back(number());
        bp += 1 + (double)rng.below(9) / 2;
        e.pl.push_back(o.awkward_numbers && rng.chance(0.2) ? number() : bp);
      }
      e.pl.push_back(number());
      e.a.push_back(varref());
    }
    else if (!m.funcs.empty()) {
      e.tag = 'f'; e.op = (int)rng.below(m.funcs.size());
      int n = m.funcs[e.op].nargs >= 0 ? m.funcs[e.op].nargs : (int)rng.below(4);
      if (rng.chance(0.15)) n = (int)rng.below(4);
      bool symbolic_ok = m.funcs[e.op].type == 1;
      for (int i = 0; i < n; ++i) e.a.push_back(symbolic_ok ? symbolic(d - 1) : numeric(d - 1));
    }
    else { e.op = rng.pick(kBinary); e.a.push_back(numeric(d - 1)); e.a.push_back(numeric(d - 1)); }
    return e;
  }
  Ex symbolic(int d) {
    if (rng.chance(0.4)) {
      Ex e; e.tag = 'h';
      static const char* strs[] = {"", "a", "abc", "hello world", "with\nnewline", "x:y", "0123456789", "tab\there", "q'\"q"};
      e.str = rng.pick(strs);
      if (rng.chance(0.1)) e.str = std::string((size_t)rng.below(70), 'z');
      return e;
    }
    if (d > 0 && rng.chance(0.2)) {
      Ex e; e.tag = 'o'; e.op = 65;
      e.a.push_back(logical(d - 1)); e.a.push_back(symbolic(d - 1)); e.a.push_back(symbolic(d - 1));
      return e;
    }
    return numeric(d);
  }
  Ex logical(int d) {
    Ex e; e.tag = 'o';
    if (d <= 0 || rng.chance(0.15)) {
      if (rng.chance(0.3)) { Ex c; c.tag = 'n'; c.num = (double)rng.below(2); return c; }
      e.op = rng.pick(kRel); e.a.push_back(ref()); e.a.push_back(num());
      return e;
    }
    int pick = (int)rng.below(100);
    if (pick < 30) { e.op = rng.pick(kRel); e.a.push_back(numeric(d - 1)); e.a.push_back(numeric(d - 1)); }
    else if (pick < 40) { e.op = 34; e.a.push_back(logical(d - 1)); }
    else if (pick < 58) { e.op = rng.pick(kBinLog); e.a.push_back(logical(d - 1)); e.a.push_back(logical(d - 1)); }
    else if (pick < 68) {
      e.op = rng.pick(kLogCount);
      e.a.push_back(numeric(d - 1));
      Ex c; c.tag = 'o'; c.op = 59; int n = arity(1); for (int i = 0; i < n; ++i) c.a.push_back(logical(d - 1));
      e.a.push_back(c);
    }
    else if (pick < 76) { e.op = 72; e.a.push_back(logical(d - 1)); e.a.push_back(logical(d - 1)); e.a.push_back(logical(d - 1)); }
    else if (pick < 90) { e.op = rng.chance(0.5) ? 70 : 71; int n = arity(3); for (int i = 0; i < n; ++i) e.a.push_back(logical(d - 1)); }
    else { e.op = rng.chance(0.7) ? 74 : 75; int n = arity(1); for (int i = 0; i < n; ++i) e.a.push_back(numeric(d - 1)); }
    return e;
  }
  std::vector<Lin> linear(int maxterms) {
    std::vector<Lin> v;
    if (m.nvars == 0 || maxterms <= 0) return v;
    std::vector<int> vars;
    for (int i = 0; i < m.nvars; ++i) vars.push_back(i);
    rng.shuffle(vars);
    int n = (int)rng.below((uint64_t)std::min(maxterms, m.nvars) + 1);
    vars.resize(n);
    if (rng.chance(0.8)) std::sort(vars.begin(), vars.end());
    for (int x : vars) { double c = number(); v.push_back({x, c}); }
    return v;
  }
  Bound bound(bool con) {
    Bound b;
    b.kind = (int)rng.below(5);
    double lo = number(), hi = number();
    // +-DBL_MAX is NLW2's infinity threshold: keep it rare so that it does not mask everything else
    if (std::fabs(lo) == DBL_MAX && !rng.chance(0.1)) lo = number();
    if (std::fabs(hi) == DBL_MAX && !rng.chance(0.1)) hi = number();
    if (!o.awkward_numbers && lo > hi) std::swap(lo, hi);
    switch (b.kind) {
      case 0: b.lb = lo; b.ub = hi; break;
      case 1: b.ub = hi; b.lb = -INFINITY; break;
      case 2: b.lb = lo; b.ub = INFINITY; break;
      case 3: b.lb = -INFINITY; b.ub = INFINITY; break;
      case 4: b.lb = b.ub = lo; break;
    }
    if (con && m.nvars > 0 && rng.chance(0.12)) {
      b.kind = 5; b.cflags = o.feeder_safe ? 1 + (int)rng.below(3) : (int)rng.below(4); b.cvar = 1 + (int)rng.below(m.nvars);
      if (!o.feeder_safe && rng.chance(0.1)) b.cflags = (int)rng.range(-5, 40);
    }
    return b;
  }
};

std::string suffix_name(Rng& rng, int i) {
  static const char* names[] = {"sstatus", "priority", "direction", "sosno", "ref", "lazy", "iis", "dual2", "rc", "slack", "mark", "w"};
  std::string s = rng.pick(names);
  s += std::to_string(i);
  return s;
}

}  // namespace

std::vector<int> Model::colsizes() const {
  std::vector<int> cs((size_t)nvars, 0);
  for (auto& c : cons) for (auto& t : c.lin) if (t.var >= 0 && t.var < nvars) cs[t.var]++;
  return cs;
}

// ------------------------------------------------------------------ JSON form of the IR
namespace {
double jdbl(const Json& v) {
  if (v.is_num()) return v.as_double();
  const std::string& s = v.as_str();
  if (s == "Infinity") return INFINITY;
  if (s == "-Infinity") return -INFINITY;
  if (s == "NaN") return NAN;
  return strtod(s.c_str(), nullptr);
}
Json ex_json(const Ex& e) {
  Json j = Json::object();
  j.set("t", std::string(1, e.tag));
  switch (e.tag) {
    case 'n': j.set("v", sim::dbl_hex(e.num)); if (e.numform != 'n') j.set("f", std::string(1, e.numform)); break;
    case 'v': j.set("i", e.idx); break;
    case 'h': j.set("s", e.str); break;
    default: j.set("op", e.op); break;
  }
  if (!e.pl.empty()) { Json p = Json::array(); for (double d : e.pl) p.push(sim::dbl_hex(d)); j.set("pl", p); }
  if (!e.a.empty()) { Json a = Json::array(); for (auto& k : e.a) a.push(ex_json(k)); j.set("a", a); }
  return j;
}
Ex ex_from(const Json& j, int depth = 0) {
  Ex e;
  const std::string& t = j["t"].as_str();
  e.tag = t.empty() ? 'n' : t[0];
  if (e.tag != 'n' && e.tag != 'v' && e.tag != 'h' && e.tag != 'f' && e.tag != 'o') e.tag = 'n';
  e.num = j.has("v") ? jdbl(j["v"]) : 0;
  if (j.has("f") && !j["f"].as_str().empty()) e.numform = j["f"].as_str()[0];
  e.idx = (int)j["i"].as_int(); e.str = j["s"].as_str(); e.op = (int)j["op"].as_int();
  for (auto& d : j["pl"].arr()) e.pl.push_back(jdbl(d));
  if (depth < 64) for (auto& k : j["a"].arr()) e.a.push_back(ex_from(k, depth + 1));
  return e;
}
Json lin_json(const std::vector<Lin>& l) {
  Json a = Json::array();
  for (auto& t : l) { Json p = Json::array(); p.push(t.var); p.push(sim::dbl_hex(t.coef)); a.push(p); }
  return a;
}
std::vector<Lin> lin_from(const Json& j, int nvars) {
  std::vector<Lin> l;
  for (auto& p : j.arr()) { int v = (int)p[(size_t)0].as_int(); if (v >= 0 && v < nvars) l.push_back({v, jdbl(p[(size_t)1])}); }
  return l;
}
Json bound_json(const Bound& b) {
  Json j = Json::object();
  j.set("k", b.kind); j.set("lb", sim::dbl_hex(b.lb)); j.set("ub", sim::dbl_hex(b.ub));
  if (b.kind == 5) { j.set("cf", b.cflags); j.set("cv", b.cvar); }
  return j;
}
Bound bound_from(const Json& j) {
  Bound b;
  b.kind = (int)j["k"].as_int(3); b.lb = jdbl(j["lb"]); b.ub = jdbl(j["ub"]); b.cflags = (int)j["cf"].as_int(); b.cvar = (int)j["cv"].as_int();
  return b;
}
Json pairs_json(const std::vector<std::pair<int, double>>& v) {
  Json a = Json::array();
  for (auto& p : v) { Json q = Json::array(); q.push(p.first); q.push(sim::dbl_hex(p.second)); a.push(q); }
  return a;
}
std::vector<std::pair<int, double>> pairs_from(const Json& j, int limit) {
  std::vector<std::pair<int, double>> v;
  for (auto& p : j.arr()) { int i = (int)p[(size_t)0].as_int(); if (i >= 0 && i < limit) v.push_back({i, jdbl(p[(size_t)1])}); }
  return v;
}
}  // namespace

Json Model::to_json() const {
  Json j = Json::object();
  Json o = Json::array(); for (int i = 0; i < nopts; ++i) o.push(options[i]); j.set("options", o);
  if (has_vbtol) j.set("vbtol", sim::dbl_hex(vbtol));
  j.set("nvars", nvars);
  Json vc = Json::array();
  for (int x : {nlvb, nlvc, nlvo, nlvbi, nlvci, nlvoi, nbv, niv}) vc.push(x);
  j.set("varclasses", vc);
  j.set("hflags", hflags);
  Json jc = Json::array();
  for (auto& c : cons) { Json e = Json::object(); e.set("e", ex_json(c.e)); e.set("lin", lin_json(c.lin)); e.set("b", bound_json(c.b)); jc.push(e); }
  j.set("cons", jc);
  Json jl = Json::array(); for (auto& e : lcons) jl.push(ex_json(e)); j.set("lcons", jl);
  Json jo = Json::array();
  for (auto& ob : objs) { Json e = Json::object(); e.set("type", ob.type); e.set("e", ex_json(ob.e)); e.set("lin", lin_json(ob.lin)); jo.push(e); }
  j.set("objs", jo);
  Json jce = Json::array();
  for (auto& ce : cexprs) { Json e = Json::object(); e.set("e", ex_json(ce.e)); e.set("lin", lin_json(ce.lin)); e.set("pos", ce.position); jce.push(e); }
  j.set("cexprs", jce);
  Json sp = Json::array(); for (int k = 0; k < 5; ++k) sp.push(cexpr_split[k]); j.set("cexpr_split", sp);
  Json jf = Json::array();
  for (auto& f : funcs) { Json e = Json::object(); e.set("name", f.name); e.set("type", f.type); e.set("nargs", f.nargs); jf.push(e); }
  j.set("funcs", jf);
  Json js = Json::array();
  for (auto& sf : sufs) { Json e = Json::object(); e.set("name", sf.name); e.set("kind", sf.kind); e.set("real", sf.real); e.set("vals", pairs_json(sf.vals)); js.push(e); }
  j.set("sufs", js);
  Json jb = Json::array(); for (auto& b : vbounds) jb.push(bound_json(b)); j.set("vbounds", jb);
  j.set("x0", pairs_json(x0)); j.set("d0", pairs_json(d0));
  j.set("colmode", colmode); j.set("order", order);
  return j;
}

Model Model::from_json(const Json& j) {
  Model m;
  m.nopts = 0;
  for (auto& v : j["options"].arr()) if (m.nopts < 9) m.options[m.nopts++] = v.as_int();
  for (int i = m.nopts; i < 9; ++i) m.options[i] = 0;
  m.has_vbtol = j.has("vbtol") && m.nopts >= 2 && m.options[1] == 3;
  if (m.has_vbtol) m.vbtol = jdbl(j["vbtol"]);
  else if (m.nopts >= 2 && m.options[1] == 3) m.options[1] = 1;
  m.nvars = (int)j["nvars"].as_int();
  const Json& vc = j["varclasses"];
  int* dst[8] = {&m.nlvb, &m.nlvc, &m.nlvo, &m.nlvbi, &m.nlvci, &m.nlvoi, &m.nbv, &m.niv};
  for (size_t i = 0; i < 8; ++i) *dst[i] = (int)vc[i].as_int();
  m.hflags = (int)j["hflags"].as_int();
  for (auto& e : j["funcs"].arr()) { NLFunc f; f.name = e["name"].as_str(); f.type = (int)e["type"].as_int(); f.nargs = (int)e["nargs"].as_int(); m.funcs.push_back(f); }
  for (auto& e : j["cons"].arr()) { NLCon c; c.e = ex_from(e["e"]); c.lin = lin_from(e["lin"], m.nvars); c.b = bound_from(e["b"]); m.cons.push_back(c); }
  for (auto& e : j["lcons"].arr()) m.lcons.push_back(ex_from(e));
  for (auto& e : j["objs"].arr()) { NLObj ob; ob.type = (int)e["type"].as_int(); ob.e = ex_from(e["e"]); ob.lin = lin_from(e["lin"], m.nvars); m.objs.push_back(ob); }
  int nitems = (int)(m.cons.size() + m.lcons.size() + m.objs.size());
  for (auto& e : j["cexprs"].arr()) {
    CommonExpr ce; ce.e = ex_from(e["e"]); ce.lin = lin_from(e["lin"], m.nvars); ce.position = (int)e["pos"].as_int();
    if (ce.position < 0 || ce.position > nitems) ce.position = 0;
    m.cexprs.push_back(ce);
  }
  {   // the header's split of common expressions must add up to their number
    int left = (int)m.cexprs.size();
    for (int k = 0; k < 5; ++k) { int t = (int)j["cexpr_split"][(size_t)k].as_int(); if (t < 0) t = 0; if (t > left || k == 4) t = left; m.cexpr_split[k] = t; left -= t; }
  }
  for (auto& e : j["sufs"].arr()) {
    NLSuffix sf; sf.name = e["name"].as_str(); sf.kind = (int)e["kind"].as_int() & 3; sf.real = e["real"].as_bool();
    int items = sf.kind == 0 ? m.nvars : sf.kind == 1 ? (int)(m.cons.size() + m.lcons.size()) : sf.kind == 2 ? (int)m.objs.size() : 1;
    sf.vals = pairs_from(e["vals"], items);
    if (!sf.vals.empty() && !sf.name.empty()) m.sufs.push_back(sf);
  }
  for (auto& b : j["vbounds"].arr()) m.vbounds.push_back(bound_from(b));
  m.vbounds.resize((size_t)std::max(0, m.nvars));
  m.x0 = pairs_from(j["x0"], m.nvars);
  m.d0 = pairs_from(j["d0"], (int)m.cons.size());
  m.colmode = (int)j["colmode"].as_int(1);
  if (j.has("order")) m.order = j["order"].as_str();
  return m;
}

Model gen_model(Rng& rng, const GenOpts& o) {
  Model m;
  Gen g(rng, o, m);
  // ---- sizes
  m.nvars = (int)rng.below((uint64_t)o.max_vars + 1);
  if (m.nvars == 0 && (o.feeder_safe || rng.chance(0.8))) m.nvars = 1 + (int)rng.below(o.max_vars);
  int ncons = (int)rng.below((uint64_t)o.max_cons + 1);
  int nlcons = rng.chance(0.5) ? (int)rng.below((uint64_t)o.max_lcons + 1) : 0;
  int nobjs = (int)rng.below((uint64_t)o.max_objs + 1);
  // variable classes
  {
    int n = m.nvars;
    int a = (int)rng.below(n + 1);
    int c = (int)rng.below(n - a + 1);
    int ob = rng.chance(0.5) ? (int)rng.below(n - a - c + 1) : 0;
    m.nlvb = a; m.nlvc = a + c; m.nlvo = ob > 0 ? a + c + ob : a;
    m.nlvbi = (int)rng.below(a + 1) * (int)rng.chance(0.4);
    m.nlvci = (int)rng.below(c + 1) * (int)rng.chance(0.4);
    m.nlvoi = (int)rng.below(ob + 1) * (int)rng.chance(0.4);
    int r = n - (a + c + ob);
    m.nbv = (int)rng.below(r + 1) * (int)rng.chance(0.5);
    m.niv = (int)rng.below(r - m.nbv + 1) * (int)rng.chance(0.5);
  }
  // options
  m.nopts = rng.chance(0.8) ? 3 : (int)rng.below(10);
  for (int i = 0; i < 9; ++i) m.options[i] = (long)rng.below(4);
  m.options[1] = rng.chance(0.15) ? 3 : (long)rng.below(3);
  if (m.nopts >= 2 && m.options[1] == 3) { m.has_vbtol = true; m.vbtol = rng.chance(0.8) ? (rng.chance(0.5) ? 1e-6 : 0.001) : g.number(); }
  else if (m.options[1] == 3) m.options[1] = 1;
  m.hflags = (int)rng.below(2);
  // functions
  if (rng.chance(0.35)) {
    int nf = 1 + (int)rng.below(3);
    static const char* fn[] = {"f", "gsl_sf_bessel_J0", "myfunc", "element", "in_relation", "a_b.c"};
    for (int i = 0; i < nf; ++i) {
      NLFunc f; f.name = std::string(rng.pick(fn)) + std::to_string(i);
      f.type = (int)rng.below(2);
      f.nargs = rng.chance(0.3) ? -(1 + (int)rng.below(3)) : (int)rng.below(4);
      m.funcs.push_back(f);
    }
  }
  // common expressions
  int nce = (m.nvars > 0 && rng.chance(0.4)) ? 1 + (int)rng.below(3) : 0;
  {
    int left = nce;
    for (int k = 0; k < 5; ++k) { int t = (k == 4) ? left : (int)rng.below(left + 1); m.cexpr_split[k] = t; left -= t; }
  }
  g.nrefs = m.nvars;
  for (int i = 0; i < nce; ++i) {
    CommonExpr ce;
    ce.lin = g.linear(3);
    ce.e = g.numeric(o.max_depth - 1);
    ce.position = (int)rng.below((o.feeder_safe ? ncons + nlcons + nobjs : ncons + nobjs) + 1);
    m.cexprs.push_back(ce);
    g.nrefs = m.nvars + i + 1;     // later expressions may refer to earlier ones
  }
  // constraints, objectives
  for (int i = 0; i < ncons; ++i) {
    NLCon c;
    if (rng.chance(0.55)) c.e = g.numeric(o.max_depth);
    else { c.e.tag = 'n'; c.e.num = 0; }
    c.lin = g.linear(m.nvars);
    c.b = g.bound(true);
    m.cons.push_back(c);
  }
  for (int i = 0; i < nlcons; ++i) m.lcons.push_back(g.logical(o.max_depth));
  for (int i = 0; i < nobjs; ++i) {
    NLObj ob;
    ob.type = (int)rng.below(2);
    if (rng.chance(0.5)) ob.e = g.numeric(o.max_depth);
    else { ob.e.tag = 'n'; ob.e.num = rng.chance(0.5) ? 0 : g.number(); }
    ob.lin = g.linear(m.nvars);
    m.objs.push_back(ob);
  }
  for (int i = 0; i < m.nvars; ++i) m.vbounds.push_back(g.bound(false));
  // initial values
  if (m.nvars > 0 && rng.chance(0.4)) {
    std::vector<int> idx; for (int i = 0; i < m.nvars; ++i) if (rng.chance(0.6)) idx.push_back(i);
    for (int i : idx) m.x0.push_back({i, g.number()});
  }
  if (ncons > 0 && rng.chance(0.3)) {
    for (int i = 0; i < ncons; ++i) if (rng.chance(0.6)) m.d0.push_back({i, g.number()});
  }
  // suffixes
  if (rng.chance(0.45)) {
    int ns = 1 + (int)rng.below(4);
    for (int i = 0; i < ns; ++i) {
      NLSuffix s; s.kind = (int)rng.below(4); s.real = rng.chance(0.4);
      int items = s.kind == 0 ? m.nvars : s.kind == 1 ? ncons + nlcons : s.kind == 2 ? nobjs : 1;
      if (items == 0) continue;
      s.name = suffix_name(rng, i);
      for (int k = 0; k < items; ++k)
        if (rng.chance(0.6) || (s.vals.empty() && k == items - 1))
          s.vals.push_back({k, s.real ? g.number() : rng.chance(0.04) ? (rng.chance(0.5) ? 2147483647.0 : -2147483648.0) : rng.chance(0.05) ? (double)rng.range(-2147483647, 2147483647) : (double)rng.range(-5, 50)});
      m.sufs.push_back(s);
    }
  }
  m.colmode = m.nvars > 0 ? (rng.chance(0.75) ? 1 : rng.chance(0.6) ? 2 : 0) : (rng.chance(0.5) ? 0 : 1);
  if (o.feeder_safe) m.colmode = 1;
  // segment order: F first (functions must be declared before use), the rest mildly shuffled
  if (!o.feeder_safe && rng.chance(0.3)) {
    std::string rest = "SVCLOdxrbkJG";
    std::vector<char> v(rest.begin(), rest.end());
    // keep V before C/L/O (defined variables precede their uses) by shuffling only the tail group
    std::vector<char> tail(v.begin() + 5, v.end());
    rng.shuffle(tail);
    std::copy(tail.begin(), tail.end(), v.begin() + 5);
    if (rng.chance(0.3)) std::swap(v[0], v[1]);
    m.order = "F" + std::string(v.begin(), v.end());
  }
  return m;
}

// ------------------------------------------------------------------ emitter
namespace {

struct Sink {
  std::string out;
  bool bin = false, swap = false;
  int num_style = 0;
  std::vector<Field> fields;
  std::vector<std::pair<size_t, size_t>> numbers;
  bool bol = true, glued = false;
  int line = 0, pad_line = -1;
  size_t pad_len = 0;

  void put_raw(const void* p, size_t n) {
    const char* c = (const char*)p;
    if (swap) for (size_t i = n; i > 0; --i) out += c[i - 1];
    else out.append(c, n);
  }
  void sep() { if (!bin && !bol && !glued) out += ' '; bol = false; glued = false; }
  void seg(char c) { out += c; bol = false; glued = true; }
  void kindch(char c) { out += c; bol = false; glued = false; }
  void u(long v, const char* cls, long bound = -1) {
    if (bin) {
      int32_t x = (int32_t)v;
      fields.push_back({out.size(), 4, cls, v, bound});
      put_raw(&x, 4);
    } else {
      sep();
      std::string t = std::to_string(v);
      fields.push_back({out.size(), t.size(), cls, v, bound});
      out += t;
    }
  }
  void ival(long v) {   // non-structural integer (suffix value, 'l' constant)
    if (bin) { int32_t x = (int32_t)v; put_raw(&x, 4); }
    else { sep(); out += std::to_string(v); }
  }
  void sval(long v) {
    if (bin) { int16_t x = (int16_t)v; put_raw(&x, 2); }
    else { sep(); out += std::to_string(v); }
  }
  static std::string fmt_double(double v, int style) {
    char b[48];
    if (std::isinf(v)) return v > 0 ? "Infinity" : "-Infinity";
    if (style == 1) {
      for (int p = 15; p <= 17; ++p) {
        snprintf(b, sizeof b, "%.*g", p, v);
        if (strtod(b, nullptr) == v) return b;
      }
    }
    snprintf(b, sizeof b, "%.17g", v);
    return b;
  }
  void d(double v) {
    if (bin) { numbers.push_back({out.size(), 8}); put_raw(&v, 8); }
    else {
      sep();
      std::string t = fmt_double(v, num_style);
      numbers.push_back({out.size(), t.size()});
      out += t;
    }
  }
  void name(const std::string& s) {
    if (bin) { u((long)s.size(), "name.len"); out += s; }
    else { sep(); out += s; }
  }
  void str(const std::string& s) {
    if (bin) { u((long)s.size(), "h.len"); out += s; }
    else {
      std::string t = std::to_string(s.size());
      fields.push_back({out.size(), t.size(), "h.len", (long)s.size(), -1});
      out += t; out += ':'; out += s; out += '\n';
      bol = true; glued = false; ++line;
    }
  }
  void eol(bool header = false) {
    if (bin && !header) return;
    if (line == pad_line && pad_len >= 2) { out += "\t#"; out.append(pad_len - 2, 'p'); }
    out += '\n';
    bol = true; glued = false;
    ++line;
  }
  // header numbers are text in both encodings
  void hnum(long v, const char* cls) {
    out += ' ';
    std::string t = std::to_string(v);
    fields.push_back({out.size(), t.size(), cls, v, -1});
    out += t;
  }
};

void emit_num(Sink& s, const Ex& e) {
  s.seg(e.numform);
  if (e.numform == 's') s.sval((long)e.num);
  else if (e.numform == 'l') s.ival((long)e.num);
  else s.d(e.num);
  s.eol();
}

void emit_expr(Sink& s, const Ex& e, long nrefs, long nfuncs) {
  switch (e.tag) {
    case 'n': emit_num(s, e); return;
    case 'v': s.seg('v'); s.u(e.idx, "ref.index", nrefs); s.eol(); return;
    case 'h': s.seg('h'); s.str(e.str); return;
    case 'f':
      s.seg('f'); s.u(e.op, "call.func", nfuncs); s.u((long)e.a.size(), "call.nargs"); s.eol();
      for (auto& a : e.a) emit_expr(s, a, nrefs, nfuncs);
      return;
  }
  s.seg('o'); s.u(e.op, "opcode", 83); s.eol();
  switch (op_class(e.op)) {
    case OC_VARARG: case OC_SUM: case OC_COUNT: case OC_NUMBEROF: case OC_NUMBEROF_SYM: case OC_ITERLOG: case OC_PAIRWISE:
      s.u((long)e.a.size(), "iter.nargs"); s.eol();
      break;
    case OC_PLTERM: {
      s.u((long)(e.pl.size() + 1) / 2, "pl.nslopes"); s.eol();
      for (double v : e.pl) { s.seg('n'); s.d(v); s.eol(); }
      break;
    }
    default: break;
  }
  for (auto& a : e.a) emit_expr(s, a, nrefs, nfuncs);
}

void emit_bound(Sink& s, const Bound& b, long nvars) {
  s.fields.push_back({s.out.size(), 1, "bound.kind", b.kind, 6});
  s.kindch((char)('0' + b.kind));
  switch (b.kind) {
    case 0: s.d(b.lb); s.d(b.ub); break;
    case 1: s.d(b.ub); break;
    case 2: s.d(b.lb); break;
    case 3: break;
    case 4: s.d(b.lb); break;
    case 5: s.u(b.cflags, "compl.flags"); s.u(b.cvar, "compl.var", nvars + 1); break;
  }
  s.eol();
}

void emit_lin(Sink& s, const std::vector<Lin>& lin, long nvars) {
  for (auto& t : lin) { s.u(t.var, "lin.var", nvars); s.d(t.coef); s.eol(); }
}

}  // namespace

Emitted emit_nl(const Model& m, const EmitOpts& o) {
  Sink s;
  s.bin = o.bin; s.swap = o.swap; s.num_style = o.num_style;
  s.pad_line = o.pad_line; s.pad_len = o.pad_len;
  long nvars = m.nvars, ncons = (long)m.cons.size(), nlcons = (long)m.lcons.size(), nobjs = (long)m.objs.size();
  long nce = (long)m.cexprs.size(), nfuncs = (long)m.funcs.size();
  long nrefs = nvars + nce;
  // ---- header (always text)
  s.out += o.bin ? 'b' : 'g';
  {
    std::string t = std::to_string(m.nopts);
    s.fields.push_back({s.out.size(), t.size(), "hdr.nopts", m.nopts, 10});
    s.out += t;
    for (int i = 0; i < m.nopts; ++i) { s.out += ' '; std::string ov = std::to_string(m.options[i]); s.fields.push_back({s.out.size(), ov.size(), "hdr.option", m.options[i], -1}); s.out += ov; }
    if (m.has_vbtol) { s.out += ' '; s.out += Sink::fmt_double(m.vbtol, 0); }
  }
  s.eol(true);
  int nranges = 0, neqns = 0, nlc = 0, nlo = 0, ncompl = 0, nlcompl = 0;
  for (auto& c : m.cons) {
    if (c.b.kind == 0) ++nranges;
    if (c.b.kind == 4) ++neqns;
    bool nl = !c.e.is_zero_const();
    if (nl) ++nlc;
    if (c.b.kind == 5) { if (nl) ++nlcompl; else ++ncompl; }
  }
  for (auto& ob : m.objs) if (!(ob.e.tag == 'n')) ++nlo;
  long nzc = 0, nzo = 0;
  for (auto& c : m.cons) nzc += (long)c.lin.size();
  for (auto& ob : m.objs) nzo += (long)ob.lin.size();
  s.hnum(nvars, "hdr.num_vars"); s.hnum(ncons, "hdr.num_algebraic_cons"); s.hnum(nobjs, "hdr.num_objs");
  s.hnum(nranges, "hdr.num_ranges"); s.hnum(neqns, "hdr.num_eqns"); s.hnum(nlcons, "hdr.num_logical_cons"); s.eol(true);
  s.hnum(nlc, "hdr.num_nl_cons"); s.hnum(nlo, "hdr.num_nl_objs"); s.hnum(ncompl, "hdr.num_compl_conds");
  s.hnum(nlcompl, "hdr.num_nl_compl_conds"); s.hnum(0, "hdr.num_compl_dbl_ineqs"); s.hnum(0, "hdr.num_compl_vars_with_nz_lb"); s.eol(true);
  s.hnum(0, "hdr.num_nl_net_cons"); s.hnum(0, "hdr.num_linear_net_cons"); s.eol(true);
  s.hnum(m.nlvc, "hdr.num_nl_vars_in_cons"); s.hnum(m.nlvo, "hdr.num_nl_vars_in_objs"); s.hnum(m.nlvb, "hdr.num_nl_vars_in_both"); s.eol(true);
  s.hnum(0, "hdr.num_linear_net_vars"); s.hnum(nfuncs, "hdr.num_funcs");
  s.hnum(o.bin ? (o.swap ? 2 : 1) : 0, "hdr.arith_kind"); s.hnum(m.hflags, "hdr.flags"); s.eol(true);
  s.hnum(m.nbv, "hdr.num_linear_binary_vars"); s.hnum(m.niv, "hdr.num_linear_integer_vars");
  s.hnum(m.nlvbi, "hdr.num_nl_integer_vars_in_both"); s.hnum(m.nlvci, "hdr.num_nl_integer_vars_in_cons");
  s.hnum(m.nlvoi, "hdr.num_nl_integer_vars_in_objs"); s.eol(true);
  s.hnum(nzc, "hdr.num_con_nonzeros"); s.hnum(nzo, "hdr.num_obj_nonzeros"); s.eol(true);
  s.hnum(0, "hdr.max_con_name_len"); s.hnum(0, "hdr.max_var_name_len"); s.eol(true);
  static const char* cen[5] = {"hdr.num_common_exprs_in_both", "hdr.num_common_exprs_in_cons", "hdr.num_common_exprs_in_objs",
                               "hdr.num_common_exprs_in_single_cons", "hdr.num_common_exprs_in_single_objs"};
  for (int k = 0; k < 5; ++k) s.hnum(m.cexpr_split[k], cen[k]);
  s.eol(true);
  size_t header_end = s.out.size();

  // ---- segments
  for (char seg : m.order) {
    switch (seg) {
      case 'F':
        for (size_t i = 0; i < m.funcs.size(); ++i) {
          auto& f = m.funcs[i];
          s.seg('F'); s.u((long)i, "F.index", nfuncs); s.u(f.type, "F.type", 2); s.u(f.nargs, "F.nargs"); s.name(f.name); s.eol();
        }
        break;
      case 'S':
        for (auto& sf : m.sufs) {
          long items = sf.kind == 0 ? nvars : sf.kind == 1 ? ncons + nlcons : sf.kind == 2 ? nobjs : 1;
          s.seg('S'); s.u(sf.kind | (sf.real ? 4 : 0), "S.kind", 8); s.u((long)sf.vals.size(), "S.nvals", items + 1); s.name(sf.name); s.eol();
          for (auto& v : sf.vals) {
            s.u(v.first, "S.index", items);
            if (sf.real) s.d(v.second); else s.ival((long)v.second);
            s.eol();
          }
        }
        break;
      case 'V':
        for (size_t i = 0; i < m.cexprs.size(); ++i) {
          auto& ce = m.cexprs[i];
          s.seg('V'); s.u(nvars + (long)i, "V.index", nrefs); s.u((long)ce.lin.size(), "V.nlin", nvars + 1); s.u(ce.position, "V.pos"); s.eol();
          emit_lin(s, ce.lin, nvars);
          emit_expr(s, ce.e, nvars + (long)i, nfuncs);
        }
        break;
      case 'C':
        for (size_t i = 0; i < m.cons.size(); ++i) {
          s.seg('C'); s.u((long)i, "C.index", ncons); s.eol();
          emit_expr(s, m.cons[i].e, nrefs, nfuncs);
        }
        break;
      case 'L':
        for (size_t i = 0; i < m.lcons.size(); ++i) {
          s.seg('L'); s.u((long)i, "L.index", nlcons); s.eol();
          emit_expr(s, m.lcons[i], nrefs, nfuncs);
        }
        break;
      case 'O':
        for (size_t i = 0; i < m.objs.size(); ++i) {
          s.seg('O'); s.u((long)i, "O.index", nobjs); s.u(m.objs[i].type, "O.type", 2); s.eol();
          emit_expr(s, m.objs[i].e, nrefs, nfuncs);
        }
        break;
      case 'd':
        if (!m.d0.empty()) {
          s.seg('d'); s.u((long)m.d0.size(), "d.n", ncons + 1); s.eol();
          for (auto& v : m.d0) { s.u(v.first, "d.index", ncons); s.d(v.second); s.eol(); }
        }
        break;
      case 'x':
        if (!m.x0.empty()) {
          s.seg('x'); s.u((long)m.x0.size(), "x.n", nvars + 1); s.eol();
          for (auto& v : m.x0) { s.u(v.first, "x.index", nvars); s.d(v.second); s.eol(); }
        }
        break;
      case 'r':
        if (ncons > 0) {
          s.seg('r'); s.eol();
          for (auto& c : m.cons) emit_bound(s, c.b, nvars);
        }
        break;
      case 'b':
        s.seg('b'); s.eol();
        for (auto& b : m.vbounds) emit_bound(s, b, nvars);
        break;
      case 'k':
        if (m.colmode != 0 && nvars > 0) {
          std::vector<int> cs = m.colsizes();
          s.seg(m.colmode == 1 ? 'k' : 'K'); s.u(nvars - 1, "k.n", nvars); s.eol();
          long cum = 0;
          for (long i = 0; i + 1 < nvars; ++i) {
            cum += cs[i];
            s.u(m.colmode == 1 ? cum : cs[i], "k.size"); s.eol();
          }
        }
        break;
      case 'J':
        for (size_t i = 0; i < m.cons.size(); ++i) {
          auto& lin = m.cons[i].lin;
          if (lin.empty()) continue;
          s.seg('J'); s.u((long)i, "J.index", ncons); s.u((long)lin.size(), "J.nterms", nvars + 1); s.eol();
          emit_lin(s, lin, nvars);
        }
        break;
      case 'G':
        for (size_t i = 0; i < m.objs.size(); ++i) {
          auto& lin = m.objs[i].lin;
          if (lin.empty()) continue;
          s.seg('G'); s.u((long)i, "G.index", nobjs); s.u((long)lin.size(), "G.nterms", nvars + 1); s.eol();
          emit_lin(s, lin, nvars);
        }
        break;
    }
  }
  Emitted e;
  e.bytes = std::move(s.out);
  e.fields = std::move(s.fields);
  e.numbers = std::move(s.numbers);
  e.header_end = header_end;
  e.lines = s.line;
  return e;
}

Emitted emit_nl_sized(const Model& m, EmitOpts o, size_t target, Rng& rng) {
  o.pad_line = -1; o.pad_len = 0;
  Emitted e = emit_nl(m, o);
  if (target < e.bytes.size() + 2) return e;
  o.pad_len = target - e.bytes.size();
  // binary: only header lines carry newlines; text: any line (strings count lines too, but they never pad)
  int nlines = o.bin ? 10 : e.lines;
  o.pad_line = (int)rng.below((uint64_t)std::max(1, nlines));
  if (rng.chance(0.5)) o.pad_line = (int)rng.below(10);
  Emitted p = emit_nl(m, o);
  if (p.bytes.size() != target) {   // pad line index fell on a string line: fall back to a header line
    o.pad_line = 1;
    p = emit_nl(m, o);
  }
  return p;
}

long hostile_value(Rng& rng, const Field& f) {
  std::vector<long> c = {-1, 0, 1, 2147483647L, 2147483648L, 4294967295L, f.val - 1, f.val + 1, 2147483646L, 65536, 1073741824L};
  // counts whose multiples by an element size (8, 16, ...) wrap around 2^32 or 2^31 to something small
  if (rng.chance(0.25)) { long k = 1 + (long)rng.below(7); long sh = 24 + (long)rng.below(8); c = {(k << 28) + 1, (k << 28) + 2, (1L << sh) + 1, (1L << sh) - 1, (k << 29) + 1, (3L << 28) + 1}; }
  if (f.bound >= 0) { c.push_back(f.bound); c.push_back(f.bound + 1); c.push_back(f.bound - 1); }
  // boundary values get the larger share
  long v = rng.pick(c);
  if (v == f.val) v = f.val + 1;
  return v;
}

Json hostile_patch(const Emitted& e, const Field& f, long v, bool bin, bool swap) {
  (void)e;
  Json op = Json::object();
  op.set("kind", "patch");
  op.set("at", (long)f.off);
  op.set("del", (long)f.len);
  std::string ins;
  bool header_text = strncmp(f.cls, "hdr.", 4) == 0;
  if (!strcmp(f.cls, "bound.kind")) {
    ins = std::string(1, (char)('0' + (v < 0 ? 9 : v % 75)));
  } else if (bin && !header_text) {
    uint32_t x = (uint32_t)v;
    char b[4]; memcpy(b, &x, 4);
    if (swap) std::reverse(b, b + 4);
    ins.assign(b, 4);
  } else {
    ins = std::to_string(v);
  }
  op.set("ins", ins);
  op.set("label", std::string(f.cls));
  op.set("value", v);
  return op;
}

}  // namespace iosim
