// Seeded structure-aware generator of small NL models, a neutral IR, and an own emitter for
// the text and binary NL encodings (native and byte-swapped).  The emitter records where every
// structural numeric field (count, index, opcode, arity, length, kind) landed in the output so
// that the hostile-writer party can rewrite exactly one of them.
#pragma once
#include <string>
#include <utility>
#include <vector>

#include "io_common.h"

namespace iosim {

struct Ex {
  char tag = 'n';       // 'n' number   'v' reference   'o' operator   'f' call   'h' string
  char numform = 'n';   // numbers: 'n' double, 's' short, 'l' long
  int op = 0;           // opcode ('o') or function index ('f')
  int idx = 0;          // reference index: variables first, then common expressions
  double num = 0;
  std::string str;
  std::vector<Ex> a;        // operands
  std::vector<double> pl;   // PLTERM: s0 b0 s1 b1 ... sn (odd length >= 3)
  bool is_zero_const() const { return tag == 'n' && num == 0; }
};

struct Lin { int var; double coef; };
struct Bound { int kind = 3; double lb = 0, ub = 0; int cflags = 0, cvar = 0; };   // kind 0..5 as in the NL format
struct NLSuffix { std::string name; int kind = 0; bool real = false; std::vector<std::pair<int, double>> vals; };
struct NLFunc { std::string name; int type = 0; int nargs = 0; };
struct CommonExpr { std::vector<Lin> lin; Ex e; int position = 0; };
struct NLObj { int type = 0; Ex e; std::vector<Lin> lin; };
struct NLCon { Ex e; std::vector<Lin> lin; Bound b; };

struct Model {
  int nopts = 3; long options[9] = {1, 1, 0, 0, 0, 0, 0, 0, 0};
  bool has_vbtol = false; double vbtol = 0;
  int nvars = 0;
  int nlvb = 0, nlvc = 0, nlvo = 0, nlvbi = 0, nlvci = 0, nlvoi = 0, nbv = 0, niv = 0;
  int hflags = 0;
  std::vector<NLCon> cons;
  std::vector<Ex> lcons;
  std::vector<NLObj> objs;
  std::vector<CommonExpr> cexprs;
  int cexpr_split[5] = {0, 0, 0, 0, 0};
  std::vector<NLFunc> funcs;
  std::vector<NLSuffix> sufs;
  std::vector<Bound> vbounds;
  std::vector<std::pair<int, double>> x0, d0;
  int colmode = 1;             // 0 none, 1 'k' cumulative, 2 'K' plain
  std::string order = "FSVCLOdxrbkJG";
  std::vector<int> colsizes() const;   // number of Jacobian nonzeros per variable
  Json to_json() const;
  // tolerant of shrinking: entries that refer to items no longer present are dropped
  static Model from_json(const Json& j);
};

struct GenOpts {
  int max_vars = 8, max_cons = 6, max_lcons = 3, max_objs = 3, max_depth = 4;
  bool awkward_numbers = false;   // C03: subnormals, extremes, 17-digit values
  bool feeder_safe = false;       // C03: only what the NLW2 feeder interface can express
};
Model gen_model(Rng& rng, const GenOpts& o);

struct EmitOpts {
  bool bin = false, swap = false;
  int pad_line = -1;      // index of the line end that receives a "\t#ppp" comment
  size_t pad_len = 0;
  int num_style = 0;      // text: 0 = %.17g, 1 = shortest of %.15g/%.16g/%.17g that round-trips
};

struct Emitted {
  std::string bytes;
  std::vector<Field> fields;                          // structural fields
  std::vector<std::pair<size_t, size_t>> numbers;     // (offset, length) of plain numbers
  size_t header_end = 0;
  int lines = 0;
};
Emitted emit_nl(const Model& m, const EmitOpts& o);
// emit with a comment pad so that the file has exactly `target` bytes when possible
Emitted emit_nl_sized(const Model& m, EmitOpts o, size_t target, Rng& rng);

// hostile writer: a patch op (see apply_damage) that rewrites field f to value v
Json hostile_patch(const Emitted& e, const Field& f, long v, bool bin, bool swap);
long hostile_value(Rng& rng, const Field& f);

// opcode classes (shared with the recording side for serialisation)
enum OpClass { OC_BAD, OC_UNARY, OC_BINARY, OC_VARARG, OC_SUM, OC_COUNT, OC_NUMBEROF, OC_NUMBEROF_SYM, OC_LOGCOUNT,
               OC_PLTERM, OC_IF, OC_IFSYM, OC_NOT, OC_BINLOG, OC_REL, OC_IMPL, OC_ITERLOG, OC_PAIRWISE };
OpClass op_class(int opcode);

}  // namespace iosim
