// Independent operator table of the NL format (name <-> opcode number), transcribed from the
// format description.  The writer side (NLW2 nl-opcodes.h) and the reader side (mp expr::Kind via
// expr-info.cc) keep separate copies of this table; the C03 oracle checks both against this one:
// the feeder adaptor asks NLW2 for the code of the *named* operator, and the recording handler
// maps the *named* expr::Kind it is given back to the number written here.
#pragma once
#include "mp/common.h"
#include "mp/nl-opcodes.h"

#define IOSIM_NL_OPS(X) \
  X(ADD, 0) X(SUB, 1) X(MUL, 2) X(DIV, 3) X(MOD, 4) X(POW, 5) X(LESS, 6) X(MIN, 11) X(MAX, 12) X(FLOOR, 13) X(CEIL, 14) \
  X(ABS, 15) X(MINUS, 16) X(OR, 20) X(AND, 21) X(LT, 22) X(LE, 23) X(EQ, 24) X(GE, 28) X(GT, 29) X(NE, 30) X(NOT, 34) X(IF, 35) \
  X(TANH, 37) X(TAN, 38) X(SQRT, 39) X(SINH, 40) X(SIN, 41) X(LOG10, 42) X(LOG, 43) X(EXP, 44) X(COSH, 45) X(COS, 46) \
  X(ATANH, 47) X(ATAN2, 48) X(ATAN, 49) X(ASINH, 50) X(ASIN, 51) X(ACOSH, 52) X(ACOS, 53) X(SUM, 54) X(TRUNC_DIV, 55) \
  X(PRECISION, 56) X(ROUND, 57) X(TRUNC, 58) X(COUNT, 59) X(NUMBEROF, 60) X(NUMBEROF_SYM, 61) X(ATLEAST, 62) X(ATMOST, 63) \
  X(PLTERM, 64) X(IFSYM, 65) X(EXACTLY, 66) X(NOT_ATLEAST, 67) X(NOT_ATMOST, 68) X(NOT_EXACTLY, 69) X(FORALL, 70) \
  X(EXISTS, 71) X(IMPLICATION, 72) X(IFF, 73) X(ALLDIFF, 74) X(NOT_ALLDIFF, 75) X(POW_CONST_EXP, 76) X(POW2, 77) X(POW_CONST_BASE, 78)

namespace iosim {

// number (this table) -> code NLW2 uses for the operator of that name
inline int writer_opcode(int op) {
  switch (op) {
#define X(NAME, NUM) case NUM: return mp::nl::NAME.code;
    IOSIM_NL_OPS(X)
#undef X
  }
  return op;
}

// expr::Kind the reader reports -> number (this table); -1 if the kind has no operator
inline int reader_opnum(mp::expr::Kind k) {
  switch (k) {
#define X(NAME, NUM) case mp::expr::NAME: return NUM;
    IOSIM_NL_OPS(X)
#undef X
    default: break;
  }
  return -1;
}

}  // namespace iosim
