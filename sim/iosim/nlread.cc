// Reader party: instantiates the real NL reader for the three receiving handlers and the three
// entry paths.  NLFileReader<File>'s member templates live in /repo/src/nl-reader.cc (the repo's
// own test includes that file to instantiate NLFileReader<MockFile>); we do the same.  The
// non-template definitions of that file are also compiled into build/io/mp/nl-reader.cc.o, so the
// copies in this translation unit are marked weak (assembler directive: .weak overrides .globl)
// and the linker keeps the library's.  If /repo adds another non-template definition to that file
// the link fails with 'multiple definition' and the symbol has to be added here.
#include "nl-reader.cc"   // /repo/src/nl-reader.cc
asm(".weak _ZN2mp12NameProvider4nameEmm");
asm(".weak _ZN2mp12NameProvider9ReadNamesEN3fmt15BasicCStringRefIcEEm");
asm(".weak _ZN2mp12NameProvider9get_namesB5cxx11Emm");
asm(".weak _ZN2mp12NameProviderC1EN3fmt15BasicCStringRefIcEES3_");
asm(".weak _ZN2mp12NameProviderC1EN3fmt15BasicCStringRefIcEES3_m");
asm(".weak _ZN2mp12NameProviderC2EN3fmt15BasicCStringRefIcEES3_");
asm(".weak _ZN2mp12NameProviderC2EN3fmt15BasicCStringRefIcEES3_m");
asm(".weak _ZN2mp5arith7GetKindEv");
asm(".weak _ZN2mp8internal10ReaderBaseC1ENS_11NLStringRefEN3fmt15BasicCStringRefIcEE");
asm(".weak _ZN2mp8internal10ReaderBaseC2ENS_11NLStringRefEN3fmt15BasicCStringRefIcEE");
asm(".weak _ZN2mp8internal16BinaryReaderBase11ReportErrorEN3fmt15BasicCStringRefIcEERKNS2_7ArgListE");
asm(".weak _ZN2mp9ReadError4initEN3fmt15BasicCStringRefIcEEiiS3_NS1_7ArgListE");
asm(".weak _ZN2mplsERN3fmt11BasicWriterIcEERKNS_8NLHeaderE");
asm(".weak _ZNK2mp12NameProvider11number_readEv");

#include <cxxabi.h>
#include <fcntl.h>
#include <sys/mman.h>
#include <sys/stat.h>
#include <sys/syscall.h>
#include <unistd.h>

#include <new>
#include <typeinfo>

#include "mp/problem.h"

#include "nlread.h"
#include <sys/mman.h>
#include <unistd.h>
#include "nlrec.h"

namespace iosim {

int handler_id(const std::string& n) { return n == "problem" ? H_PROBLEM : n == "null" ? H_NULL : H_CHECK; }

namespace {

struct SimSpin {};   // thrown by SimFile when the reader keeps asking after end-of-file

SimFilePlan* g_plan = nullptr;

// A File for NLFileReader<File>: backed by a real file of the simulated disk (so that the mmap
// path stays real) but with scripted size() and read() behaviour.  It uses raw syscalls that the
// shim does not interpose, so shim faults never mix into this path.
class SimFile {
  int fd_ = -1;
  mutable long pos_ = 0;
  mutable long zero_run_ = 0;

 public:
  SimFile() {}
  SimFile(fmt::CStringRef path, int) {
    fd_ = (int)syscall(SYS_openat, AT_FDCWD, path.c_str(), O_RDONLY | O_CLOEXEC, 0);
    if (fd_ < 0) throw fmt::SystemError(errno, "cannot open file {}", path.c_str());
  }
  SimFile(SimFile&& o) noexcept : fd_(o.fd_), pos_(o.pos_) { o.fd_ = -1; }
  SimFile& operator=(SimFile&& o) noexcept {
    if (this != &o) { reset(); fd_ = o.fd_; pos_ = o.pos_; o.fd_ = -1; }
    return *this;
  }
  SimFile(const SimFile&) = delete;
  SimFile& operator=(const SimFile&) = delete;
  ~SimFile() { reset(); }
  void reset() { if (fd_ >= 0) syscall(SYS_close, fd_); fd_ = -1; }

  int descriptor() const { if (g_plan) g_plan->mmap_used = true; return fd_; }
  long real_size() const {
    off_t n = lseek(fd_, 0, SEEK_END);
    return n < 0 ? 0 : (long)n;
  }
  fmt::LongLong size() const {
    long n = real_size() + (g_plan ? g_plan->size_delta : 0);
    return n < 0 ? 0 : n;
  }
  std::size_t read(void* buffer, std::size_t count) const {
    SimFilePlan& p = *g_plan;
    long i = p.reads++;
    std::size_t n = count;
    if (!p.chunks.empty()) {
      long c = p.chunks[std::min((size_t)i, p.chunks.size() - 1)];
      if (c < 1) c = 1;
      if ((std::size_t)c < n) { n = (std::size_t)c; ++p.short_reads; }
    }
    if (p.eof_at >= 0 && pos_ + (long)n > p.eof_at) n = pos_ < p.eof_at ? (std::size_t)(p.eof_at - pos_) : 0;
    ssize_t r = n ? pread(fd_, buffer, n, pos_) : 0;
    if (r < 0) throw fmt::SystemError(errno, "cannot read from file");
    if (r == 0) {
      ++p.zero_reads;
      if (++zero_run_ > p.spin_cap) throw SimSpin();
    } else zero_run_ = 0;
    pos_ += r;
    return (std::size_t)r;
  }
};

std::string demangled(const std::type_info& ti) {
  int st = 0;
  char* d = abi::__cxa_demangle(ti.name(), nullptr, nullptr, &st);
  std::string s = (st == 0 && d) ? d : ti.name();
  free(d);
  return s;
}

template <class F>
void guarded(ReadOutcome& out, F f) {
  try {
    f();
  } catch (const mp::ReadError& e) {
    out.status = "ReadError"; out.msg = e.what(); out.located = e.line() > 0 && e.column() > 0;
  } catch (const mp::BinaryReadError& e) {
    out.status = "BinaryReadError"; out.msg = e.what(); out.located = true;
  } catch (const mp::UnsupportedError& e) {
    out.status = "UnsupportedError"; out.msg = e.what();
  } catch (const mp::Error& e) {
    out.status = "Error"; out.msg = e.what();
  } catch (const fmt::SystemError& e) {
    out.status = "SystemError"; out.msg = e.what();
  } catch (const std::bad_alloc&) {
    out.status = "bad_alloc";
  } catch (const SimSpin&) {
    out.status = "spin";
  } catch (const RecHandler::Runaway&) {
    out.status = "runaway";
  } catch (const std::exception& e) {
    out.status = "std:" + demangled(typeid(e)); out.msg = e.what();
  } catch (...) {
    out.status = "unknown";
  }
}

void take(ReadOutcome& out, RecHandler& h) {
  if (out.status == "ok") h.finish();
  out.trace_hash = h.trace.h;
  out.trace_log = std::move(h.trace.log);
  out.notifications = h.notifications;
  out.dup_items = h.dup_items;
  out.viol_class = h.viol_class; out.viol_key = h.viol_key; out.viol_detail = h.viol_detail;
  out.items = std::move(h.items);
}

std::string digest_of(const mp::Problem& p) {
  char b[160];
  snprintf(b, sizeof b, "v=%d ac=%d lc=%d o=%d ce=%d", p.num_vars(), p.num_algebraic_cons(), p.num_logical_cons(), p.num_objs(),
           p.num_common_exprs());
  return b;
}

// run `reader(handler)` with the handler selected by o
template <class R>
ReadOutcome with_handler(const ReadOpts& o, R reader) {
  ReadOutcome out;
  switch (o.handler) {
    case H_CHECK: {
      RecHandler h;
      h.want_items = o.want_items; h.norm_zero = o.norm_zero; h.max_notifications = o.max_notifications; h.only_obj = o.only_obj;
      guarded(out, [&] { reader(h); });
      take(out, h);
      break;
    }
    case H_PROBLEM: {
      mp::Problem p;
      guarded(out, [&] { reader(p); });
      if (out.status == "ok") out.digest = digest_of(p);
      break;
    }
    default: {
      mp::NullNLHandler<int> h;
      guarded(out, [&] { reader(h); });
      break;
    }
  }
  return out;
}

struct StringReader {
  const char* data; size_t size; const std::string& name; int flags;
  template <class H> void operator()(H& h) const { mp::ReadNLString(mp::NLStringRef(data, size), h, name, flags); }
};
struct StdStringReader {
  const std::string& bytes; const std::string& name; int flags;
  template <class H> void operator()(H& h) const { mp::ReadNLString(bytes, h, name, flags); }
};
struct SimFileReader {
  const std::string& path; int flags;
  template <class H> void operator()(H& h) const {
    mp::internal::NLFileReader<SimFile> r;
    r.Read(path, h, flags);
  }
};
struct FileReader {
  const std::string& path; int flags;
  template <class H> void operator()(H& h) const { mp::ReadNLFile(path, h, flags); }
};

}  // namespace

ReadOutcome read_nl_string(const std::string& bytes, const std::string& name, const ReadOpts& o) {
  if (o.std_string) { StdStringReader r{bytes, name, o.flags}; return with_handler(o, r); }
  // The bytes and their terminating NUL are placed so that the NUL is the last byte before an inaccessible
  // page: any read past it faults at once and in every process alike.  (An exact-size malloc block relies on
  // ASan's redzone check, which GCC elides for some loads, and what lies behind the block then depends on the
  // history of the heap: such runs did not replay.)
  const size_t page = (size_t)sysconf(_SC_PAGESIZE);
  const size_t need = bytes.size() + 1;
  const size_t span = (need + page - 1) / page * page;
  char* base = (char*)mmap(nullptr, span + page, PROT_READ | PROT_WRITE, MAP_PRIVATE | MAP_ANONYMOUS, -1, 0);
  if (base == MAP_FAILED) throw std::bad_alloc();
  mprotect(base + span, page, PROT_NONE);
  char* buf = base + span - need;
  memcpy(buf, bytes.data(), bytes.size());
  buf[bytes.size()] = 0;
  StringReader r{buf, bytes.size(), name, o.flags};
  ReadOutcome out = with_handler(o, r);
  munmap(base, span + page);
  return out;
}

ReadOutcome read_nl_simfile(const std::string& path, SimFilePlan& plan, const ReadOpts& o) {
  g_plan = &plan;
  SimFileReader r{path, o.flags};
  ReadOutcome out = with_handler(o, r);
  g_plan = nullptr;
  return out;
}

ReadOutcome read_nl_file(const std::string& path, const ReadOpts& o) {
  FileReader r{path, o.flags};
  return with_handler(o, r);
}

}  // namespace iosim
