// Reader party of C02/C03: the three ways into the real NL reader.
#pragma once
#include <map>
#include <string>
#include <vector>

#include "io_common.h"

namespace iosim {

struct ReadOutcome {
  std::string status = "ok";   // ok | ReadError | BinaryReadError | Error | UnsupportedError | SystemError | bad_alloc |
                               // std:<type> | unknown | spin | simexit
  std::string msg;
  bool located = false;        // ReadError with line/column or BinaryReadError with offset
  uint64_t trace_hash = 0;
  long notifications = 0;
  long dup_items = 0;
  std::string trace_log;
  std::string viol_class, viol_key, viol_detail;   // recording checker assertion
  std::string digest;          // problem builder: sizes of what was built
  std::map<std::string, std::string> items;        // per-item history (C03)
  std::string outcome_key() const { return status + "|" + msg; }
};

struct SimFilePlan {
  std::vector<long> chunks;   // read() delivers at most chunks[min(i, n-1)] bytes on the i-th call (empty = everything)
  long size_delta = 0;        // size() = real size + delta
  long eof_at = -1;           // >= 0: read() returns 0 from this offset on (file shrank after fstat)
  long spin_cap = 300;        // consecutive zero-length reads before the harness declares a spin
  // results
  long reads = 0, short_reads = 0, zero_reads = 0;
  bool mmap_used = false;
};

enum { H_CHECK = 0, H_PROBLEM = 1, H_NULL = 2 };
int handler_id(const std::string& name);

struct ReadOpts {
  int flags = 0;
  int handler = H_CHECK;
  bool want_items = false;
  bool norm_zero = false;
  long max_notifications = 0;   // recording handler only; 0 = unlimited
  bool std_string = false;      // string path: hand the bytes over as a std::string (its size, not its first NUL, is the end of input)
  int only_obj = -1;            // recording handler only: NeedObj(i) is true for this objective alone (-1: all)
};

// (i) mp::ReadNLString on an exact-size heap copy of the bytes
ReadOutcome read_nl_string(const std::string& bytes, const std::string& name, const ReadOpts& o);
// (ii) internal::NLFileReader<SimFile> on a file of the simulated disk
ReadOutcome read_nl_simfile(const std::string& path, SimFilePlan& plan, const ReadOpts& o);
// (iii) mp::ReadNLFile (fmt::File + MemoryMappedFile) through the syscall shim
ReadOutcome read_nl_file(const std::string& path, const ReadOpts& o);

}  // namespace iosim
