// Recording checker: a complete implementation of the NLHandler concept that first records the
// header and then asserts on EVERY notification (indices within the declared ranges, announced
// counts followed by exactly that many items, Begin/End properly nested).  It also keeps
//  * a flat notification trace (hash + bounded log) used to compare the file path with the
//    in-memory path (C02), and
//  * optionally a per-item canonical history (C03: reader history vs writer feed history).
#pragma once
#include <map>
#include <string>
#include <vector>

#include "mp/nl-reader.h"

#include "io_common.h"
#include "nlops.h"

namespace iosim {

class RecHandler {
 public:
  struct E { int id = -1; };
  typedef E Expr;
  typedef E NumericExpr;
  typedef E LogicalExpr;
  typedef E CountExpr;
  typedef E Reference;

  // ---- results
  Trace trace;
  bool have_header = false;
  mp::NLHeader h;
  std::string viol_class, viol_key, viol_detail;   // first assertion failure
  long notifications = 0;
  long max_notifications = 0;                      // 0 = unlimited; else a reader that keeps notifying (a loop over the same input) is stopped
  long dup_items = 0;                              // statistic only: same item notified again
  bool ended = false;
  bool want_items = false;
  bool norm_zero = false;
  std::map<std::string, std::string> items;        // canonical per-item history (want_items)

  // ---- node pool for expression trees
  struct Node { std::string head; std::vector<int> kids; };
  std::vector<Node> pool;

  struct Runaway {};                               // thrown out of the reader when the notification budget is used up
  void count() {
    if (++notifications > max_notifications && max_notifications > 0) {
      fail("NOTIFICATION_RUNAWAY", "budget", "more than " + std::to_string(max_notifications) + " notifications for this input: the reader is looping");
      throw Runaway();
    }
  }
  void fail(const char* cls, const std::string& key, const std::string& detail) {
    if (!viol_class.empty()) return;
    viol_class = cls; viol_key = key; viol_detail = detail + " | after: " + trace.tail(6);
  }

  std::string ser(int id) const {
    if (id < 0) return "n0x0p+0";
    std::string out;
    ser_into(id, out);
    return out;
  }

  // =====================================================================  header
  void OnHeader(const mp::NLHeader& hd) {
    if (have_header) fail("NESTING", "OnHeader.twice", "header notified twice");
    h = hd; have_header = true;
    n_vars = hd.num_vars; n_acons = hd.num_algebraic_cons; n_lcons = hd.num_logical_cons; n_objs = hd.num_objs;
    n_funcs = hd.num_funcs;
    n_cexprs = (long)hd.num_common_exprs_in_both + hd.num_common_exprs_in_cons + hd.num_common_exprs_in_objs +
               hd.num_common_exprs_in_single_cons + hd.num_common_exprs_in_single_objs;
    if (n_vars < 0 || n_acons < 0 || n_lcons < 0 || n_objs < 0 || n_funcs < 0 || n_cexprs < 0 ||
        hd.num_common_exprs_in_both < 0 || hd.num_common_exprs_in_cons < 0 || hd.num_common_exprs_in_objs < 0 ||
        hd.num_common_exprs_in_single_cons < 0 || hd.num_common_exprs_in_single_objs < 0)
      fail("BAD_HEADER", "negative-count", "header reports a negative count");
    if (hd.num_ampl_options < 0 || hd.num_ampl_options > mp::MAX_AMPL_OPTIONS)
      fail("BAD_HEADER", "num_ampl_options", "num_ampl_options=" + std::to_string(hd.num_ampl_options));
    char b[256];
    snprintf(b, sizeof b, "HDR f=%d v=%d c=%d o=%d l=%d fn=%d ce=%ld ar=%d fl=%d nopt=%d", (int)hd.format, hd.num_vars,
             hd.num_algebraic_cons, hd.num_objs, hd.num_logical_cons, hd.num_funcs, n_cexprs, (int)hd.arith_kind, hd.flags,
             hd.num_ampl_options);
    note(b);
    if (want_items) items["HDR"] = header_item(hd, norm_zero);
  }

  // canonical text of everything in the header except the encoding (format, arith kind)
  static std::string header_item(const mp::NLHeader& hd, bool nz) {
    std::string s = "v=" + std::to_string(hd.num_vars) + " c=" + std::to_string(hd.num_algebraic_cons) + " o=" + std::to_string(hd.num_objs) +
        " l=" + std::to_string(hd.num_logical_cons) + " fn=" + std::to_string(hd.num_funcs) + " fl=" + std::to_string(hd.flags) +
        " nlc=" + std::to_string(hd.num_nl_cons) + " nlo=" + std::to_string(hd.num_nl_objs) +
        " rng=" + std::to_string(hd.num_ranges) + " eq=" + std::to_string(hd.num_eqns) +
        " cc=" + std::to_string(hd.num_compl_conds) + "," + std::to_string(hd.num_nl_compl_conds) + "," +
        std::to_string(hd.num_compl_dbl_ineqs) + "," + std::to_string(hd.num_compl_vars_with_nz_lb) +
        " net=" + std::to_string(hd.num_nl_net_cons) + "," + std::to_string(hd.num_linear_net_cons) + "," + std::to_string(hd.num_linear_net_vars) +
        " nlv=" + std::to_string(hd.num_nl_vars_in_cons) + "," + std::to_string(hd.num_nl_vars_in_objs) + "," + std::to_string(hd.num_nl_vars_in_both) +
        " int=" + std::to_string(hd.num_linear_binary_vars) + "," + std::to_string(hd.num_linear_integer_vars) + "," +
        std::to_string(hd.num_nl_integer_vars_in_both) + "," + std::to_string(hd.num_nl_integer_vars_in_cons) + "," + std::to_string(hd.num_nl_integer_vars_in_objs) +
        " nz=" + std::to_string(hd.num_con_nonzeros) + "," + std::to_string(hd.num_obj_nonzeros) +
        " names=" + std::to_string(hd.max_con_name_len) + "," + std::to_string(hd.max_var_name_len) +
        " ces=" + std::to_string(hd.num_common_exprs_in_both) + "," + std::to_string(hd.num_common_exprs_in_cons) + "," +
        std::to_string(hd.num_common_exprs_in_objs) + "," + std::to_string(hd.num_common_exprs_in_single_cons) + "," + std::to_string(hd.num_common_exprs_in_single_objs);
    s += " opts=" + std::to_string(hd.num_ampl_options) + ":";
    for (int i = 0; i < hd.num_ampl_options && i < mp::MAX_AMPL_OPTIONS; ++i) s += std::to_string(hd.ampl_options[i]) + ",";
    if (hd.num_ampl_options >= 2 && hd.ampl_options[1] == 3) s += " vbtol=" + dbl_canon(hd.ampl_vbtol, nz);
    return s;
  }

  // a handler may want one objective only (what a driver does with objno=k): the reader then skips the others' O and G segments
  int only_obj = -1;
  bool NeedObj(int i) const { return only_obj < 0 || i == only_obj; }
  int resulting_obj_index(int i) const { return i; }

  // =====================================================================  top-level items
  void OnObj(int index, mp::obj::Type type, E e) {
    top("OnObj"); idx("OnObj.index", index, n_objs); expr_done("OnObj", e);
    if (!NeedObj(index)) fail("UNWANTED_ITEM", "OnObj", "objective " + std::to_string(index) + " notified although NeedObj() said no");
    once("O", index);
    note("O " + std::to_string(index) + " " + std::to_string((int)type));
    if (want_items) items["O" + std::to_string(index)] = std::to_string((int)type) + " " + ser(e.id);
  }
  void OnAlgebraicCon(int index, E e) {
    top("OnAlgebraicCon"); idx("OnAlgebraicCon.index", index, n_acons); expr_done("OnAlgebraicCon", e);
    once("C", index);
    note("C " + std::to_string(index));
    if (want_items) items["C" + std::to_string(index)] = ser(e.id);
  }
  void OnLogicalCon(int index, E e) {
    top("OnLogicalCon"); idx("OnLogicalCon.index", index, n_lcons); expr_done("OnLogicalCon", e);
    once("L", index);
    note("L " + std::to_string(index));
    if (want_items) items["L" + std::to_string(index)] = ser(e.id);
  }
  void OnComplementarity(int con, int var, mp::ComplInfo info) {
    top("OnComplementarity"); idx("OnComplementarity.con", con, n_acons); idx("OnComplementarity.var", var, n_vars);
    once("r", con);
    note("cmpl " + std::to_string(con) + " " + std::to_string(var) + " " + dbl_canon(info.con_lb(), false) + " " + dbl_canon(info.con_ub(), false));
    if (want_items) items["r" + std::to_string(con)] = "compl " + std::to_string(var) + " " + dbl_canon(info.con_lb(), false) + " " + dbl_canon(info.con_ub(), false);
  }
  void OnVarBounds(int index, double lb, double ub) {
    top("OnVarBounds"); idx("OnVarBounds.index", index, n_vars);
    once("b", index);
    note("b " + std::to_string(index) + " " + dc(lb) + " " + dc(ub));
    if (want_items) items["b" + std::to_string(index)] = dc(lb) + " " + dc(ub);
  }
  void OnConBounds(int index, double lb, double ub) {
    top("OnConBounds"); idx("OnConBounds.index", index, n_acons);
    once("r", index);
    note("r " + std::to_string(index) + " " + dc(lb) + " " + dc(ub));
    if (want_items) items["r" + std::to_string(index)] = dc(lb) + " " + dc(ub);
  }
  void OnInitialValue(int var, double v) {
    top("OnInitialValue"); idx("OnInitialValue.index", var, n_vars);
    once("x", var);
    note("x " + std::to_string(var) + " " + dc(v));
    if (want_items) items["x" + std::to_string(var)] = dc(v);
  }
  void OnInitialDualValue(int con, double v) {
    top("OnInitialDualValue"); idx("OnInitialDualValue.index", con, n_acons);
    once("d", con);
    note("d " + std::to_string(con) + " " + dc(v));
    if (want_items) items["d" + std::to_string(con)] = dc(v);
  }
  void OnFunction(int index, fmt::StringRef name, int num_args, mp::func::Type type) {
    top("OnFunction"); idx("OnFunction.index", index, n_funcs);
    if (type != mp::func::NUMERIC && type != mp::func::SYMBOLIC) fail("BAD_VALUE", "OnFunction.type", "type=" + std::to_string((int)type));
    once("F", index);
    std::string nm = sref(name);
    note("F " + std::to_string(index) + " " + nm + " " + std::to_string(num_args) + " " + std::to_string((int)type));
    if (want_items) items["F" + std::to_string(index)] = nm + " " + std::to_string(num_args) + " " + std::to_string((int)type);
  }

  // =====================================================================  counted implicit sequences
  struct LinH {
    RecHandler* r = nullptr; long serial = 0;
    void AddTerm(int var, double coef) { if (r) r->lin_term(serial, var, coef); }
  };
  typedef LinH LinearExprHandler;
  typedef LinH LinearObjHandler;
  typedef LinH LinearConHandler;

  LinH OnLinearObjExpr(int index, int n) {
    top("OnLinearObjExpr"); idx("OnLinearObjExpr.index", index, n_objs); cnt("OnLinearObjExpr.num_terms", n, 1, n_vars);
    if (!NeedObj(index)) fail("UNWANTED_ITEM", "OnLinearObjExpr", "gradient of objective " + std::to_string(index) + " notified although NeedObj() said no");
    once("G", index);
    note("G " + std::to_string(index) + " " + std::to_string(n));
    return begin_pending(P_LIN, n, "G" + std::to_string(index));
  }
  LinH OnLinearConExpr(int index, int n) {
    top("OnLinearConExpr"); idx("OnLinearConExpr.index", index, n_acons); cnt("OnLinearConExpr.num_terms", n, 1, n_vars);
    once("J", index);
    note("J " + std::to_string(index) + " " + std::to_string(n));
    return begin_pending(P_LIN, n, "J" + std::to_string(index));
  }
  LinH BeginCommonExpr(int index, int n) {
    top("BeginCommonExpr"); idx("BeginCommonExpr.index", index, n_cexprs);
    if (n < 0) fail("BAD_COUNT", "BeginCommonExpr.num_linear_terms", "n=" + std::to_string(n));
    once("V", index);
    note("V " + std::to_string(index) + " " + std::to_string(n));
    open_common = index;
    return begin_pending(P_LIN, n, "Vlin" + std::to_string(index));
  }
  void EndCommonExpr(int index, E e, int position) {
    settle("EndCommonExpr");
    if (open_common != index) fail("NESTING", "EndCommonExpr.unmatched", "EndCommonExpr(" + std::to_string(index) + ") but open is " + std::to_string(open_common));
    open_common = -1;
    idx("EndCommonExpr.index", index, n_cexprs);
    expr_done("EndCommonExpr", e);
    note("EV " + std::to_string(index) + " " + std::to_string(position));
    if (want_items) items["V" + std::to_string(index)] = ser(e.id) + " pos=" + std::to_string(position);
  }

  struct ColH {
    RecHandler* r = nullptr; long serial = 0;
    void Add(int size) { if (r) r->col_size(serial, size); }
  };
  typedef ColH ColumnSizeHandler;
  ColH OnColumnSizes() {
    top("OnColumnSizes");
    once("k", 0);
    note("k");
    LinH l = begin_pending(P_COL, n_vars - 1, "k");
    ColH c; c.r = l.r; c.serial = l.serial;
    return c;
  }

  struct IntSufH {
    RecHandler* r = nullptr; long serial = 0;
    void SetValue(int index, int value) { if (r) r->suf_value(serial, index, (double)value, false); }
  };
  struct DblSufH {
    RecHandler* r = nullptr; long serial = 0;
    void SetValue(int index, double value) { if (r) r->suf_value(serial, index, value, true); }
  };
  typedef IntSufH IntSuffixHandler;
  typedef DblSufH DblSuffixHandler;
  IntSufH OnIntSuffix(fmt::StringRef name, mp::suf::Kind kind, int n) {
    LinH l = begin_suffix(name, (int)kind, n, false);
    IntSufH s; s.r = l.r; s.serial = l.serial; return s;
  }
  DblSufH OnDblSuffix(fmt::StringRef name, mp::suf::Kind kind, int n) {
    LinH l = begin_suffix(name, (int)kind, n, true);
    DblSufH s; s.r = l.r; s.serial = l.serial; return s;
  }

  // =====================================================================  expressions
  struct ArgH {
    RecHandler* r = nullptr; long serial = 0;
    void AddArg(E e) { if (r) r->add_arg(serial, e); }
  };
  typedef ArgH ArgHandler;
  typedef ArgH NumericArgHandler;
  typedef ArgH VarArgHandler;
  typedef ArgH CallArgHandler;
  typedef ArgH NumberOfArgHandler;
  typedef ArgH CountArgHandler;
  typedef ArgH LogicalArgHandler;
  typedef ArgH PairwiseArgHandler;
  typedef ArgH SymbolicArgHandler;

  E OnNumber(double v) { leaf("OnNumber"); note("n " + dbl_canon(v, false)); return mk("n" + dc(v)); }
  E OnVariableRef(int i) { leaf("OnVariableRef"); idx("OnVariableRef.index", i, n_vars); note("v " + std::to_string(i)); return mk("v" + std::to_string(i)); }
  E OnCommonExprRef(int i) { leaf("OnCommonExprRef"); idx("OnCommonExprRef.index", i, n_cexprs); note("e " + std::to_string(i)); return mk("e" + std::to_string(i)); }
  E OnBool(bool v) { leaf("OnBool"); note(v ? "t" : "f"); return mk(v ? "b1" : "b0"); }
  E OnString(fmt::StringRef s) {
    leaf("OnString");
    std::string v = sref(s);
    note("h " + std::to_string(v.size()) + ":" + v);
    return mk("h" + std::to_string(v.size()) + ":" + v);
  }
  E OnUnary(mp::expr::Kind k, E a) { return fixed("OnUnary", k, {a}); }
  E OnBinary(mp::expr::Kind k, E a, E b) { return fixed("OnBinary", k, {a, b}); }
  E OnIf(E c, E t, E e) { return fixed("OnIf", mp::expr::IF, {c, t, e}); }
  E OnSymbolicIf(E c, E t, E e) { return fixed("OnSymbolicIf", mp::expr::IFSYM, {c, t, e}); }
  E OnNot(E a) { return fixed("OnNot", mp::expr::NOT, {a}); }
  E OnBinaryLogical(mp::expr::Kind k, E a, E b) { return fixed("OnBinaryLogical", k, {a, b}); }
  E OnRelational(mp::expr::Kind k, E a, E b) { return fixed("OnRelational", k, {a, b}); }
  E OnLogicalCount(mp::expr::Kind k, E a, E b) { return fixed("OnLogicalCount", k, {a, b}); }
  E OnImplication(E c, E t, E e) { return fixed("OnImplication", mp::expr::IMPLICATION, {c, t, e}); }

  struct PLH {
    RecHandler* r = nullptr; long serial = 0;
    void AddSlope(double v) { if (r) r->pl_value(serial, v, true); }
    void AddBreakpoint(double v) { if (r) r->pl_value(serial, v, false); }
  };
  typedef PLH PLTermHandler;
  PLH BeginPLTerm(int nbp) {
    settle("BeginPLTerm");
    if (nbp < 1) fail("BAD_COUNT", "BeginPLTerm.num_breakpoints", "n=" + std::to_string(nbp));
    note("pl " + std::to_string(nbp));
    ArgH a = begin_frame(F_PL, 2L * nbp + 1, "(pl");
    PLH p; p.r = a.r; p.serial = a.serial; return p;
  }
  E EndPLTerm(PLH ph, E arg) {
    ArgH a; a.r = ph.r; a.serial = ph.serial;
    if (!frames.empty() && frames.back().serial == ph.serial && arg.id >= 0) pool[frames.back().node].kids.push_back(arg.id);
    return end_frame("EndPLTerm", a);
  }

  ArgH BeginCall(int f, int n) {
    settle("BeginCall"); idx("BeginCall.func_index", f, n_funcs);
    if (n < 0) fail("BAD_COUNT", "BeginCall.num_args", "n=" + std::to_string(n));
    note("call " + std::to_string(f) + " " + std::to_string(n));
    return begin_frame(F_ARGS, n, "(f" + std::to_string(f));
  }
  E EndCall(ArgH a) { return end_frame("EndCall", a); }
  ArgH BeginVarArg(mp::expr::Kind k, int n) { return begin_iter("BeginVarArg", k, n, 1); }
  E EndVarArg(ArgH a) { return end_frame("EndVarArg", a); }
  ArgH BeginSum(int n) { return begin_iter("BeginSum", mp::expr::SUM, n, 0); }
  E EndSum(ArgH a) { return end_frame("EndSum", a); }
  ArgH BeginCount(int n) { return begin_iter("BeginCount", mp::expr::COUNT, n, 1); }
  E EndCount(ArgH a) { return end_frame("EndCount", a); }
  ArgH BeginNumberOf(int n, E arg0) {
    ArgH a = begin_iter("BeginNumberOf", mp::expr::NUMBEROF, n, 1);
    add_arg(a.serial, arg0);
    return a;
  }
  E EndNumberOf(ArgH a) { return end_frame("EndNumberOf", a); }
  ArgH BeginSymbolicNumberOf(int n, E arg0) {
    ArgH a = begin_iter("BeginSymbolicNumberOf", mp::expr::NUMBEROF_SYM, n, 1);
    add_arg(a.serial, arg0);
    return a;
  }
  E EndSymbolicNumberOf(ArgH a) { return end_frame("EndSymbolicNumberOf", a); }
  ArgH BeginIteratedLogical(mp::expr::Kind k, int n) { return begin_iter("BeginIteratedLogical", k, n, 0); }
  E EndIteratedLogical(ArgH a) { return end_frame("EndIteratedLogical", a); }
  ArgH BeginPairwise(mp::expr::Kind k, int n) { return begin_iter("BeginPairwise", k, n, 1); }
  E EndPairwise(ArgH a) { return end_frame("EndPairwise", a); }

  void EndInput() {
    top("EndInput");
    if (ended) fail("NESTING", "EndInput.twice", "EndInput notified twice");
    ended = true;
    note("END");
  }

  // called by the harness after a normal return of the reader
  void finish() {
    bool was_ended = ended;
    ended = false;
    settle("finish");
    ended = was_ended;
    if (!frames.empty()) fail("NESTING", "unclosed-frame", "reader returned with " + std::to_string(frames.size()) + " open Begin/End frames");
    if (open_common >= 0) fail("NESTING", "unclosed-common-expr", "reader returned inside common expression " + std::to_string(open_common));
    if (!ended) fail("NESTING", "no-EndInput", "reader returned without EndInput");
  }

 private:
  long n_vars = 0, n_acons = 0, n_lcons = 0, n_objs = 0, n_funcs = 0, n_cexprs = 0;
  enum { P_NONE, P_LIN, P_COL, P_SUF };
  enum { F_ARGS, F_PL };
  struct Pending { int kind = P_NONE; long expected = 0, got = 0, serial = 0; std::string item; long items_max = 0; bool real = false; } pend;
  struct Frame { int kind; long expected, got, serial; int node; };
  std::vector<Frame> frames;
  long serial_ctr = 0;
  int open_common = -1;
  std::map<std::string, int> seen;

  std::string dc(double v) const { return dbl_canon(v, norm_zero); }
  static std::string sref(fmt::StringRef s) { return s.size() ? std::string(s.data(), s.size()) : std::string(); }
  void note(const std::string& s) { count(); trace.add(s); }
  E mk(std::string head) { pool.push_back(Node{std::move(head), {}}); E e; e.id = (int)pool.size() - 1; return e; }
  void ser_into(int id, std::string& out) const {
    const Node& n = pool[(size_t)id];
    out += n.head;
    if (!n.head.empty() && n.head[0] == '(') {
      for (int k : n.kids) { out += ' '; if (k < 0) out += "n0x0p+0"; else ser_into(k, out); }
      out += ')';
    }
  }
  void need_header(const char* who) { if (!have_header) fail("NESTING", std::string(who) + ".before-header", "notification before OnHeader"); }
  void idx(const char* key, long v, long n) {
    if (v < 0 || v >= n) fail("INDEX_OUT_OF_RANGE", key, std::string(key) + "=" + std::to_string(v) + " outside [0," + std::to_string(n) + ")");
  }
  void cnt(const char* key, long v, long lo, long hi) {
    if (v < lo || v > hi) fail("BAD_COUNT", key, std::string(key) + "=" + std::to_string(v) + " outside [" + std::to_string(lo) + "," + std::to_string(hi) + "]");
  }
  void once(const char* kind, long index) {
    if (index < 0 || index > 100000) return;
    std::string k = kind; k += std::to_string(index);
    if (seen[k]++) ++dup_items;
  }
  // any notification other than the matching Add*/SetValue ends a counted sequence
  void settle(const char* who) {
    need_header(who);
    if (ended) fail("NESTING", std::string(who) + ".after-EndInput", "notification after EndInput");
    if (pend.kind != P_NONE) {
      if (pend.got != pend.expected)
        fail("COUNT_MISMATCH", pend.item.substr(0, 1) + ".short", "announced " + std::to_string(pend.expected) + " items for " + pend.item +
             " but got " + std::to_string(pend.got) + " before " + who);
      pend.kind = P_NONE;
    }
  }
  // a top-level (segment) notification: no expression frame may be open
  void top(const char* who) {
    settle(who);
    if (!frames.empty()) fail("NESTING", std::string(who) + ".inside-frame", std::string(who) + " while " + std::to_string(frames.size()) + " Begin/End frames are open");
    if (open_common >= 0) fail("NESTING", std::string(who) + ".inside-common-expr", std::string(who) + " inside common expression");
  }
  void leaf(const char* who) { settle(who); }
  void expr_done(const char* who, E e) {
    if (e.id >= (int)pool.size()) fail("NESTING", std::string(who) + ".bad-expr", "expression handle was not produced by this handler");
  }
  LinH begin_pending(int kind, long n, const std::string& item) {
    pend.kind = kind; pend.expected = n; pend.got = 0; pend.serial = ++serial_ctr; pend.item = item;
    if (want_items) items[item] = "";
    LinH l; l.r = this; l.serial = pend.serial; return l;
  }
  bool pending_ok(long serial, const char* who) {
    need_header(who);
    count();
    if (pend.kind == P_NONE || pend.serial != serial) {
      fail("NESTING", std::string(who) + ".stale-handler", std::string(who) + " on a sequence that is not the current one");
      return false;
    }
    if (pend.got >= pend.expected) {
      fail("COUNT_MISMATCH", std::string(who) + ".excess", std::string(who) + ": more than the announced " + std::to_string(pend.expected) + " items for " + pend.item);
      ++pend.got;
      return false;
    }
    ++pend.got;
    return true;
  }
  void lin_term(long serial, int var, double coef) {
    pending_ok(serial, "AddTerm");
    idx("AddTerm.var_index", var, n_vars);
    trace.add("t " + std::to_string(var) + " " + dbl_canon(coef, false));
    if (want_items) { std::string& s = items[pend.item]; s += std::to_string(var); s += '*'; s += dc(coef); s += ' '; }
  }
  void col_size(long serial, int size) {
    pending_ok(serial, "ColumnSize.Add");
    if (size < 0) fail("BAD_VALUE", "ColumnSize.negative", "column size " + std::to_string(size));
    trace.add("ks " + std::to_string(size));
    if (want_items) { std::string& s = items["k"]; s += std::to_string(size); s += ' '; }
  }
  LinH begin_suffix(fmt::StringRef name, int kind, int n, bool real) {
    top(real ? "OnDblSuffix" : "OnIntSuffix");
    long max = 0;
    if (kind < 0 || kind > 3) fail("BAD_VALUE", "OnSuffix.kind", "kind=" + std::to_string(kind));
    else max = kind == 0 ? n_vars : kind == 1 ? n_acons + n_lcons : kind == 2 ? n_objs : 1;
    cnt(real ? "OnDblSuffix.num_values" : "OnIntSuffix.num_values", n, 1, max);
    std::string nm = sref(name);
    note(std::string(real ? "SD " : "SI ") + nm + " " + std::to_string(kind) + " " + std::to_string(n));
    std::string item = "S" + std::to_string(kind) + (real ? "r:" : "i:") + nm;
    once(item.c_str(), 0);
    LinH l = begin_pending(P_SUF, n, item);
    pend.items_max = max; pend.real = real;
    return l;
  }
  void suf_value(long serial, int index, double v, bool real) {
    pending_ok(serial, "SetValue");
    if (pend.kind == P_SUF && pend.serial == serial) idx("SetValue.index", index, pend.items_max);
    trace.add("sv " + std::to_string(index) + " " + dbl_canon(v, false));
    if (want_items) { std::string& s = items[pend.item]; s += std::to_string(index); s += '='; s += real ? dc(v) : std::to_string((long)v); s += ' '; }
  }
  // ---- explicit Begin/End frames
  ArgH begin_frame(int kind, long n, const std::string& head) {
    E nd = mk(head);
    Frame f{kind, n, 0, ++serial_ctr, nd.id};
    frames.push_back(f);
    ArgH a; a.r = this; a.serial = f.serial; return a;
  }
  ArgH begin_iter(const char* who, mp::expr::Kind k, int n, int min) {
    settle(who);
    int op = reader_opnum(k);
    if (n < min) fail("BAD_COUNT", std::string(who) + ".num_args", "n=" + std::to_string(n));
    note(std::string("B ") + std::to_string(op) + " " + std::to_string(n));
    return begin_frame(F_ARGS, n, "(o" + std::to_string(op));
  }
  void add_arg(long serial, E e) {
    count();
    if (frames.empty() || frames.back().serial != serial) {
      fail("NESTING", "AddArg.not-innermost", "AddArg on a frame that is not the innermost open one");
      return;
    }
    Frame& f = frames.back();
    if (f.kind != F_ARGS) fail("NESTING", "AddArg.wrong-frame", "AddArg on a PL-term frame");
    if (f.got >= f.expected) fail("COUNT_MISMATCH", "AddArg.excess", "more than the announced " + std::to_string(f.expected) + " arguments");
    ++f.got;
    pool[f.node].kids.push_back(e.id);
    trace.add("a");
  }
  void pl_value(long serial, double v, bool slope) {
    count();
    if (frames.empty() || frames.back().serial != serial || frames.back().kind != F_PL) {
      fail("NESTING", "PLTerm.not-innermost", "AddSlope/AddBreakpoint on a frame that is not the innermost open one");
      return;
    }
    Frame& f = frames.back();
    bool want_slope = (f.got % 2) == 0;
    if (want_slope != slope) fail("NESTING", "PLTerm.order", "slopes and breakpoints must alternate");
    if (f.got >= f.expected) fail("COUNT_MISMATCH", "PLTerm.excess", "more slopes/breakpoints than announced");
    ++f.got;
    E c = mk((slope ? "s" : "p") + dc(v));
    pool[f.node].kids.push_back(c.id);
    trace.add((slope ? "ps " : "pb ") + dbl_canon(v, false));
  }
  E end_frame(const char* who, ArgH a) {
    settle(who);
    if (frames.empty() || frames.back().serial != a.serial) {
      fail("NESTING", std::string(who) + ".unmatched", std::string(who) + " does not close the innermost open frame");
      return E();
    }
    Frame f = frames.back();
    frames.pop_back();
    if (f.got != f.expected)
      fail("COUNT_MISMATCH", std::string(who) + ".count", std::string(who) + ": announced " + std::to_string(f.expected) + " items, delivered " + std::to_string(f.got));
    note(std::string("E ") + who);
    E e; e.id = f.node; return e;
  }
  E fixed(const char* who, mp::expr::Kind k, std::initializer_list<E> args) {
    settle(who);
    int op = reader_opnum(k);
    note(std::string("o ") + std::to_string(op));
    E nd = mk("(o" + std::to_string(op));
    for (E a : args) { expr_done(who, a); pool[nd.id].kids.push_back(a.id); }
    return nd;
  }
};

}  // namespace iosim
