#include "solgen.h"

#include <algorithm>
#include <cfloat>

#include "mp/sol.h"
#include "mp/solver-io.h"
#include "mp/suffix.h"
#include "mp/problem.h"

namespace iosim {

// ------------------------------------------------------------------ JSON
Json Sol::to_json() const {
  Json j = Json::object();
  j.set("message", message);
  Json o = Json::array(); for (long v : options) o.push(v); j.set("options", o);
  j.set("nvars", nvars); j.set("ncons", ncons); j.set("nlcons", nlcons); j.set("nobjs", nobjs);
  Json jx = Json::array(); for (double v : x) jx.push(sim::dbl_hex(v)); j.set("x", jx);
  Json jy = Json::array(); for (double v : y) jy.push(sim::dbl_hex(v)); j.set("y", jy);
  j.set("objno", objno); j.set("status", status);
  Json js = Json::array();
  for (auto& s : sufs) {
    Json e = Json::object();
    e.set("name", s.name); e.set("kind", s.kind); e.set("real", s.real); e.set("table", s.table); e.set("size", s.size);
    Json v = Json::array();
    for (auto& p : s.vals) { Json pr = Json::array(); pr.push(p.first); pr.push(sim::dbl_hex(p.second)); v.push(pr); }
    e.set("vals", v);
    js.push(e);
  }
  j.set("sufs", js);
  return j;
}

static double jd(const Json& v) {
  if (v.is_num()) return v.as_double();
  const std::string& s = v.as_str();
  if (s == "NaN") return NAN;
  if (s == "-NaN") return -NAN;
  if (s == "Infinity") return INFINITY;
  if (s == "-Infinity") return -INFINITY;
  return strtod(s.c_str(), nullptr);
}

Sol Sol::from_json(const Json& j) {
  Sol s;
  s.message = j["message"].as_str();
  for (auto& v : j["options"].arr()) s.options.push_back(v.as_int());
  s.nvars = (int)j["nvars"].as_int(); s.ncons = (int)j["ncons"].as_int(); s.nlcons = (int)j["nlcons"].as_int(); s.nobjs = (int)j["nobjs"].as_int(1);
  for (auto& v : j["x"].arr()) s.x.push_back(jd(v));
  for (auto& v : j["y"].arr()) s.y.push_back(jd(v));
  s.objno = (int)j["objno"].as_int(1); s.status = (int)j["status"].as_int(0);
  for (auto& e : j["sufs"].arr()) {
    SolSuffix f;
    f.name = e["name"].as_str(); f.kind = (int)e["kind"].as_int() & 3; f.real = e["real"].as_bool(); f.table = e["table"].as_str();
    f.size = (int)e["size"].as_int();
    for (auto& p : e["vals"].arr()) f.vals.push_back({(int)p[(size_t)0].as_int(), jd(p[(size_t)1])});
    s.sufs.push_back(f);
  }
  return s;
}

// ------------------------------------------------------------------ generator
namespace {
double sol_number(Rng& rng, const SolGenOpts& o) {
  if (o.nonfinite && rng.chance(0.08)) { static const double nf[] = {INFINITY, -INFINITY, NAN}; return rng.pick(nf); }
  if (o.awkward && rng.chance(0.4)) {
    static const double pool[] = {0.0, -0.0, 1.0, -1.0, 0.1, 1.0 / 3, 2.0 / 3, 0.1 + 0.2, 123456789.123456789, DBL_MAX, -DBL_MAX, DBL_MIN,
                                  4.9406564584124654e-324, 2.2250738585072009e-308, 1e15, 999999999999999.0, 1e15 - 0.5, 1e16, 9007199254740993.0,
                                  1e22, 1e23, 5e-324, 1e-320, 3.141592653589793, 1e300, 1e-300, 0.30000000000000004, 1.0000000000000002,
                                  123456.7, 4503599627370497.5, 72057594037927945.0, 1e-5, 1.5e-10, 100, 1e100};
    return rng.pick(pool);
  }
  if (o.awkward && rng.chance(0.15)) {   // binade boundaries: +-2^k and its two neighbours
    double p = std::ldexp(1.0, (int)rng.range(-1074, 1023));
    switch (rng.below(4)) { case 0: p = std::nextafter(p, 0.0); break; case 1: p = std::nextafter(p, INFINITY); break; default: break; }
    return rng.chance(0.5) ? p : -p;
  }
  if (o.awkward && rng.chance(0.25)) {
    for (;;) { uint64_t b = rng.next(); double d; memcpy(&d, &b, 8); if (std::isfinite(d)) return d; }
  }
  switch (rng.below(5)) {
    case 0: return (double)rng.range(-9, 9);
    case 1: return (double)rng.range(-100000, 100000);
    case 2: return rng.real() * 200 - 100;
    case 3: return std::ldexp(1.0 + rng.real(), (int)rng.range(-60, 60));
    default: return (double)rng.range(-1000, 1000) / 16.0;
  }
}

std::string gen_message(Rng& rng) {
  static const char* words[] = {"optimal", "solution;", "objective", "42.5", "SIMDRV", "1.0:", "infeasible", "iterations", "0", "simplex",
                                "limit", "reached", "(primal)", "x=y", "100%", "\ttabbed", "Options", "objno 0 0", "suffix 0 1 2 0 0", "3",
                                "{", "}", "{}", "{0}", "{{x}}", "set {1,2}", "{:d}", "%s", "%d%n", "\\", "\"quoted\"", "a{b", "c}d"};
  std::string m;
  if (rng.chance(0.25)) m.append((size_t)(1 + rng.below(12)), '\b');
  if (rng.chance(0.04)) m.append((size_t)(20 + rng.below(400)), '\b');      // far more backspaces than the rest of the message has characters
  int nlines = (int)rng.below(5);
  if (rng.chance(0.1)) nlines = 0;
  for (int l = 0; l <= nlines; ++l) {
    if (l > 0) {
      if (rng.chance(0.2)) m += "\r\n"; else m += '\n';
      if (rng.chance(0.2)) m += '\n';                       // blank line inside the message
    }
    int nw = (int)rng.below(6);
    for (int w = 0; w < nw; ++w) { if (w) m += ' '; m += rng.pick(words); }
    if (rng.chance(0.04)) m.append((size_t)(480 + rng.below(80)), 'L');   // longer than the reader's 512-byte line buffer
    if (rng.chance(0.03)) { size_t have = m.size() - (m.rfind('\n') == std::string::npos ? 0 : m.rfind('\n') + 1); size_t want = 506 + rng.below(10); if (have < want) m.append(want - have, 'B'); }   // a line ending right at the buffer boundary
    if (rng.chance(0.05)) m += '\b';
  }
  if (rng.chance(0.4)) m += '\n';
  if (rng.chance(0.1)) m += "\n\n";
  return m;
}
}  // namespace

Sol gen_sol(Rng& rng, const SolGenOpts& o) {
  Sol s;
  s.message = gen_message(rng);
  int nopt = (int)rng.below(10);
  if (o.reader_friendly_options) nopt = 3 + (int)rng.below(7);
  else if (rng.chance(0.5)) nopt = 3 + (int)rng.below(3);
  for (int i = 0; i < nopt; ++i) s.options.push_back((long)rng.below(5));
  if (nopt >= 2) {
    if (!o.reader_friendly_options && rng.chance(0.15)) s.options[1] = 3;     // the vbtol form
    else if (s.options[1] == 3) s.options[1] = 1;
  }
  if (rng.chance(0.1) && nopt > 0) s.options[rng.below(nopt)] = rng.chance(0.5) ? -1 : 2147483647L;
  s.nvars = (int)rng.below(9);
  s.ncons = (int)rng.below(7);
  if (o.long_vectors && rng.chance(0.04)) { s.nvars = (int)rng.range(150, 700); if (rng.chance(0.5)) s.ncons = (int)rng.range(150, 500); }   // several stdio / block buffers
  s.nlcons = rng.chance(0.3) ? (int)rng.below(3) : 0;
  s.nobjs = (int)rng.below(4);
  int xm = (int)rng.below(10), ym = (int)rng.below(10);
  int nx = xm < 6 ? s.nvars : xm < 8 ? 0 : (int)rng.below(s.nvars + 1);
  int ny = ym < 6 ? s.ncons : ym < 8 ? 0 : (int)rng.below(s.ncons + 1);
  for (int i = 0; i < nx; ++i) s.x.push_back(sol_number(rng, o));
  for (int i = 0; i < ny; ++i) s.y.push_back(sol_number(rng, o));
  s.objno = (int)rng.below(4);
  static const int codes[] = {0, 1, 99, 100, 150, 200, 299, 300, 400, 500, 501, 999, -1, 2, 567};
  s.status = rng.chance(0.7) ? rng.pick(codes) : (int)rng.range(-5, 1200);
  int ns = rng.chance(0.55) ? (int)rng.below(5) : 0;
  for (int i = 0; i < ns; ++i) {
    SolSuffix f;
    static const char* names[] = {"sstatus", "iis", "relax", "dunbdd", "unbdd", "bestbound", "npool", "senslbhi", "a", "rc", "long_suffix_name_for_testing"};
    f.name = std::string(rng.pick(names)) + (rng.chance(0.5) ? std::to_string(i) : std::string(1, (char)('a' + i)));
    f.kind = (int)rng.below(4);
    f.real = rng.chance(0.45);
    f.size = f.kind == 0 ? s.nvars : f.kind == 1 ? s.ncons + s.nlcons : f.kind == 2 ? s.nobjs : 1;
    if (rng.chance(0.03)) {        // a table whose last (or only) line is longer than the reader's line buffer
      f.table = rng.chance(0.5) ? "1\tshort\tline\n" : "";
      f.table += "2\tlong\t" + std::string((size_t)(490 + rng.below(60)), 't');
      if (rng.chance(0.5)) f.table += "\n";
    } else if (rng.chance(0.35)) {
      static const char* tabs[] = {"0\tnone\tno status assigned", "1\tbas\tbasic\n2\tsup\tsuperbasic\n3\tlow\tnonbasic <= (normally =) lower bound",
                                   "1 mem IIS member\n2 pmem possible member", "x", "0 no\n1 yes\n"};
      f.table = rng.pick(tabs);
    }
    for (int k = 0; k < f.size; ++k)
      if (rng.chance(0.6)) {
        double v = f.real ? sol_number(rng, o) : (double)rng.range(-3, 9);
        if (!f.real && rng.chance(0.03)) v = rng.chance(0.5) ? 2147483647.0 : -2147483648.0;
        if (v != 0 || std::isnan(v)) f.vals.push_back({k, v});     // zero entries are never written (sparse format)
      }
    s.sufs.push_back(f);
  }
  return s;
}

// ------------------------------------------------------------------ real writer
namespace {
struct SolProblem : mp::SuffixManager {
  int nv = 0, nc = 0;
  int num_vars() const { return nv; }
  int num_algebraic_cons() const { return nc; }
};
}  // namespace

std::string write_sol_real(const Sol& s, const std::string& path) {
  try {
    SolProblem pb;
    pb.nv = s.nvars; pb.nc = s.ncons;
    for (auto& f : s.sufs) {
      mp::suf::Kind k = (mp::suf::Kind)(f.kind & 3);
      if (f.real) {
        auto su = pb.suffixes(k).Add<double>(f.name, f.kind | mp::suf::OUTPUT, f.size, f.table);
        for (auto& p : f.vals) if (p.first >= 0 && p.first < f.size) su.set_value(p.first, p.second);
      } else {
        auto su = pb.suffixes(k).Add<int>(f.name, f.kind | mp::suf::OUTPUT, f.size, f.table);
        for (auto& p : f.vals) if (p.first >= 0 && p.first < f.size) su.set_value(p.first, (int)p.second);
      }
    }
    mp::SolutionAdapter<SolProblem> sa(s.status, &pb, s.message.c_str(), mp::ArrayRef<long>(s.options.data(), s.options.size()),
                                       mp::ArrayRef<double>(s.x.data(), s.x.size()), mp::ArrayRef<double>(s.y.data(), s.y.size()), s.objno);
    mp::WriteSolFile(path, sa);
  } catch (const std::exception& e) {
    return std::string("exception: ") + e.what();
  }
  return "";
}

// ------------------------------------------------------------------ real writer, entered where a driver enters it
namespace {
// what mp::SolutionWriterImpl asks of its solver
struct DrvSolver {
  int objno = 0;
  bool need_multiple_solutions() const { return false; }
  const char* solution_stub() const { return ""; }
  int objno_used() const { return objno; }
};
template <class T>
void report_suffix(mp::Problem& P, const SolSuffix& f, int size, bool history) {
  mp::SuffixDef<T> def(f.name, f.kind | mp::suf::OUTPUT, f.table);
  std::vector<T> dense((size_t)size, T());
  if (history) {          // an earlier solution of the same problem object reported other values for the same suffix
    std::vector<T> prev((size_t)size, T());
    for (int i = 0; i < size; ++i) prev[(size_t)i] = (T)(3 + i % 4);
    P.ReportSuffix(def, mp::ArrayRef<T>(prev.data(), prev.size()));
  }
  for (auto& p : f.vals) if (p.first >= 0 && p.first < size) dense[(size_t)p.first] = (T)p.second;
  P.ReportSuffix(def, mp::ArrayRef<T>(dense.data(), dense.size()));
}
}  // namespace

// The same solution written the way a driver writes it: suffix values reported to an mp::Problem (Problem::ReportSuffix, dense
// vectors, optionally after an earlier report), vectors handed to mp::SolutionWriterImpl::HandleSolution as pointers.
// Returns "skip" when the solution does not fit that interface (partial vectors, suffix sizes other than the item counts).
std::string write_sol_driver_entry(const Sol& s, const std::string& stub, bool history) {
  try {
    if (!(s.x.empty() || (int)s.x.size() == s.nvars) || !(s.y.empty() || (int)s.y.size() == s.ncons)) return "skip";
    mp::Problem P;
    for (int j = 0; j < s.nvars; ++j) P.AddVar(0, 1);
    for (int i = 0; i < s.ncons; ++i) P.AddCon(0, 1);
    if (s.nlcons > 0) return "skip";
    P.AddObj(mp::obj::MIN);
    for (auto& f : s.sufs) {
      int want = P.GetSuffixSize((mp::suf::Kind)(f.kind & 3));
      if (f.size != want || want == 0) return "skip";        // (a suffix over zero items is not reported through this interface)
      for (auto& f2 : s.sufs) if (&f2 != &f && f2.name == f.name && f2.kind == f.kind) return "skip";     // one name, one kind, two value types
    }
    for (auto& f : s.sufs) {
      int size = P.GetSuffixSize((mp::suf::Kind)(f.kind & 3));
      if (f.real) report_suffix<double>(P, f, size, history); else report_suffix<int>(P, f, size, history);
    }
    DrvSolver solver; solver.objno = s.objno;
    mp::SolutionWriterImpl<DrvSolver, mp::Problem> w(stub, solver, P, mp::ArrayRef<long>(s.options.data(), s.options.size()));
    w.HandleSolution(s.status, s.message.c_str(), s.x.empty() ? nullptr : s.x.data(), s.y.empty() ? nullptr : s.y.data(), 0.0);
  } catch (const std::exception& e) {
    return std::string("exception: ") + e.what();
  }
  return "";
}

// ------------------------------------------------------------------ own emitters
namespace {
std::string g16(double v) { char b[48]; snprintf(b, sizeof b, "%.16g", v); return b; }

struct TextOut {
  std::string out;
  std::vector<Field> fields;
  void num(long v, const char* cls, long bound = -1) {
    std::string t = std::to_string(v);
    fields.push_back({out.size(), t.size(), cls, v, bound});
    out += t;
  }
};

std::vector<const SolSuffix*> ordered(const Sol& s, int kind) {
  std::vector<const SolSuffix*> v;
  for (auto& f : s.sufs) if (f.kind == kind) v.push_back(&f);
  std::sort(v.begin(), v.end(), [](const SolSuffix* a, const SolSuffix* b) {
    if (a->name.size() != b->name.size()) return a->name.size() < b->name.size();
    return a->name < b->name;
  });
  return v;
}
}  // namespace

SolEmitted emit_sol_text(const Sol& s) {
  TextOut t;
  // message (internal::WriteMessage)
  {
    const char* msg = s.message.c_str();
    for (const char* ls = msg;;) {
      const char* le = ls;
      while (*le && *le != '\n') ++le;
      if (le == ls && *le) t.out += ' ';
      else { t.out.append(ls, le); if (!*le) t.out += '\n'; }
      t.out += '\n';
      if (!*le) break;
      ls = le + 1;
    }
  }
  t.out += "Options\n";
  if (!s.options.empty()) {
    t.num((long)s.options.size(), "opt.count", 10); t.out += '\n';
    for (size_t i = 0; i < s.options.size(); ++i) { t.num(s.options[i], i == 1 ? "opt.vbtolflag" : "opt.value"); t.out += '\n'; }
  }
  t.num(s.ncons, "cnt.ncons", s.ncons); t.out += '\n';
  t.num((long)s.y.size(), "cnt.nduals", s.ncons); t.out += '\n';
  t.num(s.nvars, "cnt.nvars", s.nvars); t.out += '\n';
  t.num((long)s.x.size(), "cnt.nprimals", s.nvars); t.out += '\n';
  for (double v : s.y) { t.out += g16(v); t.out += '\n'; }
  for (double v : s.x) { t.out += g16(v); t.out += '\n'; }
  t.out += "objno "; t.num(s.objno - 1, "objno.index"); t.out += ' '; t.num(s.status, "objno.code"); t.out += '\n';
  for (int kind = 0; kind < 4; ++kind)
    for (const SolSuffix* f : ordered(s, kind)) {
      int nvals = 0;
      for (int i = 0; i < f->size; ++i) {
        double v = 0; for (auto& p : f->vals) if (p.first == i) v = f->real ? p.second : (double)(int)p.second;
        if (v != 0 || std::isnan(v)) ++nvals;
      }
      int tablen = f->table.empty() ? 0 : (int)f->table.size() + 1;
      int tablines = f->table.empty() ? 0 : 1 + (int)std::count(f->table.begin(), f->table.end(), '\n');
      t.out += "suffix ";
      t.num(f->kind | (f->real ? 4 : 0), "suf.kind", 16); t.out += ' ';
      t.num(nvals, "suf.n", f->size); t.out += ' ';
      t.num((long)f->name.size() + 1, "suf.namelen", 512); t.out += ' ';
      t.num(tablen, "suf.tablen", 512); t.out += ' ';
      t.num(tablines, "suf.tablines", tablen + 1); t.out += '\n';
      t.out += f->name; t.out += '\n';
      if (tablen) { t.out += f->table; t.out += '\n'; }
      for (int i = 0; i < f->size; ++i) {
        double v = 0; bool have = false;
        for (auto& p : f->vals) if (p.first == i) { v = p.second; have = true; }
        if (!have) continue;
        if (!f->real) v = (double)(int)v;
        if (!(v != 0 || std::isnan(v))) continue;
        t.num(i, "suf.index", f->size); t.out += ' ';
        t.out += f->real ? g16(v) : std::to_string((int)v);
        t.out += '\n';
      }
    }
  SolEmitted e; e.bytes = std::move(t.out); e.fields = std::move(t.fields);
  return e;
}

namespace {
struct BinOut {
  std::string out;
  std::vector<Field> fields;
  void u32(long v, const char* cls, long bound = -1) {
    uint32_t x = (uint32_t)v;
    if (cls) fields.push_back({out.size(), 4, cls, v, bound});
    out.append((const char*)&x, 4);
  }
  void dbl(double v) { out.append((const char*)&v, 8); }
  void rec(const std::string& payload, const char* cls) { u32((long)payload.size(), cls); out += payload; u32((long)payload.size(), cls); }
};
}  // namespace

SolEmitted emit_sol_binary(const Sol& s, const SolBinOpts& o) {
  BinOut b;
  b.rec("binary", "bin.magiclen");
  // message: one record per line (blank lines become a single space, like the text writer)
  {
    std::string m = s.message;
    size_t p = 0;
    while (p <= m.size()) {
      size_t q = m.find('\n', p);
      std::string line = m.substr(p, q == std::string::npos ? std::string::npos : q - p);
      if (q == std::string::npos && line.empty()) break;
      if (line.empty()) line = " ";
      b.rec(line, "bin.msglen");
      if (q == std::string::npos) break;
      p = q + 1;
    }
    b.u32(0, "bin.msgend"); b.u32(0, "bin.msgend");
  }
  size_t nduals = s.y.size(), nprimals = s.x.size();
  bool with_opts = o.with_options && s.options.size() >= 3;
  if (with_opts) {
    // [L]"Options" N o1..oN' ncons nduals nvars nprimals [vbtol] [L]   (N' = N-2 in the vbtol form)
    std::string pay = "Options";
    BinOut t;
    long N = (long)s.options.size();
    bool vb = s.options[1] == 3 && N >= 5;
    size_t base = b.out.size() + 4 + 7;
    auto put = [&](long v, const char* cls, long bound = -1) {
      uint32_t x = (uint32_t)v;
      b.fields.push_back({base + t.out.size(), 4, cls, v, bound});
      t.out.append((const char*)&x, 4);
    };
    put(N, "opt.count", 10);
    long np = vb ? N - 2 : N;
    for (long i = 0; i < np; ++i) put(s.options[(size_t)i], i == 1 ? "opt.vbtolflag" : "opt.value");
    put(s.ncons, "cnt.ncons", s.ncons); put((long)nduals, "cnt.nduals", s.ncons);
    put(s.nvars, "cnt.nvars", s.nvars); put((long)nprimals, "cnt.nprimals", s.nvars);
    if (vb) { double v = 1e-6; t.out.append((const char*)&v, 8); }
    pay += t.out;
    b.u32((long)pay.size(), "bin.optlen"); b.out += pay; b.u32((long)pay.size(), "bin.optlen");
  } else {
    // without an Options record the reader expects full-length vectors
    nduals = (size_t)s.ncons; nprimals = (size_t)s.nvars;
  }
  {
    std::string pay;
    for (size_t i = 0; i < nduals; ++i) { double v = i < s.y.size() ? s.y[i] : 0.0; pay.append((const char*)&v, 8); }
    b.rec(pay, "bin.duallen");
    pay.clear();
    for (size_t i = 0; i < nprimals; ++i) { double v = i < s.x.size() ? s.x[i] : 0.0; pay.append((const char*)&v, 8); }
    b.rec(pay, "bin.primallen");
  }
  if (o.objno_short) {
    b.u32(4, "bin.objnolen"); b.u32(s.objno - 1, "objno.index"); b.u32(4, "bin.objnolen");
  } else {
    b.u32(8, "bin.objnolen"); b.u32(s.objno - 1, "objno.index"); b.u32(s.status, "objno.code"); b.u32(8, "bin.objnolen");
    for (auto& f : s.sufs) {
      std::string vals;
      int nvals = 0;
      for (auto& p : f.vals) {
        int32_t i = p.first; vals.append((const char*)&i, 4);
        if (f.real) { double v = p.second; vals.append((const char*)&v, 8); }
        else { int32_t v = (int32_t)p.second; vals.append((const char*)&v, 4); }
        ++nvals;
      }
      long namelen = (long)f.name.size() + 1;
      long tablen = f.table.empty() ? 0 : (long)f.table.size() + 1;
      long L = 24 + namelen + tablen + (long)vals.size();
      b.u32(L, "bin.suflen");
      b.out += "\nSuffix\n";
      b.u32(f.kind | (f.real ? 4 : 0), "suf.kind", 16);
      b.u32(nvals, "suf.n", f.size);
      b.u32(namelen, "suf.namelen", 512);
      b.u32(tablen, "suf.tablen", 512);
      b.out.append(f.name.c_str(), (size_t)namelen);
      if (tablen) b.out.append(f.table.c_str(), (size_t)tablen);
      b.out += vals;
      b.u32(L, "bin.suflen");
    }
  }
  SolEmitted e; e.bytes = std::move(b.out); e.fields = std::move(b.fields);
  return e;
}

}  // namespace iosim
