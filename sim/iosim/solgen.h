// Seeded solutions (.sol content), JSON (de)serialisation, the real writer party
// (mp::WriteSolFile over a real mp suffix set) and an own binary .sol emitter.
#pragma once
#include <string>
#include <utility>
#include <vector>

#include "io_common.h"

namespace iosim {

struct SolSuffix {
  std::string name;
  int kind = 0;          // 0 var, 1 con, 2 obj, 3 problem
  bool real = false;
  std::string table;     // optional value table ("1 bas basic\n2 sup superbasic")
  int size = 0;          // number of items the suffix is declared for
  std::vector<std::pair<int, double>> vals;   // sparse (index, value); zero values are not written
};

struct Sol {
  std::string message;
  std::vector<long> options;
  int nvars = 0, ncons = 0, nlcons = 0, nobjs = 1;
  std::vector<double> x, y;       // empty = absent
  int objno = 1;                  // as given to the writer (file holds objno-1)
  int status = 0;
  std::vector<SolSuffix> sufs;
  Json to_json() const;
  static Sol from_json(const Json& j);
};

struct SolGenOpts {
  bool awkward = true;       // 17-digit values, subnormals, -0
  bool nonfinite = false;    // allow Inf/NaN entries
  bool reader_friendly_options = false;   // only option counts the reader documents (3..9) and no vbtol form
  bool long_vectors = true;  // now and then vectors of several hundred values
};
Sol gen_sol(Rng& rng, const SolGenOpts& o);

// Writer party: the real mp::WriteSolFile through fopen on `path` (shim-visible).
// Returns "" on normal completion, else the exception text.
std::string write_sol_real(const Sol& s, const std::string& path);
std::string write_sol_driver_entry(const Sol& s, const std::string& stub, bool history);

// Own emitters.  Text: re-implementation used only to locate structural fields (cross-checked
// against the real writer's bytes by the caller).  Binary: the layout SOLReader2 expects.
struct SolEmitted {
  std::string bytes;
  std::vector<Field> fields;
};
struct SolBinOpts { bool with_options = true; bool objno_short = false; };
SolEmitted emit_sol_text(const Sol& s);
SolEmitted emit_sol_binary(const Sol& s, const SolBinOpts& o);

}  // namespace iosim
