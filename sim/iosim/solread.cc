#include "solread.h"

#include <cxxabi.h>
#include <typeinfo>

#include "mp/sol-reader2.h"
#include "mp/sol-reader2.hpp"

extern "C" {
#include "api/c/sol-handler-c.h"
}
#include "api/c/sol-handler-c-impl.h"
#include "mp/nl-solver.h"
#include "api/c/nl-solver-c.h"
#include "api/c/nl-model-c.h"
#include "../core/worker.h"

namespace iosim {
namespace {

class QuietUtils : public mp::NLUtils {
 public:
  void log_message(const char*, ...) override {}
  void log_warning(const char*, ...) override {}
};

class SolRec : public mp::SOLHandler {
 public:
  const SolReadConfig& cfg;
  SolReadResult& r;
  size_t step = 0;
  SolRec(const SolReadConfig& c, SolReadResult& rr) : cfg(c), r(rr) {}

  void fail(const char* cls, const std::string& key, const std::string& detail) {
    if (!r.viol_class.empty()) return;
    r.viol_class = cls; r.viol_key = key; r.viol_detail = detail;
  }

  mp::NLHeader Header() const {
    mp::NLHeader h;
    h.num_vars = cfg.nvars; h.num_algebraic_cons = cfg.ncons; h.num_logical_cons = cfg.nlcons;
    return h;
  }
  void OnSolveMessage(const char* s, int nbs) {
    ++r.msg_calls;
    if (r.got_msg) fail("PROTOCOL", "OnSolveMessage.twice", "solve message delivered twice");
    r.got_msg = true; r.message = s ? s : ""; r.nbs = nbs;
    if (!s) fail("PROTOCOL", "OnSolveMessage.null", "null message");
  }
  int OnAMPLOptions(const AMPLOptions& ao) {
    ++r.opts_calls;
    r.got_opts = true; r.options = ao.options_; r.has_vbtol = ao.has_vbtol_; r.vbtol = ao.vbtol_;
    return cfg.options_rv;
  }
  template <class VR> void OnDualSolution(VR& rd) {
    if (rd.Size() > cfg.ncons) fail("OFFERED_TOO_MANY", "duals", "offered " + std::to_string(rd.Size()) + " dual values for " + std::to_string(cfg.ncons) + " constraints");
    consume(rd, 'y');
  }
  template <class VR> void OnPrimalSolution(VR& rd) {
    if (rd.Size() > cfg.nvars) fail("OFFERED_TOO_MANY", "primals", "offered " + std::to_string(rd.Size()) + " primal values for " + std::to_string(cfg.nvars) + " variables");
    consume(rd, 'x');
  }
  void OnObjno(int v) { if (r.got_objno) fail("PROTOCOL", "OnObjno.twice", "objno delivered twice"); r.got_objno = true; r.objno = v; }
  void OnSolveCode(int v) { if (r.got_code) fail("PROTOCOL", "OnSolveCode.twice", "solve code delivered twice"); r.got_code = true; r.code = v; }
  template <class SR> void OnIntSuffix(SR& sr) { suffix(sr, 'i'); }
  template <class SR> void OnDblSuffix(SR& sr) { suffix(sr, 'd'); }

 private:
  static void put(VecRec& v, double x) { v.vals.push_back(x); }
  template <class T> static void put(VecRec& v, const std::pair<int, T>& p) { v.idx.push_back(p.first); v.vals.push_back((double)p.second); }

  template <class SR> void suffix(SR& sr, char what) {
    if (sr.Size() < 0) fail("PROTOCOL", "suffix.negative-size", "suffix offered with negative size");
    VecRec& v = consume(sr, what);
    v.name = sr.SufInfo().Name(); v.table = sr.SufInfo().Table(); v.sufkind = sr.SufInfo().Kind();
    if (v.sufkind < 0 || v.sufkind > 15) fail("PROTOCOL", "suffix.kind", "suffix kind " + std::to_string(v.sufkind));
    bool real = (v.sufkind & 4) != 0;
    if (real != (what == 'd')) fail("PROTOCOL", "suffix.kind-vs-callback", "kind says " + std::string(real ? "real" : "int") + " but delivered through the other callback");
  }

  template <class VR> VecRec& consume(VR& rd, char what) {
    r.vecs.emplace_back();
    VecRec& v = r.vecs.back();
    v.what = what; v.offered = rd.Size();
    ConsumerStep st;
    if (step < cfg.script.size()) st = cfg.script[step];
    ++step;
    v.mode = st.mode;
    long budget = st.mode == "all" ? (long)v.offered : st.mode == "none" || st.mode == "counted" ? 0 : std::min((long)st.k, (long)v.offered);
    long cap = 200000;   // a hostile count cannot make the consumer loop forever: reads stop at end of file anyway
    while (rd.Size() > 0 && budget > 0 && cap-- > 0) {
      int before = rd.Size();
      auto val = rd.ReadNext();
      put(v, val);
      v.st.push_back((int)rd.ReadResult());
      if (rd.Size() >= before) { fail("PROTOCOL", "VecReader.size-not-decreasing", "Size() did not decrease after ReadNext"); break; }
      --budget;
    }
    if (st.mode == "counted") {      // exactly the announced number of reads, whatever happens (the C API's default handlers do this)
      for (long k = 0; k < (long)v.offered && k < 200000; ++k) {
        auto val = rd.ReadNext();
        put(v, val);
        v.st.push_back((int)rd.ReadResult());
      }
    }
    if (st.mode == "seterr" && rd.Size() > 0) rd.SetError(NLW2_SOLRead_Bad_Suffix, "consumer refuses the rest");
    // a consumer that reads the whole vector and then rejects it (an index out of its range, a value it cannot use), in its own words
    if (st.mode == "seterr_end" && rd.Size() == 0 && rd.ReadResult() == NLW2_SOLRead_OK) {
      rd.SetError(NLW2_SOLRead_Bad_Suffix, consumer_message(st.k));
      if (r.consumer_rejected.empty()) { r.consumer_rejected = consumer_message(st.k); r.consumer_rejected_code = (int)NLW2_SOLRead_Bad_Suffix; }
    }
    v.final_status = (int)rd.ReadResult();
    v.left = rd.Size();
    return v;
  }
};


// ---- the same recording consumer as a C callback table (api/c/sol-handler-c.h): the library wraps it in
// NLW2_SOLHandler_C_Impl, so the wrapper's own code (option copying, suffix info, the NLW2_Read* helpers) is a party too
}  // namespace
const char* consumer_message(int k) {
  static const char* msgs[] = {"consumer rejects the vector", "index 100% out of range", "value of '%s' not usable: %s%s%s%n", "bad element %d (%5.2f) %s", "{} {0} {:>10}", "rejected"};
  return msgs[(unsigned)k % 6];
}
namespace {
struct CRec {
  const SolReadConfig* cfg; SolReadResult* r; size_t step = 0;
  void fail(const char* cls, const std::string& key, const std::string& detail) {
    if (!r->viol_class.empty()) return;
    r->viol_class = cls; r->viol_key = key; r->viol_detail = detail;
  }
  ConsumerStep next() { ConsumerStep st; if (step < cfg->script.size()) st = cfg->script[step]; ++step; return st; }
};
NLHeader_C c_header(void* p) {
  CRec* c = (CRec*)p;
  NLHeader_C h; memset(&h, 0, sizeof h);
  h.pi.num_vars = c->cfg->nvars; h.pi.num_algebraic_cons = c->cfg->ncons; h.pi.num_logical_cons = c->cfg->nlcons;
  return h;
}
void c_msg(void* p, const char* s, int nbs) {
  CRec* c = (CRec*)p; SolReadResult& r = *c->r;
  ++r.msg_calls;
  if (r.got_msg) c->fail("PROTOCOL", "OnSolveMessage.twice", "solve message delivered twice");
  r.got_msg = true; r.message = s ? s : ""; r.nbs = nbs;
}
int c_opts(void* p, AMPLOptions_C ao) {
  CRec* c = (CRec*)p; SolReadResult& r = *c->r;
  ++r.opts_calls; r.got_opts = true;
  int n = ao.n_options_;
  if (n < 0 || n > MAX_AMPL_OPTIONS + 5) c->fail("PROTOCOL", "AMPLOptions_C.count", "C handler offered " + std::to_string(n) + " option values");
  r.options.assign(ao.options_, ao.options_ + std::max(0, std::min(n, (int)MAX_AMPL_OPTIONS)));
  r.has_vbtol = ao.has_vbtol_ != 0; r.vbtol = ao.vbtol_;
  return c->cfg->options_rv;
}
void c_vec(void* p, int nvals, void* api, char what) {
  CRec* c = (CRec*)p; SolReadResult& r = *c->r;
  auto* vr = static_cast<mp::VecReader<double>*>(api);     // what the wrapper hands out (sol-handler-c-impl.h)
  int limit = what == 'y' ? c->cfg->ncons : c->cfg->nvars;
  if (nvals > limit) c->fail("OFFERED_TOO_MANY", what == 'y' ? "duals" : "primals", "offered " + std::to_string(nvals) + " values for " + std::to_string(limit) + " items (C handler)");
  r.vecs.emplace_back(); VecRec& v = r.vecs.back();
  v.what = what; v.offered = nvals;
  ConsumerStep st = c->next(); v.mode = st.mode + "/c";
  long n = st.mode == "none" ? 0 : (st.mode == "some" || st.mode == "seterr") ? std::min((long)st.k, (long)nvals) : (long)nvals;
  for (long k = 0; k < n && k < 200000; ++k) {
    double x = NLW2_ReadSolVal(api);
    v.vals.push_back(x); v.st.push_back((int)vr->ReadResult());
  }
  v.final_status = (int)vr->ReadResult(); v.left = vr->Size();
}
void c_dual(void* p, int n, void* api) { c_vec(p, n, api, 'y'); }
void c_primal(void* p, int n, void* api) { c_vec(p, n, api, 'x'); }
void c_objno(void* p, int v) { CRec* c = (CRec*)p; if (c->r->got_objno) c->fail("PROTOCOL", "OnObjno.twice", "objno delivered twice"); c->r->got_objno = true; c->r->objno = v; }
void c_code(void* p, int v) { CRec* c = (CRec*)p; if (c->r->got_code) c->fail("PROTOCOL", "OnSolveCode.twice", "solve code delivered twice"); c->r->got_code = true; c->r->code = v; }
template <class El> void c_suf(void* p, NLW2_SuffixInfo_C si, void* api, char what) {
  CRec* c = (CRec*)p; SolReadResult& r = *c->r;
  auto* sr = static_cast<mp::SuffixReader<El>*>(api);
  r.vecs.emplace_back(); VecRec& v = r.vecs.back();
  v.what = what; v.offered = sr->Size();
  v.name = si.name_ ? si.name_ : ""; v.table = si.table_ ? si.table_ : ""; v.sufkind = si.kind_;
  if (v.sufkind < 0 || v.sufkind > 15) c->fail("PROTOCOL", "suffix.kind", "suffix kind " + std::to_string(v.sufkind));
  ConsumerStep st = c->next(); v.mode = st.mode + "/c";
  long budget = st.mode == "none" ? 0 : (st.mode == "some" || st.mode == "seterr") ? st.k : 200000;
  while (budget-- > 0 && (what == 'i' ? NLW2_IntSuffixNNZ(api) : NLW2_DblSuffixNNZ(api)) > 0) {
    int i = 0; double x = 0;
    if (what == 'i') { int iv = 0; NLW2_ReadIntSuffixEntry(api, &i, &iv); x = iv; } else NLW2_ReadDblSuffixEntry(api, &i, &x);
    v.idx.push_back(i); v.vals.push_back(x); v.st.push_back((int)sr->ReadResult());
  }
  if (st.mode == "seterr" && sr->Size() > 0) { if (what == 'i') NLW2_ReportIntSuffixError(api, "consumer refuses the rest"); else NLW2_ReportDblSuffixError(api, "consumer refuses the rest"); }
  v.final_status = (int)sr->ReadResult(); v.left = sr->Size();
}
void c_isuf(void* p, NLW2_SuffixInfo_C si, void* api) { c_suf<int>(p, si, api, 'i'); }
void c_dsuf(void* p, NLW2_SuffixInfo_C si, void* api) { c_suf<double>(p, si, api, 'd'); }

std::string demangled(const std::type_info& ti) {
  int st = 0;
  char* d = abi::__cxa_demangle(ti.name(), nullptr, nullptr, &st);
  std::string s = (st == 0 && d) ? d : ti.name();
  free(d);
  return s;
}

}  // namespace

SolReadResult read_sol(const std::string& path, const SolReadConfig& cfg) {
  SolReadResult r;
  SolRec h(cfg, r);
  QuietUtils utils;
  try {
    if (cfg.easy_party && cfg.nvars > 0 && path.size() > 4) {
      // The library's own consumer: an NLModel with the declared numbers of columns / rows (integer and continuous
      // columns interleaved, so that the NL order is a proper permutation), loaded into an NLSolver whose stub is this
      // .sol file's; NLSolver::ReadSolution() reads the file with SOLHandler_Easy and un-permutes.
      const int n = cfg.nvars, m = std::max(0, cfg.ncons);
      std::vector<double> lb((size_t)n, 0.0), ub((size_t)n, 10.0), c((size_t)n, 1.0), rlb((size_t)m, -5.0), rub((size_t)m, 50.0), aval;
      std::vector<int> ty((size_t)n), aidx; std::vector<size_t> astart;
      for (int j = 0; j < n; ++j) ty[(size_t)j] = (j % 2 == 0);
      if ((int)cfg.easy_types.size() == n) for (int j = 0; j < n; ++j) { int t = cfg.easy_types[(size_t)j]; ty[(size_t)j] = t != 0; if (t == 1) ub[(size_t)j] = 1.0; }
      for (int i = 0; i < m; ++i) { astart.push_back(aidx.size()); aidx.push_back(i % n); aval.push_back(2.0 + i); }
      std::string sol_bytes; sim::read_file(path, sol_bytes);          // LoadModel rewrites the stub's files: keep the .sol under test
      mp::NLModel mdl("c14");
      mdl.SetCols({n, lb.data(), ub.data(), ty.data()});
      mdl.SetRows(m, rlb.data(), rub.data(), {m, NLW2_MatrixFormatRowwise, aidx.size(), astart.data(), aidx.data(), aval.data()});
      mdl.SetLinearObjective(NLW2_ObjSenseMinimize, 0.0, c.data());
      mp::NLSolver nls(&utils);
      nls.SetFileStub(path.substr(0, path.size() - 4));
      if (cfg.easy_history) {
        // history: the same solver object was used for a bigger model of mixed column classes (its NL order is a permutation)
        const int pn = n + 3;
        std::vector<double> plb((size_t)pn, 0.0), pub((size_t)pn, 7.0), pc((size_t)pn, 2.0);
        std::vector<int> pty((size_t)pn); for (int j = 0; j < pn; ++j) pty[(size_t)j] = (j % 3 != 2);
        mp::NLModel prev("c14prev");
        prev.SetCols({pn, plb.data(), pub.data(), pty.data()});
        prev.SetLinearObjective(NLW2_ObjSenseMinimize, 0.0, pc.data());
        (void)nls.LoadModel(static_cast<const mp::NLModel&>(prev));
      }
      if (!nls.LoadModel(static_cast<const mp::NLModel&>(mdl))) { r.status = "easy-load-failed"; r.what = nls.GetErrorMessage(); }
      else {
        sim::write_file(path, sol_bytes);
        mp::NLSolution sol = nls.ReadSolution();
        // (NLSolver does not hand out the reader's code: an empty error message means the reader returned OK.  A file
        //  without an objno line is read successfully and leaves the NLSolution without a solve result.)
        const std::string em = nls.GetErrorMessage();
        r.rc = em.empty() ? 0 : 3; r.msg = em;
        if (em.empty()) {
          r.got_msg = true; r.message = sol.solve_message_; r.nbs = sol.nbs_; r.got_code = (bool)sol; r.code = sol.solve_result_;
          if (!sol.x_.empty() && (int)sol.x_.size() != n) h.fail("EASY_SIZE", "x", "NLSolver::ReadSolution returned " + std::to_string(sol.x_.size()) + " primal values for " + std::to_string(n) + " columns");
          if ((int)sol.y_.size() > m) h.fail("EASY_SIZE", "y", "NLSolver::ReadSolution returned " + std::to_string(sol.y_.size()) + " dual values for " + std::to_string(m) + " rows");
          VecRec vx; vx.what = 'x'; vx.offered = (int)sol.x_.size(); vx.vals = sol.x_; vx.st.assign(sol.x_.size(), 0); vx.mode = "easy"; r.vecs.push_back(vx);
          VecRec vy; vy.what = 'y'; vy.offered = (int)sol.y_.size(); vy.vals = sol.y_; vy.st.assign(sol.y_.size(), 0); vy.mode = "easy"; r.vecs.push_back(vy);
          for (const auto& sf : sol.suffixes_) r.easy_sufs.push_back({sf.name_, sf.table_, sf.kind_, sf.values_});
          // the permutation the writer used, asked from the model itself (a second stub: the one under test stays as it is)
          mp::NLModel::PreprocessData pd;
          std::string werr = mdl.WriteNL(path.substr(0, path.size() - 4) + "_perm", NLW2_MakeNLOptionsBasic_C_Default(), utils, pd);
          if (werr.empty()) r.easy_vperm = pd.vperm_;
        }
      }
    } else if (cfg.easy_c_party && cfg.nvars > 0 && path.size() > 4) {
      // The C flavour of the same consumer, with a history: one NLW2_NLSolver_C object reads an earlier solution of the same
      // model (two suffixes of its own) and then the file under test; what it returns for the second must be the second's.
      const int n = cfg.nvars, m = std::max(0, cfg.ncons);
      std::vector<double> lb((size_t)n, 0.0), ub((size_t)n, 10.0), c((size_t)n, 1.0), rlb((size_t)m, -5.0), rub((size_t)m, 50.0), aval;
      std::vector<int> ty((size_t)n), aidx; std::vector<size_t> astart;
      for (int j = 0; j < n; ++j) ty[(size_t)j] = (j % 2 == 0);
      if ((int)cfg.easy_types.size() == n) for (int j = 0; j < n; ++j) { int t = cfg.easy_types[(size_t)j]; ty[(size_t)j] = t != 0; if (t == 1) ub[(size_t)j] = 1.0; }
      for (int i = 0; i < m; ++i) { astart.push_back(aidx.size()); aidx.push_back(i % n); aval.push_back(2.0 + i); }
      std::string sol_bytes; sim::read_file(path, sol_bytes);
      std::string out_cap, err_cap;
      sim::capture_begin();      // the default C utilities log to stdout / stderr
      NLW2_NLModel_C cm = NLW2_MakeNLModel_C("c14c");
      NLW2_SetCols_C(&cm, n, lb.data(), ub.data(), ty.data());
      NLW2_SetRows_C(&cm, m, rlb.data(), rub.data(), NLW2_MatrixFormatRowwise, aidx.size(), astart.data(), aidx.data(), aval.data());
      NLW2_SetLinearObjective_C(&cm, NLW2_ObjSenseMinimize, 0.0, c.data());
      NLW2_NLUtils_C cu = NLW2_MakeNLUtils_C_Default();
      NLW2_NLSolver_C cs = NLW2_MakeNLSolver_C(&cu);
      const std::string stub = path.substr(0, path.size() - 4);
      NLW2_SetFileStub_C(&cs, stub.c_str());
      if (!NLW2_LoadNLModel_C(&cs, &cm)) { r.status = "easy-load-failed"; r.what = NLW2_GetErrorMessage_C(&cs); }
      else {
        std::string prior = "earlier solution\n\nOptions\n3\n0\n1\n0\n" + std::to_string(m) + "\n0\n" + std::to_string(n) + "\n" + std::to_string(n) + "\n";
        for (int j = 0; j < n; ++j) prior += std::to_string(j + 0.5) + "\n";
        prior += "objno 0 0\nsuffix 0 1 9 0 0\nhistsufv\n0 7\nsuffix 5 1 9 0 0\nhistsufc\n0 2.5\n";
        if (m == 0) prior.resize(prior.find("suffix 5"));
        sim::write_file(path, prior);
        NLW2_NLSolution_C s0 = NLW2_ReadSolution_C(&cs); (void)s0;
        sim::write_file(path, sol_bytes);
        NLW2_NLSolution_C s1 = NLW2_ReadSolution_C(&cs);
        const std::string em = NLW2_GetErrorMessage_C(&cs) ? NLW2_GetErrorMessage_C(&cs) : "";
        r.rc = em.empty() ? 0 : 3; r.msg = em;
        if (r.rc == 0) {
          r.got_msg = true; r.message = s1.solve_message_ ? s1.solve_message_ : ""; r.nbs = s1.nbs_; r.got_code = s1.solve_result_ > -2; r.code = s1.solve_result_;
          VecRec vx; vx.what = 'x'; vx.offered = s1.n_primal_values_; vx.vals.assign(s1.x_, s1.x_ + s1.n_primal_values_); vx.st.assign(vx.vals.size(), 0); vx.mode = "easy"; r.vecs.push_back(vx);
          VecRec vy; vy.what = 'y'; vy.offered = s1.n_dual_values_; vy.vals.assign(s1.y_, s1.y_ + s1.n_dual_values_); vy.st.assign(vy.vals.size(), 0); vy.mode = "easy"; r.vecs.push_back(vy);
          for (int k = 0; k < s1.nsuf_; ++k) {
            const NLW2_NLSuffix_C& sf = s1.suffixes_[k];
            SolReadResult::EasySuf es; es.name = sf.name_ ? sf.name_ : ""; es.table = sf.table_ ? sf.table_ : ""; es.kind = sf.kind_;
            es.values.assign(sf.values_, sf.values_ + sf.numval_);
            r.easy_sufs.push_back(es);
          }
          mp::NLModel::PreprocessData pd;
          std::string werr = static_cast<mp::NLModel*>(cm.p_data_)->WriteNL(stub + "_perm", NLW2_MakeNLOptionsBasic_C_Default(), utils, pd);
          if (werr.empty()) r.easy_vperm = pd.vperm_;
        }
      }
      NLW2_DestroyNLSolver_C(&cs);
      NLW2_DestroyNLUtils_C_Default(&cu);
      NLW2_DestroyNLModel_C(&cm);
      sim::capture_end(out_cap, err_cap);
    } else if (cfg.c_default_party) {
      // The library's default C callback table (what a C client starts from), completed with a Header callback
      CRec crec{&cfg, &r};
      NLW2_SOLHandler_C hc = NLW2_MakeSOLHandler_C_Default();
      hc.p_user_data_ = &crec; hc.Header = c_header;
      std::string out_cap, err_cap;
      sim::capture_begin();      // the default message callback prints
      {
        mp::NLW2_SOLHandler_C_Impl wrapped(&hc);
        auto res = mp::ReadSOLFile(path, wrapped, utils, &r.internal_rv);
        r.rc = (int)res.first; r.msg = res.second;
      }
      sim::capture_end(out_cap, err_cap);
      NLW2_DestroySOLHandler_C_Default(&hc);
      r.got_msg = true; r.message = out_cap;
    } else if (cfg.c_party) {
      CRec crec{&cfg, &r};
      NLW2_SOLHandler_C hc; memset(&hc, 0, sizeof hc);
      hc.p_user_data_ = &crec; hc.Header = c_header; hc.OnSolveMessage = c_msg; hc.OnAMPLOptions = c_opts;
      hc.OnDualSolution = c_dual; hc.OnPrimalSolution = c_primal; hc.OnObjno = c_objno; hc.OnSolveCode = c_code;
      hc.OnIntSuffix = c_isuf; hc.OnDblSuffix = c_dsuf;
      mp::NLW2_SOLHandler_C_Impl wrapped(&hc);
      auto res = mp::ReadSOLFile(path, wrapped, utils, &r.internal_rv);
      r.rc = (int)res.first; r.msg = res.second;
    } else {
      auto res = mp::ReadSOLFile(path, h, utils, &r.internal_rv);
      r.rc = (int)res.first; r.msg = res.second;
    }
  } catch (const std::bad_alloc&) {
    r.status = "bad_alloc";
  } catch (const std::exception& e) {
    r.status = "std:" + demangled(typeid(e)); r.what = e.what();
  } catch (...) {
    r.status = "unknown";
  }
  // observable hash
  uint64_t hsh = sim::fnv1a(r.status + "|" + std::to_string(r.rc) + "|" + skeleton(r.msg, 200));
  hsh = sim::fnv1a(r.message, hsh);
  for (long o : r.options) hsh = sim::fnv1a(&o, sizeof o, hsh);
  int misc[6] = {r.got_msg, r.got_opts, r.got_objno, r.got_code, r.objno, r.code};
  hsh = sim::fnv1a(misc, sizeof misc, hsh);
  for (auto& v : r.vecs) {
    hsh = sim::fnv1a(&v.what, 1, hsh); hsh = sim::fnv1a(&v.offered, 4, hsh);
    for (size_t i = 0; i < v.vals.size(); ++i)
      if (v.st[i] == 0) { uint64_t b = dbl_bits(v.vals[i]); hsh = sim::fnv1a(&b, 8, hsh); }   // failed reads return indeterminate values
    for (size_t i = 0; i < v.idx.size(); ++i) if (v.st[i] == 0) hsh = sim::fnv1a(&v.idx[i], 4, hsh);
    for (int s : v.st) hsh = sim::fnv1a(&s, 4, hsh);
    hsh = sim::fnv1a(v.name, hsh); hsh = sim::fnv1a(v.table, hsh);
  }
  r.hash = hsh;
  return r;
}

}  // namespace iosim
