// Reader/consumer party of C14/C05: the real mp::ReadSOLFile (nl-writer2 SOLReader2) with a
// scripted recording SOLHandler.
#pragma once
#include <string>
#include <vector>

#include "io_common.h"

namespace iosim {

// What the consumer does with the i-th vector it is offered.
struct ConsumerStep {
  std::string mode = "all";   // all | some (reads k values, leaves the rest) | none | seterr (reads k values, then SetError)
  int k = 0;
};

struct SolReadConfig {
  int nvars = 0, ncons = 0, nlcons = 0;     // what the handler's Header() declares
  std::vector<ConsumerStep> script;         // step i applies to the i-th offered vector; beyond the list: "all"
  int options_rv = 0;                       // return value of OnAMPLOptions
  bool c_party = false;                     // the handler is a C callback table behind the library's NLW2_SOLHandler_C_Impl wrapper
  bool easy_party = false;                  // the handler is the library's own SOLHandler_Easy: NLSolver::ReadSolution() for an NLModel of the declared size
  bool c_default_party = false;             // the consumer is the library's own default C callback table (NLW2_MakeSOLHandler_C_Default) + a Header callback
  bool easy_c_party = false;                // NLW2_ReadSolution_C on an NLW2_NLSolver_C object that has read another solution (with suffixes) before
  bool easy_history = false;                // easy party: the NLSolver object has loaded another model (mixed column classes, so permuted) before this one
  std::vector<int> easy_types;              // column classes of that model (0 continuous, 1 binary, 2 integer); empty: integer / continuous alternating
};

struct VecRec {
  char what = 'x';            // 'y' duals, 'x' primals, 'i' int suffix, 'd' real suffix
  int offered = 0;
  std::vector<int> idx;       // suffix element indices
  std::vector<double> vals;
  std::vector<int> st;        // reader status after each ReadNext (0 = OK)
  int final_status = 0;
  int left = 0;               // Size() when the consumer stopped
  std::string name, table;
  int sufkind = 0;
  std::string mode;
};

struct SolReadResult {
  std::string status = "returned";    // returned | bad_alloc | std:<type> | unknown
  std::string what;
  int rc = -1;
  std::string msg;
  int internal_rv = 0;
  bool got_msg = false; std::string message; int nbs = 0; int msg_calls = 0;
  bool got_opts = false; std::vector<long> options; bool has_vbtol = false; double vbtol = 0; int opts_calls = 0;
  bool got_objno = false, got_code = false; int objno = 0, code = 0;
  std::vector<VecRec> vecs;
  std::string viol_class, viol_key, viol_detail;
  uint64_t hash = 0;
  // easy party: the suffixes of the returned NLSolution (dense, the caller's order) and the writer's column permutation
  struct EasySuf { std::string name, table; int kind = 0; std::vector<double> values; };
  std::vector<EasySuf> easy_sufs;
  std::vector<int> easy_vperm;              // caller's column j is written at NL position easy_vperm[j]
  std::string consumer_rejected;            // the consumer read a whole vector and then set an error with this text (first time)
  int consumer_rejected_code = 0;           // ... and this code
};

const char* consumer_message(int k);

SolReadResult read_sol(const std::string& path, const SolReadConfig& cfg);

}  // namespace iosim
