// Independent strict parser for text .sol files as the driver side writes them
// (mp::WriteSolFile).  Part of the trusted base of the C04/C08/C09/C10/C12 oracles.
#pragma once
#include <cmath>
#include <cstdlib>
#include <cstring>
#include <string>
#include <vector>

namespace oracle {

struct SolSuffix {
  int kind = 0;         // raw kind field (bits: 0-1 item kind, 4 = float)
  int n = 0;
  std::string name;
  std::string table;
  std::vector<std::pair<int, double>> entries;
  int item_kind() const { return kind & 3; }
  bool is_float() const { return (kind & 4) != 0; }
};

struct SolFile {
  bool ok = false;
  std::string error;               // first deviation found
  std::vector<std::string> message;  // lines before the terminating empty line
  std::vector<long> options;
  bool has_vbtol = false;
  double vbtol = 0;
  long ncons = -1, nduals = -1, nvars = -1, nprimals = -1;
  std::vector<double> duals, primals;
  bool has_objno = false;
  long objno = 0, code = -1;
  std::vector<SolSuffix> suffixes;
  std::string message_text() const {
    std::string s;
    for (auto& l : message) { s += l; s += '\n'; }
    return s;
  }
  const SolSuffix* find_suffix(const std::string& name, int item_kind) const {
    for (auto& s : suffixes) if (s.name == name && s.item_kind() == item_kind) return &s;
    return nullptr;
  }
};

namespace detail {
inline bool parse_long(const std::string& s, long& v) {
  if (s.empty()) return false;
  char* e = nullptr;
  errno = 0;
  v = strtol(s.c_str(), &e, 10);
  return errno == 0 && e && *e == 0 && !isspace((unsigned char)s[0]);
}
inline bool parse_double(const std::string& s, double& v) {
  if (s.empty() || isspace((unsigned char)s[0])) return false;
  char* e = nullptr;
  v = strtod(s.c_str(), &e);
  return e && *e == 0 && e != s.c_str();
}
}  // namespace detail

inline SolFile parse_sol(const std::string& text) {
  using namespace detail;
  SolFile f;
  std::vector<std::string> lines;
  {
    size_t p = 0;
    while (p < text.size()) {
      size_t q = text.find('\n', p);
      if (q == std::string::npos) { f.error = "last line not newline-terminated (truncated file)"; lines.push_back(text.substr(p)); p = text.size(); break; }
      lines.push_back(text.substr(p, q - p));
      p = q + 1;
    }
    if (!f.error.empty()) return f;
  }
  size_t i = 0;
  auto need = [&](const char* what) -> bool {
    if (i >= lines.size()) { f.error = std::string("file ends before ") + what; return false; }
    return true;
  };
  // message: up to the first empty line
  for (;;) {
    if (!need("end of message (empty line)")) return f;
    if (lines[i].empty()) { ++i; break; }
    f.message.push_back(lines[i++]);
  }
  // readers skip further blank lines between the message terminator and 'Options'
  while (i < lines.size() && (lines[i].empty() || lines[i] == "\r")) ++i;
  if (!need("Options line")) return f;
  if (lines[i] != "Options") { f.error = "expected 'Options', got '" + lines[i].substr(0, 40) + "'"; return f; }
  ++i;
  // What follows is either <nopts> + options + 4 counts, or (no options) the 4 counts directly.
  // The writer emits options only when the NL header had them; both shapes are accepted, decided
  // by the total number of numeric lines before the 'objno' line.
  // Collect numeric lines until 'objno' / 'suffix' / EOF.
  std::vector<std::string> num;
  size_t j = i;
  while (j < lines.size() && lines[j].compare(0, 6, "objno ") != 0 && lines[j].compare(0, 7, "suffix ") != 0) num.push_back(lines[j++]);
  // Try: first number is option count k (0..9) followed by k (+1 if vbtol) options then 4 counts
  auto try_layout = [&](bool with_opts) -> bool {
    SolFile g = f;
    size_t p = 0;
    auto get_long = [&](long& v) -> bool { return p < num.size() && parse_long(num[p++], v); };
    if (with_opts) {
      long k;
      if (!get_long(k) || k < 0 || k > 9) return false;
      for (long t = 0; t < k; ++t) { long o; if (!get_long(o)) return false; g.options.push_back(o); }
      if (k >= 2 && g.options[1] == 3) {  // vbtol form
        if (p >= num.size() || !parse_double(num[p++], g.vbtol)) return false;
        g.has_vbtol = true;
      }
    }
    if (!get_long(g.ncons) || !get_long(g.nduals) || !get_long(g.nvars) || !get_long(g.nprimals)) return false;
    if (g.ncons < 0 || g.nvars < 0 || g.nduals < 0 || g.nprimals < 0) return false;
    if ((size_t)(g.nduals + g.nprimals) != num.size() - p) return false;
    for (long t = 0; t < g.nduals; ++t) { double d; if (!parse_double(num[p++], d)) return false; g.duals.push_back(d); }
    for (long t = 0; t < g.nprimals; ++t) { double d; if (!parse_double(num[p++], d)) return false; g.primals.push_back(d); }
    f = g;
    return true;
  };
  if (!try_layout(true) && !try_layout(false)) {
    f.error = "counts/vector section malformed (" + std::to_string(num.size()) + " lines before objno)";
    return f;
  }
  i = j;
  if (!need("objno line")) return f;
  {
    const std::string& l = lines[i];
    if (l.compare(0, 6, "objno ") != 0) { f.error = "expected 'objno', got '" + l.substr(0, 40) + "'"; return f; }
    size_t sp = l.find(' ', 6);
    if (sp == std::string::npos || !parse_long(l.substr(6, sp - 6), f.objno) || !parse_long(l.substr(sp + 1), f.code)) {
      f.error = "malformed objno line '" + l + "'"; return f;
    }
    f.has_objno = true;
    ++i;
  }
  while (i < lines.size()) {
    const std::string& l = lines[i];
    if (l.compare(0, 7, "suffix ") != 0) { f.error = "expected 'suffix', got '" + l.substr(0, 40) + "'"; return f; }
    SolSuffix s;
    long kind, n, namelen, tablen, tablines;
    {
      std::vector<std::string> tok;
      size_t p = 7;
      while (p <= l.size()) { size_t q = l.find(' ', p); if (q == std::string::npos) q = l.size(); tok.push_back(l.substr(p, q - p)); p = q + 1; }
      if (tok.size() != 5 || !parse_long(tok[0], kind) || !parse_long(tok[1], n) || !parse_long(tok[2], namelen) ||
          !parse_long(tok[3], tablen) || !parse_long(tok[4], tablines)) { f.error = "malformed suffix header '" + l + "'"; return f; }
    }
    ++i;
    if (!need("suffix name")) return f;
    s.kind = (int)kind; s.n = (int)n; s.name = lines[i++];
    if ((long)s.name.size() + 1 != namelen) { f.error = "suffix name length mismatch for '" + s.name + "'"; return f; }
    if (n < 0 || tablen < 0 || tablines < 0) { f.error = "negative suffix header field"; return f; }
    for (long t = 0; t < tablines; ++t) {
      if (!need("suffix table line")) return f;
      s.table += lines[i++];
      s.table += '\n';
    }
    if (tablines > 0 && (long)s.table.size() != tablen) { f.error = "suffix table length mismatch for '" + s.name + "'"; return f; }
    for (long t = 0; t < n; ++t) {
      if (!need("suffix value line")) return f;
      const std::string& v = lines[i++];
      size_t sp = v.find(' ');
      long idx; double val;
      if (sp == std::string::npos || !parse_long(v.substr(0, sp), idx) || !parse_double(v.substr(sp + 1), val)) {
        f.error = "malformed suffix value line '" + v.substr(0, 40) + "' in suffix " + s.name; return f;
      }
      s.entries.push_back({(int)idx, val});
    }
    f.suffixes.push_back(std::move(s));
  }
  f.ok = true;
  return f;
}

}  // namespace oracle
