#!/usr/bin/env python3
"""Supervisor for the deterministic-simulation checks.

  ./run <Cxx> [--tier quick|thorough] [--seed N] [--budget-s S] [--workers W]
  ./run <Cxx> --replay <file>

Builds the engine from /repo's current working tree, runs seeded scenarios on a pool of
single-threaded worker processes, gates + minimises every violation, matches it against
known-findings.txt, writes evidence/<id>.json.  Exit 0 = property held on everything
explored (known findings are printed, not raised); exit 1 = VIOLATION; exit 2 = harness
problem (build failure, non-deterministic replay).
"""
import argparse, collections, fnmatch, glob, json, os, re, select, signal, subprocess, sys, time

ROOT = os.path.dirname(os.path.abspath(__file__))
sys.path.insert(0, ROOT)
from propcfg import PROPS, COMPONENTS  # noqa: E402

# The registered checks always build /repo into /verif/build.  Studies of seeded changes may point the same machinery
# at a scratch worktree (VERIF_REPO, a path ending in /repo) with its own build directory (VERIF_BUILD) so that several
# can run side by side without touching /repo.
REPO = os.environ.get('VERIF_REPO') or '/repo'
BUILD = os.environ.get('VERIF_BUILD') or os.path.join(ROOT, 'build')
# evidence/ and replays/ normally live in /verif; runs against a deliberately broken tree (seeded changes)
# set VERIF_OUT_DIR so that they do not overwrite the committed files.
OUT = os.environ.get('VERIF_OUT_DIR') or ROOT
HANG_S = float(os.environ.get('VERIF_HANG_S', '60'))


def log(*a):
    print(*a, flush=True)


# --------------------------------------------------------------------------- build
def build(engine):
    t0 = time.time()
    cmd = ['make', '-C', ROOT, '-j' + os.environ.get('VERIF_MAKE_J', '16')]
    if os.environ.get('VERIF_REPO') or os.environ.get('VERIF_BUILD'):     # scratch-worktree studies only; the registered checks use the Makefile's defaults
        cmd += ['REPO=' + REPO, 'B=' + BUILD]
    r = subprocess.run(cmd + [engine], stdout=subprocess.PIPE, stderr=subprocess.STDOUT, text=True)
    if r.returncode != 0:
        log('BUILD FAILED for engine', engine)
        log(r.stdout[-6000:])
        sys.exit(2)
    return time.time() - t0


# --------------------------------------------------------------------------- worker pool
class Worker:
    counter = 0

    def stderr_text(self):
        try:
            self.errf.flush()
            self.errf.seek(0, 2)
            n = self.errf.tell()
            self.errf.seek(max(0, n - 8000))
            t = self.errf.read().decode('utf-8', 'replace')
        except Exception:
            t = ''
        try:
            self.errf.close()
            os.unlink(self.errpath)
        except Exception:
            pass
        return t

    def __init__(self, engine, prop, tier, seed, start, count, time_limit):
        self.start, self.count = start, count
        self.cur = None
        self.last_line_t = time.time()
        cmd = [os.path.join(BUILD, engine), 'gen', '--prop', prop, '--tier', tier, '--seed', str(seed),
               '--start', str(start), '--step', '1', '--count', str(count)]
        if time_limit:
            cmd += ['--time-limit', '%.1f' % time_limit]
        Worker.counter += 1
        self.errpath = '/dev/shm/verif-werr.%d.%d' % (os.getpid(), Worker.counter)
        self.errf = open(self.errpath, 'w+b')
        self.p = subprocess.Popen(cmd, stdout=subprocess.PIPE, stderr=self.errf, bufsize=0)
        os.set_blocking(self.p.stdout.fileno(), False)
        self.buf = b''
        self.done_clean = False


def san_log(pid):
    txt = ''
    for f in glob.glob('/dev/shm/verif-san.%d*' % pid):
        try:
            txt += open(f, errors='replace').read()
            os.unlink(f)
        except OSError:
            pass
    return txt


def cleanup_scratch(pid):
    base = os.environ.get('VERIF_SCRATCH') or '/dev/shm'
    d = '%s/verif.%d' % (base, pid)
    if os.path.isdir(d):
        subprocess.run(['rm', '-rf', d])
    try:
        os.unlink('/dev/shm/vs.%07d' % (pid % 10000000))     # the fixed-length name the worker reached it through
    except OSError:
        pass


def crash_sig(prop, rc, santxt):
    m = re.search(r'ERROR: (AddressSanitizer|UndefinedBehaviorSanitizer|LeakSanitizer): ([^\n]*)', santxt)
    kind = 'exit%d' % rc
    if m:
        kind = m.group(2).split(' on ')[0].split(' at ')[0].strip().replace(' ', '-')[:60]
    else:
        m = re.search(r'runtime error: ([^\n]*)', santxt)
        if m:
            kind = 'ubsan-' + re.sub(r'[^a-zA-Z]+', '-', m.group(1))[:50]
    frame = ''
    if kind == 'stack-overflow':
        # where the stack happens to run out is arbitrary: name the function that recurses (most frequent /repo frame)
        names = collections.Counter()
        for fm in re.finditer(r'#\d+ 0x[0-9a-f]+ in ([^\n]*)', santxt):
            f = fm.group(1)
            if '/repo/' in f:
                fn = re.sub(r'<.*>', '', re.sub(r'\(.*', '', f)).strip().split('::')[-1]
                names[fn + '@' + f.split('/repo/')[-1].split(':')[0]] += 1
        if names:
            return '%s:CRASH:%s:%s' % (prop, kind, names.most_common(1)[0][0])
    for fm in re.finditer(r'#\d+ 0x[0-9a-f]+ in ([^\n]*)', santxt):
        f = fm.group(1)
        if '/repo/' in f:
            frame = re.sub(r'\(.*?\)', '', re.split(r' \S*/repo/', f)[0]).strip()[:80] + '@' + f.split('/repo/')[-1].split(':')[0]
            break
    return '%s:CRASH:%s:%s' % (prop, kind, frame)


def proc_cpu_state(pid):
    """(cpu seconds used so far, scheduler state) of a process, or (None, '?')."""
    try:
        f = open('/proc/%d/stat' % pid).read()
        rest = f[f.rindex(')') + 2:].split()
        return (int(rest[11]) + int(rest[12])) / float(os.sysconf('SC_CLK_TCK')), rest[0]
    except Exception:
        return None, '?'


def starved(w):
    """The wall-clock watchdog is the last resort for a worker that is *blocked*: every simulated run carries its own CPU
    budget, so a worker that is runnable, or that has used CPU since the watchdog last looked, is merely waiting for a core
    on a loaded machine and gets another period (at most ten)."""
    cpu, state = proc_cpu_state(w.p.pid)
    prev = getattr(w, 'wd_cpu', None)
    n = getattr(w, 'wd_extensions', 0)
    w.wd_cpu = cpu
    if cpu is None or n >= 10:
        return False
    if state == 'R' or prev is None or cpu - prev > 0.05:
        w.wd_extensions = n + 1
        w.last_line_t = time.time()
        return True
    return False


def run_pool(engine, prop, tier, seed, total, budget_s, workers, block=1500):
    """Run scenario indices [0,total) (or until the time budget is used) on a pool of workers."""
    t0 = time.time()
    deadline = t0 + budget_s if budget_s else None
    next_start = 0
    active = []
    res = dict(runs=0, nontrivial=0, fps={}, tsigs=set(), viol=[], counters=collections.Counter(), samples=[],
               sim_time=0.0, crashes=0, hangs=0, verdicts=collections.Counter(), sig_counts=collections.Counter())
    pending = []   # blocks to (re)run after a crash: (start, count)

    def spawn():
        nonlocal next_start
        # Runs that end in the CPU budget cost seconds each, crashes cost a process each: once enough of them are on record
        # the verdict of the check is settled (exit 1 after the gate) and going through the rest of the index space only
        # burns time.  (On a tree where the property holds neither counter moves.)
        if res['verdicts'].get('HANG', 0) + res['hangs'] >= 24 or res['crashes'] >= 3000:
            res['stopped_early'] = True
            return None
        if pending:
            s, c = pending.pop()
        else:
            if total is not None and next_start >= total:
                return None
            s = next_start
            c = block if total is None else min(block, total - next_start)
            next_start += c
        tl = None
        if deadline:
            tl = deadline - time.time()
            if tl <= 0.5:
                return None
        return Worker(engine, prop, tier, seed, s, c, tl)

    def handle_line(w, line):
        w.last_line_t = time.time()
        if line.startswith('S '):
            w.cur = int(line[2:])
        elif line.startswith('R '):
            _, idx, fp, tsig, nt, verdict = line.split(' ', 5)
            idx = int(idx)
            res['runs'] += 1
            res['fps'][idx] = fp
            res['verdicts'][verdict] += 1
            if nt == '1':
                res['nontrivial'] += 1
                res['tsigs'].add(tsig)
            w.cur_done = idx
        elif line.startswith('V '):
            # keep the full scenario only for the first few occurrences of each signature
            m = re.search(r'"result":\{"verdict":"[^"]*","sig":"([^"]*)"', line)
            sig = m.group(1) if m else None
            res['sig_counts'][sig] += 1
            if sig is None or res['sig_counts'][sig] <= 3:
                _, idx, js = line.split(' ', 2)
                res['viol'].append(json.loads(js))
        elif line.startswith('STATS '):
            st = json.loads(line[6:])
            for k, v in st['counters'].items():
                res['counters'][k] += v
            res['sim_time'] += st['sim_time_s']
            for s in st['samples']:
                if len(res['samples']) < 4:
                    res['samples'].append(s)
        elif line.startswith('BYE'):
            w.done_clean = True
        elif line.startswith('RETIRE '):
            # the worker abandoned a run asynchronously (CPU budget), reported it, and leaves; the rest of its block is re-queued
            w.done_clean = True
            w.retire_next = int(line.split()[1])
        elif line.startswith('TERMINATE'):
            w.terminated = True

    while True:
        while len(active) < workers:
            w = spawn()
            if not w:
                break
            active.append(w)
        if not active:
            break
        rl, _, _ = select.select([w.p.stdout for w in active], [], [], 1.0)
        for w in list(active):
            if w.p.stdout in rl:
                try:
                    data = w.p.stdout.read(1 << 20)
                except BlockingIOError:
                    data = None
                if data:
                    w.buf += data
                    while b'\n' in w.buf:
                        line, w.buf = w.buf.split(b'\n', 1)
                        handle_line(w, line.decode('utf-8', 'replace'))
            rc = w.p.poll()
            if rc is not None:
                # drain
                try:
                    data = w.p.stdout.read()
                except Exception:
                    data = None
                if data:
                    w.buf += data
                    while b'\n' in w.buf:
                        line, w.buf = w.buf.split(b'\n', 1)
                        handle_line(w, line.decode('utf-8', 'replace'))
                active.remove(w)
                santxt = san_log(w.p.pid)
                cleanup_scratch(w.p.pid)
                if w.done_clean:
                    w.stderr_text()
                    nxt = getattr(w, 'retire_next', None)
                    if nxt is not None and w.start + w.count - nxt > 0:
                        pending.append((nxt, w.start + w.count - nxt))
                if not w.done_clean:
                    # died inside scenario w.cur
                    idx = w.cur if w.cur is not None else w.start
                    res['crashes'] += 1
                    errtxt = w.stderr_text()
                    res['viol'].append(dict(index=idx, scenario=None, crashed=True, rc=rc,
                                            result=dict(verdict='CRASH', sig=crash_sig(prop, rc, santxt + errtxt),
                                                        detail=(santxt or errtxt)[:4000], fp='')))
                    rest_start = idx + 1
                    rest_count = w.start + w.count - rest_start
                    if rest_count > 0 and res['crashes'] < 200:
                        pending.append((rest_start, rest_count))
            elif time.time() - w.last_line_t > HANG_S and not starved(w):
                idx = w.cur if w.cur is not None else w.start
                w.p.kill()
                w.p.wait()
                active.remove(w)
                san_log(w.p.pid)
                w.stderr_text()
                cleanup_scratch(w.p.pid)
                res['hangs'] += 1
                res['viol'].append(dict(index=idx, scenario=None, crashed=True, rc=-9,
                                        result=dict(verdict='HANG', sig='%s:HANG:no-progress-%ds' % (prop, int(HANG_S)),
                                                    detail='no output for %.0f s of wall time' % HANG_S, fp='')))
                rest_start = idx + 1
                rest_count = w.start + w.count - rest_start
                if rest_count > 0 and res['hangs'] < 20:
                    pending.append((rest_start, rest_count))
    res['wall'] = time.time() - t0
    return res


# --------------------------------------------------------------------------- serve process (gate / ddmin)
class Server:
    def __init__(self, engine):
        self.engine = engine
        self.p = None
        self.reruns = 0

    def _start(self):
        self.errf = open('/dev/shm/verif-serve-err.%d' % os.getpid(), 'w+b')
        self.p = subprocess.Popen([os.path.join(BUILD, self.engine), 'serve'], stdin=subprocess.PIPE,
                                  stdout=subprocess.PIPE, stderr=self.errf, bufsize=0)
        self.rf = self.p.stdout
        line = self._readline(20)
        if line is None or not line.startswith('READY'):
            raise RuntimeError('serve process did not start')

    def _readline(self, timeout):
        buf = b''
        end = time.time() + timeout
        while time.time() < end:
            r, _, _ = select.select([self.rf], [], [], 0.5)
            if r:
                c = os.read(self.rf.fileno(), 1 << 16)
                if not c:
                    return None
                buf += c
                if b'\n' in buf:
                    # keep only complete lines; the protocol is strictly request/response
                    lines = buf.split(b'\n')
                    self._extra = lines[1:]
                    return lines[0].decode('utf-8', 'replace')
            if self.p.poll() is not None and not r:
                return None
        return 'TIMEOUT'

    def run(self, prop, scenario):
        """Returns result dict (verdict, sig, fp, detail)."""
        self.reruns += 1
        if self.p is None or self.p.poll() is not None:
            self._start()
        data = (json.dumps(scenario) + '\n').encode()
        try:
            self.p.stdin.write(data)
            self.p.stdin.flush()
        except BrokenPipeError:
            pass
        got = []
        while True:
            buf = b''
            end = time.time() + HANG_S
            line = None
            # read lines until RES
            while time.time() < end:
                r, _, _ = select.select([self.rf], [], [], 0.5)
                if r:
                    c = os.read(self.rf.fileno(), 1 << 20)
                    if not c:
                        break
                    buf += c
                    if b'\nRES ' in b'\n' + buf and buf.endswith(b'\n'):
                        break
                elif self.p.poll() is not None:
                    break
            txt = buf.decode('utf-8', 'replace')
            for l in txt.split('\n'):
                if l.startswith('RES '):
                    res = json.loads(l[4:])
                    if res.get('retire'):
                        # the serve process abandoned this run asynchronously (CPU budget) and exits: start afresh next time
                        try:
                            self.p.wait(timeout=10)
                        except subprocess.TimeoutExpired:
                            self.p.kill(); self.p.wait()
                        san_log(self.p.pid); cleanup_scratch(self.p.pid)
                        self.p = None
                    return res
            # no RES: crashed or hung.  EOF on the pipe can be seen before the dying process is reapable
            # (the sanitizer is still writing its report): give it a moment before calling it a hang.
            rc = self.p.poll()
            if rc is None and time.time() < end:
                try:
                    rc = self.p.wait(timeout=max(1.0, min(30.0, end - time.time())))
                except subprocess.TimeoutExpired:
                    rc = None
            if rc is None:
                self.p.kill()
                self.p.wait()
                san_log(self.p.pid)
                cleanup_scratch(self.p.pid)
                self.p = None
                return dict(verdict='HANG', sig='%s:HANG:no-progress-%ds' % (prop, int(HANG_S)), fp='', detail='hang')
            santxt = san_log(self.p.pid) + self._stderr_text()
            cleanup_scratch(self.p.pid)
            self.p = None
            return dict(verdict='CRASH', sig=crash_sig(prop, rc, santxt), fp='', detail=santxt[:4000])

    def _stderr_text(self):
        try:
            self.errf.flush()
            self.errf.seek(0)
            t = self.errf.read().decode('utf-8', 'replace')
            self.errf.close()
            os.unlink(self.errf.name)
            return t[-6000:]
        except Exception:
            return ''

    def close(self):
        if self.p and self.p.poll() is None:
            try:
                self.p.stdin.write(b'QUIT\n')
                self.p.stdin.flush()
                self.p.wait(timeout=5)
            except Exception:
                self.p.kill()
            cleanup_scratch(self.p.pid)
        try:
            self.errf.close()
            os.unlink(self.errf.name)
        except Exception:
            pass


def get_path(obj, path):
    for k in path:
        if obj is None:
            return None
        obj = obj.get(k) if isinstance(obj, dict) else None
    return obj


def set_path(obj, path, val):
    for k in path[:-1]:
        obj = obj[k]
    obj[path[-1]] = val


def ddmin_list(items, test, budget):
    """Classic ddmin: smallest sublist for which test(sublist) is True."""
    n = 2
    while len(items) >= 1 and budget[0] > 0:
        if len(items) == 1:
            budget[0] -= 1
            if test([]):
                return []
            return items
        chunk = max(1, len(items) // n)
        subsets = [items[i:i + chunk] for i in range(0, len(items), chunk)]
        reduced = False
        for i, sub in enumerate(subsets):
            if budget[0] <= 0:
                return items
            comp = [x for j, s in enumerate(subsets) if j != i for x in s]
            budget[0] -= 1
            if test(comp):
                items = comp
                n = max(n - 1, 2)
                reduced = True
                break
        if not reduced:
            if n >= len(items):
                break
            n = min(len(items), n * 2)
    return items


def minimise(server, prop, scenario, verdict, list_paths, time_budget=25.0, max_reruns=300, sig=None):
    t0 = time.time()
    budget = [max_reruns]
    cur = json.loads(json.dumps(scenario))

    def still_fails(sc):
        if time.time() - t0 > time_budget:
            budget[0] = 0
            return False
        r = server.run(prop, sc)
        return r['verdict'] == verdict and (sig is None or r.get('sig') == sig)

    for path in list_paths:
        lst = get_path(cur, path)
        if not isinstance(lst, list) or not lst:
            continue

        def test(sub, path=path):
            cand = json.loads(json.dumps(cur))
            set_path(cand, path, sub)
            return still_fails(cand)
        new = ddmin_list(list(lst), test, budget)
        set_path(cur, path, new)
    return cur, max_reruns - budget[0]


# --------------------------------------------------------------------------- known findings
def load_known(prop):
    findings, fixed = [], []
    path = os.path.join(ROOT, 'known-findings.txt')
    if not os.path.exists(path):
        return findings, fixed
    for line in open(path):
        line = line.strip()
        if not line or line.startswith('#'):
            continue
        if line.startswith('finding:'):
            m = re.match(r'finding:\s+property=(\S+)\s+sig=(\S+)\s*(?:replay=(\S+))?\s*(.*)', line)
            if m and m.group(1) == prop:
                findings.append(dict(sig=m.group(2), replay=m.group(3), what=m.group(4)))
        elif line.startswith('fixed:'):
            m = re.match(r'fixed:\s+property=(\S+)\s+(.*)', line)
            if m and m.group(1) == prop:
                fixed.append(m.group(2))
    return findings, fixed


def match_known(sig, findings):
    for f in findings:
        if fnmatch.fnmatchcase(sig, f['sig']):
            return f
    return None


# --------------------------------------------------------------------------- main check
def emit_scenario(engine, prop, tier, seed, idx):
    r = subprocess.run([os.path.join(BUILD, engine), 'gen', '--prop', prop, '--tier', tier, '--seed', str(seed),
                        '--start', str(idx), '--count', '1', '--emit-only'], stdout=subprocess.PIPE, stderr=subprocess.DEVNULL, text=True)
    for l in r.stdout.split('\n'):
        if l.startswith('SCEN '):
            return json.loads(l.split(' ', 2)[2])
    return None


def verdict_of(v):
    return (v.get('result') or {}).get('verdict', '')


def emit_baseline(engine, prop):
    """A fault-free scenario the engine can produce without running the system under test (see Engine::baseline)."""
    r = subprocess.run([os.path.join(BUILD, engine), 'baseline', '--prop', prop], stdout=subprocess.PIPE, stderr=subprocess.DEVNULL, text=True)
    for l in r.stdout.split('\n'):
        if l.startswith('SCEN '):
            return json.loads(l.split(' ', 2)[2])
    return None


def fresh_replay(engine, path):
    try:
        r = subprocess.run([os.path.join(BUILD, engine), 'replay', path], stdout=subprocess.PIPE, stderr=subprocess.PIPE, text=True, timeout=HANG_S * 2)
    except subprocess.TimeoutExpired as e:
        class _R: pass
        r = _R(); r.returncode = -9; r.stdout = ''; r.stderr = ''
        return dict(verdict='HANG', sig='', fp='', detail='replay did not finish within %.0f s' % (HANG_S * 2)), r
    for l in r.stdout.split('\n'):
        if l.startswith('REPLAY '):
            return json.loads(l[7:]), r
    santxt = (r.stderr or '')[-6000:]
    return dict(verdict='CRASH' if r.returncode not in (0, 1) else 'UNKNOWN', sig='', fp='', detail=santxt[:3000]), r


def check(prop, tier, seed, budget_override, workers):
    cfg = PROPS[prop]
    engine = cfg['engine']
    t_start = time.time()
    bt = build(engine)
    tcfg = cfg[tier]
    total = tcfg.get('count')
    budget_s = budget_override if budget_override else tcfg.get('budget_s')
    if tier == 'thorough' and os.environ.get('VERIF_BUDGET_S'):
        budget_s = float(os.environ['VERIF_BUDGET_S'])
    log('[%s] engine=%s tier=%s seed=%d build=%.1fs count=%s budget_s=%s workers=%d' % (prop, engine, tier, seed, bt, total, budget_s, workers))
    res = run_pool(engine, prop, tier, seed, total, budget_s, workers)
    log('[%s] runs=%d nontrivial=%d distinct_traces=%d wall=%.1fs sim_time=%.1fs crashes=%d hangs=%d candidate_violations=%d' % (
        prop, res['runs'], res['nontrivial'], len(res['tsigs']), res['wall'], res['sim_time'], res['crashes'], res['hangs'], sum(res['sig_counts'].values()) + res['crashes'] + res['hangs']))

    findings, fixed = load_known(prop)
    exit_code = 0
    reported = []
    harness_bad = False
    # group candidate violations by signature, smallest index first
    by_sig = collections.OrderedDict()
    for v in sorted(res['viol'], key=lambda v: v['index']):
        by_sig.setdefault(v['result']['sig'], []).append(v)
    os.makedirs(os.path.join(OUT, 'replays'), exist_ok=True)
    def occ(sig, vs):
        return max(len(vs), res['sig_counts'].get(sig, 0))
    for sig, vs in list(by_sig.items())[:40]:
        log('  candidate %-90s x%d (first index %d)' % (sig[:90], occ(sig, vs), vs[0]['index']))
    server = Server(engine)
    n_new = 0
    for sig, vs in by_sig.items():
        v = vs[0]
        known = match_known(sig, findings)
        if n_new >= 6 and not known:
            continue
        sc = v['scenario'] or emit_scenario(engine, prop, tier, seed, v['index'])
        if sc is None and verdict_of(v) in ('CRASH', 'HANG'):
            # the generator itself runs the system under test (C15's census) and dies with it: judge the fault-free baseline
            sc = emit_baseline(engine, prop)
        if sc is None:
            log('[%s] cannot regenerate scenario %d' % (prop, v['index']))
            harness_bad = True
            continue
        verdict = v['result']['verdict']
        # gate 1: same process, twice
        r1 = server.run(prop, sc)
        r2 = server.run(prop, sc)
        if r1['verdict'] != verdict or r2['verdict'] != verdict or r1.get('fp') != r2.get('fp'):
            log('[%s] NON-DETERMINISTIC: scenario %d verdicts %s/%s/%s fps %s/%s' % (prop, v['index'], verdict, r1['verdict'], r2['verdict'], r1.get('fp'), r2.get('fp')))
            harness_bad = True
            continue
        # minimise (same violation class)
        small, reruns = minimise(server, prop, sc, verdict, cfg.get('shrink_paths', [['signals'], ['faults']]), sig=r1.get('sig'))
        rs = server.run(prop, small)
        if rs['verdict'] != verdict:
            small, rs = sc, r1
        name = re.sub(r'[^A-Za-z0-9_.-]+', '_', rs['sig'] or sig)[:120]
        path = os.path.join(OUT, 'replays', '%s.json' % name)
        rep = dict(property=prop, violation=verdict, sig=rs['sig'], detail=rs['detail'], seed=seed, tier=tier, index=v['index'],
                   expect_fp=rs.get('fp', ''), minimise_reruns=reruns, occurrences=occ(sig, vs), scenario=small)
        with open(path, 'w') as f:
            json.dump(rep, f, indent=1)
        # gate 2: fresh process replay
        fr, _ = fresh_replay(engine, path)
        if fr['verdict'] != verdict:
            log('[%s] NON-DETERMINISTIC: fresh replay of %s gives %s, expected %s' % (prop, path, fr['verdict'], verdict))
            harness_bad = True
            continue
        known = match_known(rs['sig'], findings) or known
        if known:
            log('KNOWN-FINDING: property=%s %s [sig=%s, %d occurrence(s), replay=%s]' % (prop, known['what'], rs['sig'], occ(sig, vs), os.path.relpath(path, ROOT)))
            known['seen'] = True
        else:
            n_new += 1
            log('VIOLATION property=%s replay=%s' % (prop, path))
            log('  class=%s sig=%s occurrences=%d minimised_in=%d reruns' % (verdict, rs['sig'], occ(sig, vs), reruns))
            log('  ' + rs['detail'].replace('\n', '\n  ')[:1500])
            exit_code = 1
        reported.append(dict(sig=rs['sig'], occurrences=occ(sig, vs), known=bool(known), replay=os.path.relpath(path, ROOT)))
    # listed findings not hit by this run's sampling: replay their stored scenario
    for f in findings:
        if f.get('seen'):
            continue
        if f.get('replay') and os.path.exists(os.path.join(ROOT, f['replay'])):
            fr, _ = fresh_replay(engine, os.path.join(ROOT, f['replay']))
            if fr['verdict'] != 'OK' and fnmatch.fnmatchcase(fr.get('sig', ''), f['sig']):
                log('KNOWN-FINDING: property=%s %s [sig=%s, reproduced from %s]' % (prop, f['what'], fr['sig'], f['replay']))
            else:
                log('NOTE: listed finding %s did not reproduce from %s (verdict %s)' % (f['sig'], f['replay'], fr['verdict']))
        else:
            log('KNOWN-FINDING: property=%s %s [sig=%s, not sampled in this run]' % (prop, f['what'], f['sig']))
    server.close()
    if harness_bad:
        exit_code = 2

    # ---- evidence
    wall = time.time() - t_start
    counters = dict(res['counters'])
    FAULT_PREFIXES = ('fired.', 'rfired.', 'wfired.', 'damage.', 'hostile.')
    fired = {(k[6:] if k.startswith('fired.') else k): v for k, v in counters.items() if k.startswith(FAULT_PREFIXES)}
    probes = {k: v for k, v in counters.items() if not k.startswith(FAULT_PREFIXES)}
    enumerated = 0
    try:
        r = subprocess.run([os.path.join(BUILD, engine), 'gen', '--prop', prop, '--tier', tier, '--seed', str(seed), '--count', '0'],
                           stdout=subprocess.PIPE, stderr=subprocess.DEVNULL, text=True)
        m = re.search(r'enumerated=(\d+)', r.stdout)
        enumerated = int(m.group(1)) if m else 0
    except Exception:
        pass
    samples = []
    for s in res['samples'][:3]:
        sc = s['scenario']
        slim = {k: v for k, v in sc.items() if k != 'files'}
        slim['files'] = {k: (v if len(v) < 400 else v[:400] + '...[%d bytes]' % len(v)) for k, v in sc.get('files', {}).items()}
        samples.append(dict(index=s['index'], verdict=s['verdict'], scenario=slim))
    ev = dict(
        property_id=prop, tier=tier, seed=seed, level=cfg['level'],
        coverage=dict(
            evaluations=res['runs'],
            distinct_nontrivial=len(res['tsigs']),
            rule=cfg['rule'],
            samples=samples or [dict(note='no sample captured')],
            exhaustive=bool(cfg.get('finite') and enumerated and res['runs'] >= enumerated and exit_code != 2),
            enumerated_prefix=min(enumerated, res['runs']),
            enumerated_prefix_complete=bool(enumerated and res['runs'] >= enumerated),
            nontrivial_runs=res['nontrivial'],
            runs_per_hour=int(res['runs'] / max(res['wall'], 1e-9) * 3600),
            seeds_per_hour=int(res['runs'] / max(res['wall'], 1e-9) * 3600),
            simulated_time_s=round(res['sim_time'], 3),
            fault_kinds_fired=fired,
            probes=probes,
            verdict_counts=dict(res['verdicts']),
            worker_crashes=res['crashes'], worker_hangs=res['hangs'],
            components=COMPONENTS.get(engine, {}),
            reported=reported,
            fixed_entries=fixed,
            workers=workers,
        ),
        assumptions=cfg['assumptions'],
        wall_s=round(wall, 2),
        violations=sum(1 for r in reported if not r['known']),
    )
    os.makedirs(os.path.join(OUT, 'evidence'), exist_ok=True)
    with open(os.path.join(OUT, 'evidence', '%s.json' % prop), 'w') as f:
        json.dump(ev, f, indent=1)
    log('[%s] exit=%d wall=%.1fs evidence=evidence/%s.json' % (prop, exit_code, wall, prop))
    return exit_code


def main():
    ap = argparse.ArgumentParser()
    ap.add_argument('prop')
    ap.add_argument('--tier', default=os.environ.get('VERIF_TIER', 'quick'))
    ap.add_argument('--seed', type=int, default=None)
    ap.add_argument('--budget-s', type=float, default=None)
    ap.add_argument('--workers', type=int, default=int(os.environ.get('VERIF_WORKERS', '16')))
    ap.add_argument('--replay', default=None)
    a = ap.parse_args()
    if a.prop not in PROPS:
        log('unknown property', a.prop)
        sys.exit(2)
    if a.tier not in ('quick', 'thorough'):
        a.tier = 'quick'
    seed = a.seed if a.seed is not None else int(os.environ.get('VERIF_SEED', PROPS[a.prop].get('default_seed', 20260926)))
    os.environ['LC_ALL'] = 'C'
    if a.replay:
        engine = PROPS[a.prop]['engine']
        build(engine)
        fr, r = fresh_replay(engine, a.replay)
        sys.stdout.write(r.stdout)
        if fr['verdict'] != 'OK':
            log('VIOLATION property=%s replay=%s' % (a.prop, a.replay))
            sys.exit(1)
        sys.exit(0)
    sys.exit(check(a.prop, a.tier, seed, a.budget_s, a.workers))


if __name__ == '__main__':
    main()
