#!/bin/bash
# usage: tools/apply_seeded.sh <seeded-dir-with-patch.diff> <prop> [tier] [more props...]
# Applies a seeded change to /repo, runs the property's check(s), and always undoes the change.
# Prints one line per check: "<prop> exit=<rc> <first VIOLATION line or ->" and keeps the full
# output in <seeded-dir>/check.<prop>.log.  /repo must be clean (apart from _build) before the call.
set -u
D=$(readlink -f "$1"); P=$2; T=${3:-quick}; shift; shift; shift 2>/dev/null
PROPS="$P $*"
if [ -n "$(git -C /repo status --porcelain --untracked-files=no)" ]; then echo "/repo is not clean"; exit 3; fi
git -C /repo apply "$D/patch.diff" || { echo "patch does not apply"; exit 3; }
trap 'git -C /repo checkout -- . ' EXIT
for p in $PROPS; do
  ( cd /verif && VERIF_OUT_DIR=$D/out ./run $p --tier $T > "$D/check.$p.log" 2>&1 ); rc=$?
  v=$(grep -m1 '^VIOLATION' "$D/check.$p.log" || echo -)
  n=$(grep -c '^VIOLATION' "$D/check.$p.log")
  echo "$p exit=$rc violations=$n $v"
done
