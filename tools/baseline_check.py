#!/usr/bin/env python3
"""Run the repo's gtest binaries in a build dir and compare passing cases with BASELINE.json stable_pass.
usage: baseline_check.py [build_dir]   (default /repo/_build).  Exit 0 iff every stable_pass case passes."""
import json, os, subprocess, sys, glob, xml.etree.ElementTree as ET, tempfile
bd = sys.argv[1] if len(sys.argv) > 1 else '/repo/_build'
base = json.load(open('/root/.vp/BASELINE.json'))
want = set(base['stable_pass'])
passed = set()
out = tempfile.mkdtemp(dir='/dev/shm')
for b in sorted(glob.glob(os.path.join(bd, 'bin', '*-test'))):
    x = os.path.join(out, os.path.basename(b) + '.xml')
    try:
        subprocess.run([b, '--gtest_output=xml:' + x], cwd=os.path.join(bd, 'test') if os.path.isdir(os.path.join(bd, 'test')) else bd,
                       stdout=subprocess.DEVNULL, stderr=subprocess.DEVNULL, timeout=900)
    except subprocess.TimeoutExpired:
        continue
    if not os.path.exists(x):
        continue
    for tc in ET.parse(x).getroot().iter('testcase'):
        if tc.find('failure') is None and tc.get('status', 'run') != 'notrun':
            passed.add('%s::%s' % (tc.get('classname'), tc.get('name')))
subprocess.run(['rm', '-rf', out])
import re
r = subprocess.run(['ctest', '--test-dir', bd, '-j8', '--timeout', '900'], stdout=subprocess.PIPE, stderr=subprocess.STDOUT, text=True)
for m in re.finditer(r'Test\s+#\d+:\s+(\S+)\s+\.+\s+Passed', r.stdout):
    passed.add('%s::%s' % (m.group(1), m.group(1)))
missing = sorted(want - passed)
print('stable_pass=%d passing_now=%d missing=%d' % (len(want), len(passed & want), len(missing)))
for m in missing[:40]:
    print('  MISSING', m)
sys.exit(1 if missing else 0)
