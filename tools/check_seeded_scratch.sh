#!/bin/bash
# usage: tools/check_seeded_scratch.sh <seeded-dir-with-patch.diff> <slot> <prop> [tier] [more props...]
# Like apply_seeded.sh, but leaves /repo alone: the change is applied to a scratch worktree /var/tmp/vw<slot>/repo
# (created from /repo's HEAD on first use, reset before every use) and the engines are built into /var/tmp/vw<slot>/build,
# so several seeded changes can be studied at once (different slots) while /repo and /verif/build stay usable.
# Prints one line per check: "<prop> exit=<rc> violations=<n> <first VIOLATION line or ->"; full output in <seeded-dir>/check.<prop>.log.
set -u
D=$(readlink -f "$1"); S=$2; P=$3; T=${4:-quick}; shift; shift; shift; shift 2>/dev/null
PROPS="$P $*"
W=/var/tmp/vw$S
if [ ! -d $W/repo ]; then mkdir -p $W; git -C /repo worktree add --detach $W/repo HEAD >/dev/null 2>&1 || { echo "cannot create worktree"; exit 3; }; fi
git -C $W/repo reset -q --hard >/dev/null 2>&1; git -C $W/repo checkout -q --detach $(git -C /repo rev-parse HEAD) && git -C $W/repo reset -q --hard && git -C $W/repo clean -fdq
git -C $W/repo apply "$D/patch.diff" 2>/dev/null || git -C $W/repo apply --3way "$D/patch.diff" >/dev/null 2>&1 || { git -C $W/repo reset -q --hard; echo "patch does not apply"; exit 3; }
if [ -n "$(git -C $W/repo diff --name-only --diff-filter=U)" ]; then git -C $W/repo reset -q --hard; echo "patch does not apply (conflict with a later fix: commit)"; exit 3; fi   # --3way: /repo has moved on (fix: commits) since some changes were made
for p in $PROPS; do
  ( cd /verif && VERIF_REPO=$W/repo VERIF_BUILD=$W/build VERIF_OUT_DIR=$D/out VERIF_MAKE_J=${VERIF_MAKE_J:-8} VERIF_WORKERS=${VERIF_WORKERS:-8} ./run $p --tier $T > "$D/check.$p.log" 2>&1 ); rc=$?
  v=$(grep -m1 '^VIOLATION' "$D/check.$p.log" || echo -)
  n=$(grep -c '^VIOLATION' "$D/check.$p.log")
  echo "$p exit=$rc violations=$n $v"
done
git -C $W/repo reset -q --hard
