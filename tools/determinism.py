#!/usr/bin/env python3
"""Determinism drill (DESIGN.md 7.3).

For every claimed property and for each of several VERIF_SEED values, the same scenario
indices are run
  A  in one process, indices 0..N-1 in order;
  B  in a second fresh process, same order                       (process-to-process)
  C  split over W processes with --step W (round-robin)          (worker count / neighbours differ)
  D  in blocks of N/8 run in *descending* block order            (history inside the process differs)
  E  under a different environment (extra variables, other cwd, VERIF_SCRATCH elsewhere)
and the (index, fingerprint, trace signature, verdict) lines must be identical in all
five.  Any difference is printed and the tool exits 1.  Results: reports/determinism.json.

usage: tools/determinism.py [--n 2000] [--seeds 1,7,12345] [--props C15,C09,...] [--jobs 16]
"""
import argparse, collections, concurrent.futures as cf, json, os, subprocess, sys, tempfile, time

HERE = os.path.dirname(os.path.abspath(__file__))
ROOT = os.path.dirname(HERE)
sys.path.insert(0, ROOT)
import propcfg  # noqa


BIN = os.path.join(ROOT, 'build')


def run_gen(engine, prop, seed, start, step, count, env_extra=None, cwd=None):
    """Run `count` indices start, start+step, ... like the supervisor does: a worker that retires (a simulated _exit inside a
    signal handler, a CPU-budget abort) or dies (a recorded known finding such as C02's deep nesting) is replaced by a fresh one
    that continues behind the index it had started; that index is recorded as RETIRED-after-result or CRASH."""
    env = dict(os.environ)
    if env_extra:
        env.update(env_extra)
    out = {}
    rc_all = 0
    cur = start
    remaining = count
    guard = 0
    while remaining > 0 and guard < 5000:
        guard += 1
        cmd = [os.path.join(BIN, engine), 'gen', '--prop', prop, '--tier', 'quick', '--seed', str(seed),
               '--start', str(cur), '--step', str(step), '--count', str(remaining)]
        p = subprocess.run(cmd, stdout=subprocess.PIPE, stderr=subprocess.DEVNULL, env=env, cwd=cwd or ROOT)
        started = None
        retire_next = None
        done = 0
        for line in p.stdout.decode('utf-8', 'replace').splitlines():
            if line.startswith('S '):
                started = int(line[2:])
            elif line.startswith('R '):
                _, idx, fp, tsig, nt, verdict = line.split(' ', 5)
                out[int(idx)] = (fp, tsig, nt, verdict)
                done += 1
            elif line.startswith('RETIRE '):
                retire_next = int(line.split()[1])
        if retire_next is not None:
            remaining -= (retire_next - cur) // step
            cur = retire_next
            continue
        if p.returncode != 0 and started is not None and started not in out:
            out[started] = ('-', '-', '1', 'CRASH rc=%d' % p.returncode)       # deterministic crashes compare equal
            remaining -= (started - cur) // step + 1
            cur = started + step
            continue
        rc_all = p.returncode
        break
    return rc_all, out


def variant(engine, prop, seed, n, kind, jobs_inner=4):
    res = {}
    rcs = []
    if kind in ('A', 'B'):
        rc, o = run_gen(engine, prop, seed, 0, 1, n)
        rcs.append(rc); res.update(o)
    elif kind == 'C':
        W = 5
        for w in range(W):
            cnt = (n - w + W - 1) // W
            rc, o = run_gen(engine, prop, seed, w, W, cnt)
            rcs.append(rc); res.update(o)
    elif kind == 'D':
        B = max(1, n // 8)
        starts = list(range(0, n, B))
        for s in reversed(starts):
            rc, o = run_gen(engine, prop, seed, s, 1, min(B, n - s))
            rcs.append(rc); res.update(o)
    elif kind == 'E':
        d = tempfile.mkdtemp(prefix='verif-det.', dir='/dev/shm')
        try:
            rc, o = run_gen(engine, prop, seed, 0, 1, n,
                            env_extra={'VERIF_SCRATCH': d, 'mp_options': 'outlev=1 bogus=3', 'LANG': 'C.utf8',
                                       'simdrv_options': 'tech:intopt=99', 'MALLOC_PERTURB_': '165', 'HOME': d}, cwd=d)
            rcs.append(rc); res.update(o)
        finally:
            subprocess.run(['rm', '-rf', d])
    return kind, rcs, res


def main():
    ap = argparse.ArgumentParser()
    ap.add_argument('--n', type=int, default=2000)
    ap.add_argument('--seeds', default='1,7,12345')
    ap.add_argument('--props', default='')
    ap.add_argument('--jobs', type=int, default=16)
    a = ap.parse_args()
    props = [p for p in (a.props.split(',') if a.props else sorted(propcfg.PROPS))]
    seeds = [int(s) for s in a.seeds.split(',')]
    # run from a private copy of the binaries so that a concurrent rebuild cannot interfere
    global BIN
    bindir = tempfile.mkdtemp(prefix='verif-detbin.', dir='/dev/shm')
    for e in ('drvsim', 'iosim'):
        subprocess.run(['cp', os.path.join(ROOT, 'build', e), bindir], check=True)
    BIN = bindir
    t0 = time.time()
    report = dict(tool='tools/determinism.py', n_indices=a.n, seeds=seeds, variants={
        'A': 'one process, ascending', 'B': 'second fresh process, ascending',
        'C': '5 processes, round-robin (--step 5)', 'D': '8 blocks run in descending block order, one process each',
        'E': 'other environment: VERIF_SCRATCH/cwd/HOME elsewhere, hostile mp_options/simdrv_options in the real environment, MALLOC_PERTURB_'},
        properties={})
    bad = 0
    jobs = []
    with cf.ThreadPoolExecutor(max_workers=a.jobs) as ex:
        for p in props:
            cfg = propcfg.PROPS[p]
            n = a.n * (10 if cfg['engine'] == 'iosim' else 1)
            tot = cfg.get('count')
            if cfg.get('finite') and tot:
                n = min(n, tot)
            for s in seeds:
                for k in 'ABCDE':
                    jobs.append((p, s, n, ex.submit(variant, cfg['engine'], p, s, n, k)))
        by = collections.defaultdict(dict)
        for p, s, n, f in jobs:
            kind, rcs, res = f.result()
            by[(p, s, n)][kind] = (rcs, res)
    for (p, s, n), vs in sorted(by.items()):
        ref = vs['A'][1]
        entry = report['properties'].setdefault(p, dict(indices=n, seeds={}, runs_compared=0, divergences=0))
        div = []
        for k in 'BCDE':
            rcs, res = vs[k]
            if any(rc != 0 for rc in rcs):
                div.append('%s: worker exit codes %s' % (k, rcs))
            if set(res) != set(ref):
                div.append('%s: index sets differ (%d vs %d)' % (k, len(res), len(ref)))
            for i in sorted(set(res) & set(ref)):
                if res[i] != ref[i]:
                    div.append('%s: index %d: %s vs %s' % (k, i, res[i], ref[i]))
                    if len(div) > 10:
                        break
            entry['runs_compared'] += len(res)
        if any(rc != 0 for rc in vs['A'][0]) or len(ref) != n:
            div.append('A: exit %s, %d results for %d indices' % (vs['A'][0], len(ref), n))
        entry['seeds'][str(s)] = 'identical' if not div else div[:10]
        entry['divergences'] += len(div)
        nontriv = sum(1 for v in ref.values() if v[2] == '1')
        entry.setdefault('nontrivial_in_reference', 0)
        entry['nontrivial_in_reference'] += nontriv
        if div:
            bad += 1
            print('DIVERGENCE %s seed=%d' % (p, s))
            for d in div[:10]:
                print('   ', d)
        else:
            print('ok %s seed=%d: %d indices x 5 variants identical (%d distinct fingerprints)' %
                  (p, s, n, len(set(v[0] for v in ref.values()))))
    subprocess.run(['rm', '-rf', bindir])
    report['wall_s'] = round(time.time() - t0, 1)
    report['result'] = 'identical' if not bad else 'DIVERGED'
    os.makedirs(os.path.join(ROOT, 'reports'), exist_ok=True)
    with open(os.path.join(ROOT, 'reports', 'determinism.json'), 'w') as f:
        json.dump(report, f, indent=1, sort_keys=True)
    print('determinism:', report['result'], 'in', report['wall_s'], 's')
    sys.exit(1 if bad else 0)


if __name__ == '__main__':
    main()
