#!/bin/bash
# usage: tools/keep_seeded.sh <id> <m>   -- copy a sub-agent's seeded change (small files only) into /verif/seeded/<id>/<m>
id=$1; m=$2; mkdir -p /verif/seeded/$id/$m
for f in /tmp/mut/$id.out/$m/*; do
  case "$f" in *.o|*/demo|*/demo_san|*/demo_nosan|*/visitor|*/obj|*/work|*/scratch|*/vb|*/drv|*/build|*/build_changed|*/build_unchanged) continue;; esac
  if [ -f "$f" ] && [ $(stat -c %s "$f") -lt 300000 ]; then cp "$f" /verif/seeded/$id/$m/; fi
  if [ -d "$f" ] && [ $(du -sk "$f" | cut -f1) -lt 300 ]; then cp -r "$f" /verif/seeded/$id/$m/; fi
done
