#!/usr/bin/env python3
"""usage: tools/make_tasks.py <round-suffix> <mA> <mB>     e.g.  tools/make_tasks.py 6 m12 m13
Writes /tmp/mut/<id>.task<round>.md for every claimed property from the previous round's task file: same text, new change
names, and the list of mechanisms already taken rebuilt from the kept changes (seeded/<id>/*/meta.json: summaries only -
nothing about the checks goes to the sub-agents)."""
import glob, json, os, re, sys, collections
ROOT = os.path.dirname(os.path.dirname(os.path.abspath(__file__)))
rnd, mA, mB = sys.argv[1], sys.argv[2], sys.argv[3]
props = {json.loads(l)['id']: json.loads(l) for l in open(os.path.join(ROOT, 'properties.jsonl'))}
claimed = [c['property_id'] for c in json.load(open(os.path.join(ROOT, 'MANIFEST.json')))['checks']]
for pid in claimed:
    prev = sorted(glob.glob('/tmp/mut/%s.task*.md' % pid), key=lambda p: (len(p), p))[-1]
    txt = open(prev).read()
    m = re.search(r'TWO independent source changes to ampl/mp \(call them (m\d+) and (m\d+);', txt)
    oa, ob = m.group(1), m.group(2)
    txt = txt.replace(oa, '\0A').replace(ob, '\0B').replace('\0A', mA).replace('\0B', mB)
    metas = []
    for d in sorted(glob.glob(os.path.join(ROOT, 'seeded', pid, 'm*')), key=lambda p: int(os.path.basename(p)[1:])):
        try: metas.append(json.load(open(os.path.join(d, 'meta.json'))))
        except Exception: pass
    files = collections.Counter()
    for mt in metas:
        fl = mt.get('files') or []
        if isinstance(fl, str): fl = re.split(r'[,\s]+', fl)
        for f in fl:
            f = re.sub(r'^/tmp/mut/C\d+/', '', f.strip())
            if f: files[f] += 1
    anchored = props[pid]['anchors']['files']
    untouched = [a for a in anchored if not any(a.rstrip('*') in f or f in a for f in files)]
    lst = 'Mechanisms ALREADY TAKEN by earlier changes for this property (%d so far; do something different):\n' % len(metas)
    for mt in metas:
        lst += '- ' + re.sub(r'\s+', ' ', (mt.get('summary') or ''))[:260] + '\n'
    lst += '\nFiles the earlier changes touched (with counts): ' + ', '.join('%s (%d)' % kv for kv in files.most_common()) + '.\n'
    lst += 'Anchored files NO earlier change has touched: ' + (', '.join(untouched) if untouched else '(none left)') + '.\n'
    a = txt.index('Mechanisms ALREADY TAKEN')
    b = txt.index('Strongly prefer changes located')
    txt = txt[:a] + lst + txt[b:]
    out = '/tmp/mut/%s.task%s.md' % (pid, rnd)
    open(out, 'w').write(txt)
    print(out, len(metas), 'taken;', len(untouched), 'untouched anchored files')
