#!/usr/bin/env python3
"""usage: tools/merge_results.py <log>...   -> seeded/RESULTS.txt
Assembles seeded/RESULTS.txt from the per-entry lines that tools/seeded_all_scratch.py prints ("<id> <m> <id> exit=<rc> ... | class=..."),
later files overriding earlier ones (a pass that was cut short is completed from the re-checks of single entries)."""
import os, re, sys
ROOT = os.path.dirname(os.path.dirname(os.path.abspath(__file__)))
res = {}
for fn in sys.argv[1:]:
    for l in open(fn, errors='replace'):
        m = re.match(r'(C\d\d) (m\d+) (?:recheck: )?(C\d\d exit=\d+ .*)$', l.rstrip('\n'))
        if m:
            rest = m.group(3)
            if ' | ' not in rest: rest += ' | '
            res[(m.group(1), m.group(2))] = '%s %s %s' % (m.group(1), m.group(2), rest)
with open(os.path.join(ROOT, 'seeded', 'RESULTS.txt'), 'w') as f:
    for k in sorted(res, key=lambda k: (k[0], int(k[1][1:]))):
        f.write(res[k] + '\n')
print(len(res), 'entries')
