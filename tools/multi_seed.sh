#!/bin/bash
# usage: tools/multi_seed.sh "<seeds>" [props...]   -- every quick check under several VERIF_SEED values (unchanged tree must stay quiet);
# evidence and replays go to /var/tmp/ms/<seed>, one summary line per run on stdout.
seeds=$1; shift
props=${*:-C15 C10 C09 C12 C04 C19 C20 C11 C08 C02 C14 C05 C03}
cd /verif
for s in $seeds; do
  for p in $props; do
    mkdir -p /var/tmp/ms/$s
    VERIF_OUT_DIR=/var/tmp/ms/$s ./run $p --tier quick --seed $s > /var/tmp/ms/$s/$p.log 2>&1; rc=$?
    echo "seed=$s $p exit=$rc $(grep -c '^VIOLATION' /var/tmp/ms/$s/$p.log) violations $(grep -m1 'class=' /var/tmp/ms/$s/$p.log | cut -c1-150)"
  done
done
