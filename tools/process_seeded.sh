#!/bin/bash
# usage: tools/process_seeded.sh <id> <m> <slot>
# One sub-agent deliverable (/tmp/mut/<id>.out/<m>) -> confirmation in the scratch worktree /tmp/mut/<id> (verify_seeded.sh),
# copy into /verif/seeded/<id>/<m> (keep_seeded.sh), run the property's quick check against it in scratch slot <slot>.
id=$1; m=$2; slot=$3
src=/tmp/mut/$id.out/$m
[ -f $src/patch.diff ] || { echo "$id $m: no patch.diff"; exit 3; }
export CCACHE_BASEDIR=/tmp/mut/$id CCACHE_NOHASHDIR=1
v=$(/verif/tools/verify_seeded.sh /tmp/mut/$id $src './demo.sh' | tail -1)
# leave the worktree's build in the unchanged state again
( cd /tmp/mut/$id && git checkout -q -- . && cmake --build _build -j6 >/dev/null 2>&1 )
echo "$id $m verify: $v"
/verif/tools/keep_seeded.sh $id $m
c=$(/verif/tools/check_seeded_scratch.sh /verif/seeded/$id/$m $slot $id quick | tail -1)
echo "$id $m check: $c"
