#!/bin/bash
# usage: tools/seeded_all.sh [tier]   -- runs every kept seeded change against its property's check
# (apply to /repo, run, undo) and writes seeded/RESULTS.txt: "<id> <m> exit=<rc> violations=<n> <first violation class>".
T=${1:-quick}
cd /verif
: > seeded/RESULTS.txt
for d in seeded/C*/m*; do
  id=$(basename $(dirname $d)); m=$(basename $d)
  rm -rf $d/out
  line=$(tools/apply_seeded.sh $d $id $T | tail -1)
  cls=$(grep -m1 'class=' $d/check.$id.log | sed 's/^ *//' | cut -c1-160)
  echo "$id $m $line | $cls" | tee -a seeded/RESULTS.txt
  rm -rf $d/out/evidence
done
git -C /repo status --short | grep -v _build
