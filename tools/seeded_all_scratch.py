#!/usr/bin/env python3
"""usage: tools/seeded_all_scratch.py [--slots N] [--tier quick] [--only C09/m4,...] [--out seeded/RESULTS.txt]
Runs every kept seeded change against its property's check in scratch worktrees (tools/check_seeded_scratch.sh),
N at a time, and writes seeded/RESULTS.txt in the format tools/seeded_report.py reads.  /repo is never touched."""
import argparse, glob, os, re, subprocess, sys, threading, queue, shutil
ROOT = os.path.dirname(os.path.dirname(os.path.abspath(__file__)))
ap = argparse.ArgumentParser()
ap.add_argument('--slots', type=int, default=3)
ap.add_argument('--tier', default='quick')
ap.add_argument('--only', default='')
ap.add_argument('--out', default=os.path.join(ROOT, 'seeded', 'RESULTS.txt'))
a = ap.parse_args()
dirs = sorted(glob.glob(os.path.join(ROOT, 'seeded', 'C*', 'm*')))
if a.only:
    want = set(a.only.split(','))
    dirs = [d for d in dirs if '/'.join(d.split('/')[-2:]) in want]
q = queue.Queue()
for d in dirs:
    q.put(d)
lines = {}
lock = threading.Lock()

def work(slot):
    while True:
        try:
            d = q.get_nowait()
        except queue.Empty:
            return
        pid, mid = d.split('/')[-2:]
        shutil.rmtree(os.path.join(d, 'out'), ignore_errors=True)
        r = subprocess.run([os.path.join(ROOT, 'tools', 'check_seeded_scratch.sh'), d, str(slot), pid, a.tier],
                           stdout=subprocess.PIPE, stderr=subprocess.STDOUT, text=True)
        last = (r.stdout.strip().splitlines() or ['?'])[-1]
        cls = ''
        try:
            for l in open(os.path.join(d, 'check.%s.log' % pid)):
                if 'class=' in l:
                    cls = l.strip()[:160]; break
        except OSError:
            pass
        shutil.rmtree(os.path.join(d, 'out', 'evidence'), ignore_errors=True)
        line = '%s %s %s | %s' % (pid, mid, last, cls)
        with lock:
            lines[(pid, mid)] = line
            print(line, flush=True)

ts = [threading.Thread(target=work, args=(s,)) for s in range(1, a.slots + 1)]
[t.start() for t in ts]
[t.join() for t in ts]
if not a.only:
    with open(a.out, 'w') as f:
        for k in sorted(lines):
            f.write(lines[k] + '\n')
else:
    # merge into the existing file
    old = {}
    if os.path.exists(a.out):
        for l in open(a.out):
            p = l.split()
            if len(p) > 1:
                old[(p[0], p[1])] = l.rstrip('\n')
    old.update(lines)
    with open(a.out, 'w') as f:
        for k in sorted(old):
            f.write(old[k] + '\n')
