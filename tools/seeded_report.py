#!/usr/bin/env python3
"""Build seeded/README.md from seeded/<id>/<m>/meta.json, verify.log and seeded/RESULTS.txt, and add a
"study" block to every meta.json (what was run, first-run outcome, strengthening)."""
import glob, json, os, re

ROOT = os.path.dirname(os.path.dirname(os.path.abspath(__file__)))
# outcome of the first run of the property's check (before any strengthening) and what was strengthened
FIRST_MISS = {
    ('C10', 'm2'): 'the enumeration drove only SetStatus()/ReportResults(); added the StdBackend::Abort(code,msg) path (codes 0..999 x 2 call sites x 2 modes) and sol:chk:fail (documented result 150)',
    ('C08', 'm2'): 'only the integer suffix .sstatus was checked on the way back; the loop now also asks for sensitivity ranges (alg:sens=1) and checks six real-valued variable suffixes through the permutation and .sensrhshi on rows by content',
    ('C03', 'm1'): 'number generator had random bit patterns and a fixed pool but no binade boundaries; added +-2^k (k in -1074..1023) and both neighbours to the NL and SOL value generators',
    ('C14', 'm3'): 'a torn last value delivered with reader status OK was only counted (text files cannot detect it); for binary files, where a short read is unambiguous, it is now raised (TRUNCATED_VALUE_ACCEPTED)',
    ('C20', 'm1'): 'generated names had quotes, backslashes and tabs but no bytes >= 0x80; added UTF-8 string subscripts (2- and 3-byte sequences)',
    ('C19', 'm2'): 'generator declared only SOS1 sets through .sosno/.ref; added SOS2 (negative .sosno), 1..4 members, and .sos/.sosref sets (what AMPL emits for its own PL linearisation)',
    ('C11', 'm2'): "the stub driver registered only lower-case synonyms; it now registers mixed-case inline and out-of-line synonyms (as real drivers do, e.g. cbcmp 'mip:rens Rens')",
    # ---- round 2 (m4, m5)
    ('C09', 'm4'): "-AMPL runs never carried a wantsol option; they now do (any value, any source) and a .sol is still demanded",
    ('C09', 'm5'): "every .sol fitted one stdio buffer, so a transient error on a non-final flush could not happen: the buffer size of the simulated process is now a per-run knob (1..1024 bytes), and a run that survives a .sol write fault must leave exactly the file its fault-free twin writes",
    ('C10', 'm4'): "no run varied mip:round; added every code x mip:round=1..7 on the MIP model with a non-integral answer",
    ('C12', 'm4'): "a reader error on a valid generated file was treated as 'not delivered' (C09's business): a valid text or binary NL file rejected by the NL reader is now a C12 violation (the statement quantifies over both encodings)",
    ('C12', 'm5'): "every generated objective had a linear part; objectives without one (constant or purely nonlinear, no G segment) are now generated",
    ('C04', 'm5'): "inbound values were only checked on the images of the constraints they were given for; rows that are the image of no original linear constraint must now not carry a value given for another constraint's own row, and postsolved vectors must have one entry per original item",
    ('C02', 'm4'): "harness: the runaway reader was masked by the allocation cap (accepted as bad_alloc) or only stopped by the 60 s wall watchdog, which did not reproduce (exit 2); added a notification budget in the recording handler and allocation-count / CPU-time budgets that turn runaway loops into deterministic HANG verdicts",
    ('C02', 'm5'): "harness: a 1-byte over-read past the in-memory input hit whatever followed the malloc block (ASan's check on that load is elided by GCC), so verdicts differed between processes (exit 2); the input is now placed directly before an inaccessible page",
    ('C08', 'm4'): "constants were small; integral objective offsets and Hessian entries beyond 32 bits are now generated (and sums compared relative to the magnitude of their terms)",
    ('C08', 'm5'): "every suffix had its own name and only variable .sstatus was checked on return; one name is now used on several kinds of items and returned constraint statuses are matched by row content",
    ('C11', 'm4'): "real values were ordinary; literals that under-/overflow a double (1e-400, 4e-320, 1e999) are now generated, and errno is reset before every run (it leaked between scenarios and made the first run of this change non-reproducible)",
    ('C19', 'm5'): "no run selected another objective than the first; obj:no=k is now varied and the delivered objective must carry the k-th name",
}

res = {}
p = os.path.join(ROOT, 'seeded', 'RESULTS.txt')
if os.path.exists(p):
    for line in open(p):
        m = re.match(r'(C\d+) (m\d+) (C\d+) exit=(\d+) violations=(\d+) (\S+)(?: property=\S+ replay=(\S+))?\s*\|\s*(.*)', line.strip())
        if m:
            res[(m.group(1), m.group(2))] = dict(exit=int(m.group(4)), violations=int(m.group(5)), replay=m.group(7), cls=m.group(8))

rows = []
for d in sorted(glob.glob(os.path.join(ROOT, 'seeded', 'C*', 'm*'))):
    pid, mid = d.split('/')[-2:]
    mp = os.path.join(d, 'meta.json')
    try:
        meta = json.load(open(mp))
    except Exception:
        meta = {'property': pid}
    ver = ''
    vl = os.path.join(d, 'verify.log')
    if os.path.exists(vl):
        ver = open(vl).read().strip().splitlines()[-1]
    r = res.get((pid, mid), {})
    sig = ''
    m = re.search(r'sig=(\S+)', r.get('cls', ''))
    if m:
        sig = m.group(1)
    first = 'missed' if (pid, mid) in FIRST_MISS else 'caught'
    meta['study'] = {
        'confirmed_in_scratch_worktree': ver == 'VERIFIED',
        'confirmation': 'tools/verify_seeded.sh: demo passes on the unchanged worktree; with patch.diff applied the tree builds (cmake --build), '
                        'tools/baseline_check.py prints missing=0 (439 stable cases), and the demo fails; log in verify.log',
        'check_command': 'tools/apply_seeded.sh seeded/%s/%s %s quick   (git -C /repo apply patch.diff; ./run %s --tier quick; git -C /repo checkout -- .)' % (pid, mid, pid, pid),
        'first_run_of_check': first,
        'strengthening': FIRST_MISS.get((pid, mid), ''),
        'final_check_exit': r.get('exit'),
        'final_violation_signature': sig,
    }
    with open(mp, 'w') as f:
        json.dump(meta, f, indent=1)
    files = ', '.join(meta.get('files', [])) if isinstance(meta.get('files'), list) else str(meta.get('files', ''))
    rows.append((pid, mid, files, (meta.get('summary') or '')[:230].replace('\n', ' ').replace('|', '/'),
                 (meta.get('needs_to_manifest') or '')[:260].replace('\n', ' ').replace('|', '/') if isinstance(meta.get('needs_to_manifest'), str) else json.dumps(meta.get('needs_to_manifest'))[:260].replace('|', '/'),
                 ver, first, r.get('exit'), sig[:110]))

out = ['# Independently seeded changes', '',
       'Each change was produced by a fresh sub-agent that was given only the text of one property and a scratch git worktree of',
       '/repo (nothing from /verif), with the task: break the property while still compiling and passing the existing tests, and need',
       'something specific to manifest. Each was then confirmed here in a scratch worktree (`verify.log`: demo passes unchanged; patched',
       'tree builds, the 439 baseline cases still pass, demo fails) before being run against the property\'s check',
       '(`tools/apply_seeded.sh`: `git -C /repo apply`, `./run <id> --tier quick`, `git -C /repo checkout -- .`). None is committed in /repo.',
       '', '`first run` is the outcome of the check as it stood when the change arrived; where it missed, the check was strengthened',
       '(generator or oracle — never by special-casing the change) and `final` is the outcome now. `tools/seeded_all.sh` re-runs all of them.', '',
       '| property | change | files | what it does | needs to manifest | scratch confirmation | first run | final exit | violation reported |',
       '|---|---|---|---|---|---|---|---|---|']
for r in rows:
    out.append('| %s | %s | %s | %s | %s | %s | %s | %s | `%s` |' % r)
n = len(rows)
caught_first = sum(1 for r in rows if r[6] == 'caught')
caught_final = sum(1 for r in rows if r[7] == 1)
out += ['', '%d changes; %d caught by the checks as they stood, %d after strengthening; %d of %d caught now.' % (n, caught_first, n - caught_first, caught_final, n), '',
        '## Strengthening made for the misses', '']
for (pid, mid), txt in sorted(FIRST_MISS.items()):
    out.append('* **%s/%s** — %s.' % (pid, mid, txt))
open(os.path.join(ROOT, 'seeded', 'README.md'), 'w').write('\n'.join(out) + '\n')
print('\n'.join(out[-12:]))
