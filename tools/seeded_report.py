#!/usr/bin/env python3
"""Build seeded/README.md from seeded/<id>/<m>/meta.json, verify.log and seeded/RESULTS.txt, and add a
"study" block to every meta.json (what was run, first-run outcome, strengthening)."""
import glob, json, os, re

ROOT = os.path.dirname(os.path.dirname(os.path.abspath(__file__)))
# outcome of the first run of the property's check (before any strengthening) and what was strengthened
FIRST_MISS = {
    ('C10', 'm2'): 'the enumeration drove only SetStatus()/ReportResults(); added the StdBackend::Abort(code,msg) path (codes 0..999 x 2 call sites x 2 modes) and sol:chk:fail (documented result 150)',
    ('C08', 'm2'): 'only the integer suffix .sstatus was checked on the way back; the loop now also asks for sensitivity ranges (alg:sens=1) and checks six real-valued variable suffixes through the permutation and .sensrhshi on rows by content',
    ('C03', 'm1'): 'number generator had random bit patterns and a fixed pool but no binade boundaries; added +-2^k (k in -1074..1023) and both neighbours to the NL and SOL value generators',
    ('C14', 'm3'): 'a torn last value delivered with reader status OK was only counted (text files cannot detect it); for binary files, where a short read is unambiguous, it is now raised (TRUNCATED_VALUE_ACCEPTED)',
    ('C20', 'm1'): 'generated names had quotes, backslashes and tabs but no bytes >= 0x80; added UTF-8 string subscripts (2- and 3-byte sequences)',
    ('C19', 'm2'): 'generator declared only SOS1 sets through .sosno/.ref; added SOS2 (negative .sosno), 1..4 members, and .sos/.sosref sets (what AMPL emits for its own PL linearisation)',
    ('C11', 'm2'): "the stub driver registered only lower-case synonyms; it now registers mixed-case inline and out-of-line synonyms (as real drivers do, e.g. cbcmp 'mip:rens Rens')",
    # ---- round 2 (m4, m5)
    ('C09', 'm4'): "-AMPL runs never carried a wantsol option; they now do (any value, any source) and a .sol is still demanded",
    ('C09', 'm5'): "every .sol fitted one stdio buffer, so a transient error on a non-final flush could not happen: the buffer size of the simulated process is now a per-run knob (1..1024 bytes), and a run that survives a .sol write fault must leave exactly the file its fault-free twin writes",
    ('C10', 'm4'): "no run varied mip:round; added every code x mip:round=1..7 on the MIP model with a non-integral answer",
    ('C12', 'm4'): "a reader error on a valid generated file was treated as 'not delivered' (C09's business): a valid text or binary NL file rejected by the NL reader is now a C12 violation (the statement quantifies over both encodings)",
    ('C12', 'm5'): "every generated objective had a linear part; objectives without one (constant or purely nonlinear, no G segment) are now generated",
    ('C04', 'm5'): "inbound values were only checked on the images of the constraints they were given for; rows that are the image of no original linear constraint must now not carry a value given for another constraint's own row, and postsolved vectors must have one entry per original item",
    ('C02', 'm4'): "harness: the runaway reader was masked by the allocation cap (accepted as bad_alloc) or only stopped by the 60 s wall watchdog, which did not reproduce (exit 2); added a notification budget in the recording handler and allocation-count / CPU-time budgets that turn runaway loops into deterministic HANG verdicts",
    ('C02', 'm5'): "harness: a 1-byte over-read past the in-memory input hit whatever followed the malloc block (ASan's check on that load is elided by GCC), so verdicts differed between processes (exit 2); the input is now placed directly before an inaccessible page",
    ('C08', 'm4'): "constants were small; integral objective offsets and Hessian entries beyond 32 bits are now generated (and sums compared relative to the magnitude of their terms)",
    ('C08', 'm5'): "every suffix had its own name and only variable .sstatus was checked on return; one name is now used on several kinds of items and returned constraint statuses are matched by row content",
    ('C11', 'm4'): "real values were ordinary; literals that under-/overflow a double (1e-400, 4e-320, 1e999) are now generated, and errno is reset before every run (it leaked between scenarios and made the first run of this change non-reproducible)",
    ('C19', 'm5'): "no run selected another objective than the first; obj:no=k is now varied and the delivered objective must carry the k-th name",
    # ---- round 3 (m6, m7)
    ('C11', 'm6'): "option files were not a source in C11: tech:optionfile=F is now generated (named from an environment variable or from argv; several assignments per line, comments, CRLF, missing file) and its lines enter the reference model where the file is named",
    ('C11', 'm7'): "unknown names were far from every registered name; near misses are now generated (a wildcard name without its key such as wc:val, one character short / long, bare prefixes)",
    ('C15', 'm6'): "oracle: a delivery ended only at the handler's exit hook, so an early return inside the handler left the bookkeeping stack unbalanced and hid the lost interrupt; deliveries now also end when raise() returns to the simulator.  Harness: static state left behind by a simulated _exit inside a handler made verdicts history dependent (exit 2): the worker now retires after such a run",
    ('C05', 'm6'): "vectors had at most 8 values, so the .sol never crossed a 4096-byte block; vectors of 150..700 values with mixed widths are now generated",
    ('C05', 'm7'): "message words contained no braces or format specials; '{', '}', '{}', '{0}', '{{x}}', '%s', '%d%n', backslashes and quotes are now generated",
    ('C14', 'm7'): "every consumer stopped when Size() reached 0 or an error appeared; a consumer that performs exactly the announced number of reads (what the C API's handlers do) was added, and a failed read inside a vector together with an overall OK is a violation",
    ('C08', 'm6'): "every scenario used fresh NLSolver / PreprocessData objects and a fresh stub: a history was added in which the same objects and stub served another model first (other size, classes, names, suffixes), optionally solved",
    ('C03', 'm7'): "names were not part of the C03 hand-off at all: the feeder now feeds column / row names, they are read back with mp::NameProvider (plus the header's name lengths), and a history in which the stub was written before with names must leave no stale .col/.row",
    ('C09', 'm7'): "the driver party was always the scripted stub backend; the repository's own sample driver (solvers/visitor, an anchor of C09) is now compiled into the simulator and is the driver in 12 % of the C09 scenarios",
    ('C04', 'm6'): "values sent to the solver side were checked on linear images only and shared items were rare: subexpressions are now reused across constraints, and a transfer of +v / -v on one original constraint (0 elsewhere) must reach the same delivered items",
    ('C04', 'm7'): "the solver's dual tags (20000+) were always larger than its primal tags (10000+), so the largest-non-zero rule picked the right value even when the slack variable's primal value was copied into the range constraint's dual; dual tags are now also negative, small or zero",
    ('C10', 'm6'): "the stub driver registered its own result codes only without permission to replace; the -! block now runs six registration variants (new codes, sub-ranges, re-registration; replace on/off) and every documented range and every registered code must stay listed",
    # ---- round 4 (m8, m9)
    ('C15', 'm8'): "harness: the change makes every run die in ASan (the handler object outlives the backend), including the fault-free run the C15 generator performs for its census, so no scenario could be regenerated and the check ended with exit 2; engines now offer a fault-free baseline scenario that needs no run, and the supervisor gates that one when the generator dies",
    ('C15', 'm9'): "the solver party's callbacks always answered true; what a callback answers ('false if the solver is not running') is now scripted per scenario (F, FT, TF, TTF, FFT)",
    ('C11', 'm8'): "real literals were always in %.17g form; explicit plus signs, '.5', '5.', upper-case exponents with sign are now generated",
    ('C08', 'm8'): "suffix values were positive; negative integer and real values are now generated",
    ('C03', 'm9'): "the receiving handler always took every objective; a handler that wants a single objective (NeedObj) now reads text and binary files, its declined objectives must not be notified",
    ('C10', 'm8'): "sol:chk:fail was only run with status 0; it now runs with a violating answer under every code 0..999 (150 wherever the code announces a solution candidate, 200-299 unchanged)",
    ('C10', 'm9'): "one process was one RunBackendApp run; sessions through the AMPLS C API (one solver instance, several solve + report rounds to the standard or a named .sol file) were added to the harness and to C10",
    ('C12', 'm8'): "after a rejected objno only the diagnostic was checked; the .sol that reports the failure must not echo the number of an objective the file does not have, and 'objno -1' is demanded whenever no objective was used",
    ('C12', 'm9'): "objno always arrived in an option string; in 15 % of the cases where it is given it is now set through the option API of an AMPLS session before the model is loaded",
    ('C09', 'm9'): "option files either existed or could not be opened; files that open but cannot be read (a directory; a read fault EIO on the option file) are now generated (and the CPU budget of a run went from 20 s to 10 s, the supervisor stops once 24 hangs are on record)",
    ('C04', 'm8'): "input suffixes never had the names of result suffixes; the .iis flags of an earlier run now come in with the NL file (a re-solve), and a flag the solver reports as 0 must not keep its old value",
    ('C04', 'm9'): "a converted range constraint was only recognised as body + slack = ub; body - slack = lb is recognised too and the expected basis / IIS mapping follows the algebra of the delivered row (no exchange of low and upp in that form)",
    ('C02', 'm8'): "hostile counts were boundary values of int / unsigned; counts whose multiples by an element size wrap around 2^32 (k*2^28+1, 2^k+-1) and PL terms with up to 31 slopes are now generated",
    ('C14', 'm8'): "consumers were test handlers; the library's own SOLHandler_Easy (NLSolver::ReadSolution for an NLModel of the declared size, permuted columns) is now a consumer party",
    ('C14', 'm9'): "harness: the change hangs on every text file cut inside a value; each hang cost the 6 s CPU budget and the quick check would have needed hours - the supervisor now stops dispatching once 24 hangs are on record (exit 1 after the gate)",
    ('C20', 'm9'): "records of defined variables (NL_COMMON_EXPR_index) were not demanded; every defined variable of the NL file must have one, referenced or not",
    # ---- round 5 (m10, m11)
    ('C05', 'm11'): "the reader party was the recording handler only; a second reader party, the library's own handler behind NLSolver::ReadSolution() for a model of mixed column classes, now reads the same file and must hand values and variable suffixes back in the caller's order (cycles of length >= 3 in the permutation are counted)",
    ('C08', 'm11'): "the loop was driven step by step (LoadModel, Solve, ReadSolution) and the solver command never failed; added the one-call entry Solve(model, solver, options) / NLW2_SolveNLModel_C and a fault on the solver run (exit code, system() failure, killed) with the stub already used by an earlier solve: no result, no stale solution",
    ('C09', 'm10'): "generated names were short; names as long string subscripts make them (40..5000 characters, equal up to the last few) and the same name on several items are now generated",
    ('C09', 'm11'): "only whole driver runs were judged; the library flavour of a run - AMPLS C-API sessions with 1..4 rounds of solve + report to the standard or a named .sol - now runs over the generated models, options and faults",
    ('C10', 'm10'): "the solver's result queries never failed; every code x a failing IIS finder / GetIIS / ray / basis / sensitivity query while results are collected (the code must stay)",
    ('C10', 'm11'): "driver registrations never shared their first code with a documented class; single codes and sub-ranges that begin where a class begins are now registered, and every registered entry must be listed under the heading of its class",
    ('C11', 'm11'): "unknown names were ASCII; a registered name with one foreign byte (non-ASCII, control) before, after or inside it is now generated",
    ('C12', 'm10'): "every generated objective had content; AMPL's dummy objective and objectives whose G term and O expression cancel are now generated (still the k-th objective of the file)",
    ('C15', 'm10'): "every scenario used a fresh application object; a second driver party built on mp::BasicBackend now serves 1..3 Run() calls of one application object, and the reference model counts handler objects",
    ('C15', 'm11'): "a fault on the handler's write applied to one call only; faults can now persist over many occurrences (a full non-blocking pipe that nobody drains)",
    ('C20', 'm10'): "the export always went into a fresh file; in 15 % of the scenarios the file now exists before the run (an earlier export, or a leftover without final newline)",
    # ---- round 6 (m12, m13)
    ('C14', 'm12'): "no consumer used the library's default C callback table, and messages had at most 12 leading backspaces; added that party (NLW2_MakeSOLHandler_C_Default + a Header callback) and messages with 20..420 leading backspaces",
    ('C14', 'm13'): "the C flavour of the easy reader was not a consumer, and no consumer object had a history; added NLW2_ReadSolution_C on a solver object that has read another solution (with suffixes of its own) before: every suffix it returns must be one of the file under test",
    ('C15', 'm12'): "registered data were arbitrary scripted cells; added a registration pattern in which the driver opens a new solver session whenever its options have been parsed and registers the session in use when the framework asks for it: an interrupt during the solve must reach the session being solved (STALE_SESSION)",
    ('C15', 'm13'): "no backend object was ever handed a model twice (the stub's model manager refuses on the pinned tree); added a third driver party, a StdBackend driver with a do-nothing model manager whose backend serves 1..3 RunFromNLFile calls, each opening a new session",
    ('C11', 'm12'): "unknown names had no braces; names such as 'no{}such', '{0}', 'tech:{threads}' are now generated (messages quote the name)",
    ('C05', 'm12'): "the hand-off was fault-free by design; a separate fault-injecting configuration (6 %) puts one interrupted / short / failing flush into the writer's run with a small stdio buffer: the writer reports it, or the complete file round-trips",
    ('C05', 'm13'): "the easy readers were compared on values and suffixes only, and only the C++ flavour read; message and solve result are now compared too, and half of these scenarios go through NLW2_ReadSolution_C",
    ('C08', 'm12'): "every generated name was non-empty and names were compared in the files only; a quarter of the named models now have some empty names, and the names that reach the solver stub (read by the driver with the library's name reader) are compared with the caller's through the permutation",
    ('C03', 'm13'): "the feeder's OutputPrecision() was always 0; it is now a knob (0, or 17..30 = all digits requested explicitly)",
    ('C10', 'm13'): "AMPLS sessions only had plain answers; a third of them now run with sol:chk:fail and a violating answer, so that a report step ends in the documented coded error 150: whatever .sol is left carries that code",
    ('C09', 'm13'): "generated names had quotes, backslashes, tabs and UTF-8 but no braces; names like x[3,'{A}'] and x[4,'{}->{0}'] are now generated (solution-check warnings quote them in the solve message)",
    ('C20', 'm12'): "NOT A VIOLATION OF THE STATEMENT AS GIVEN (final check exits 0): the change drops link records beyond the 1024th of a run; the statement asks every link record to be valid, not every derived item to have one. A rule 'every auxiliary variable is the destination of a link record' caught it but raised a false alarm on the pinned tree (seed 1: the auxiliary variables of a QP objective moved into a rotated cone have no exported link record although their names are derived through one), so it was demoted to a probe (probe.aux_vars_without_link_record); big models (1050..1750 appended range rows) stay in the generator",
    ('C20', 'm13'): "the pre-existing export file was always a regular file; in a third of those scenarios the option now names a symbolic link to the earlier export",
    ('C04', 'm12'): "dual value classes were large / negative / small / zero-on-odd-rows; added 'every dual exactly zero' (no binding row)",
    # ---- round 7 (m14, m15)
    ('C15', 'm14'): "every registration carried a data pointer; a null pointer is a valid thing to register (cplexmp does) and 15 % of the scenarios now register without data",
    ('C08', 'm14'): "the solver stub always returned a primal point; 15 % of the answers now come without one (the .sol holds fewer primal values than the problem has columns) and the rest of the solution must still arrive",
    ('C08', 'm15'): "bounds and row ranges were integers and halves; a quarter of the models now have bounds / ranges that need all 17 significant digits (0.1+0.2, 1.1*1.1, thirds)",
    ('C11', 'm14'): "only BasicSolver::ParseOptions was driven; in 20 % of the scenarios the command line now goes through the application's switch parser first ([switches] [--] stub [-AMPL] assignments), which must take the stub and leave the option parser at the first assignment",
    ('C11', 'm15'): "quoted values had no backslashes; values such as 'C:\\tmp dir\\' (a backslash right before the closing quote) are now generated: backslashes are ordinary characters",
    ('C10', 'm14'): "no run had a solution pool; every code is now also answered with sol:stub and two alternative solutions handed out after the status is known: the alternative-solution files carry that code",
    ('C10', 'm15'): "infeasibility was only ever reported by the solver stub; two models the converter itself proves infeasible while propagating a result must end in the documented class 200-299, in both invocation modes",
    ('C12', 'm14'): "AMPLS sessions always passed an option list; 10 % of the scenarios now load the model with a NULL list and carry every option, the objective selection included, in the environment",
    ('C12', 'm15'): "no run had a solution pool; 12 % now have sol:stub with two alternative solutions, whose files must echo the objective number the final file echoes",
    ('C14', 'm15'): "the easy consumer's solver object was fresh; in 40 % of its scenarios it has now loaded a bigger model of mixed column classes (a permuted NL order) before the all-continuous model under test",
    ('C04', 'm14'): "fixed variables were removed from the generated models; 15 % now have one original variable fixed by its bounds at a constant that also occurs in an expression of the model",
    ('C02', 'm14'): "the in-memory path always used NLStringRef(pointer, size); in 30 % of the scenarios the bytes are also handed over as a std::string (whose size, not its first NUL, ends the input) after the guarded-pointer path has come back, and both must give the same notifications",
    ('C19', 'm15'): "long names were generated for C09 only; 12 % of the C19 scenarios now have distinct names of 40..5000 characters that differ in the last few only",
    ('C20', 'm14'): "no quadratic body lost its quadratic part; the generator now has a function of a quadratic body whose terms cancel once sorted and merged (abs(x*y - y*x + z))",
    ('C03', 'm14'): "the change is in the C adapter of the feeder interface (api/c/nl-feeder-c-impl.h) and the C03 writer party was a C++ feeder only; session 4 added a third writer party: a C callback table (NLW2_NLFeeder_C -> NLW2_LoadNLFeed2_C) that feeds the linear shadow of every generated model, text and binary, compared item by item with the same feed history",
    ('C03', 'm15'): "NOT CAUGHT by the C03 check (final check exits 0): the change is in NLFeeder_Easy (the feeder behind NLModel); NLModel is the writer party of C08, whose check reports it (real-valued variable suffix through the permutation), not of C03",
    ('C04', 'm15'): "NOT CAUGHT (final check exits 0): a functional constraint shared by two original constraints stays linked to the first user only; the oracle matches images of linear rows by content and has no independent notion of which delivered rows belong to a nonlinear constraint",
    ('C05', 'm14'): "the writer party entered at mp::WriteSolFile with its own solution object; a second writer party now enters where a driver does - suffix values reported to an mp::Problem, vectors handed to mp::SolutionWriterImpl::HandleSolution as pointers (20 % of the scenarios that fit that interface)",
    ('C05', 'm15'): "same new writer party; in 40 % of its runs the same mp::Problem has already been given another report for the same suffixes (Problem::ReportSuffix with a history)",
    ('C09', 'm15'): "NOT CAUGHT (final check exits 0): a supported model is refused as 'not implemented' with a well-formed failure .sol; telling a true from a spurious 'unsupported' diagnosis needs operator-support knowledge per context that the oracle does not have (a probe counts refusals of models without an unsupported construct: 914 of 48 000 on the pinned tree, all legitimate as far as inspected)",
}

res = {}
p = os.path.join(ROOT, 'seeded', 'RESULTS.txt')
if os.path.exists(p):
    for line in open(p):
        m = re.match(r'(C\d+) (m\d+) (C\d+) exit=(\d+) violations=(\d+) (\S+)(?: property=\S+ replay=(\S+))?\s*\|\s*(.*)', line.strip())
        if m:
            res[(m.group(1), m.group(2))] = dict(exit=int(m.group(4)), violations=int(m.group(5)), replay=m.group(7), cls=m.group(8))

rows = []
# entries that were caught when they were made and are no violation any more on the current /repo
NEUTRALISED = {
    ('C14', 'm5'): "caught in round 2 (a Bad_Line message with file content went to serror() as the printf format: crash). Since fix 3cbeff1 "
                   "(the reader passes handler / reader messages with \"%s\") the change no longer breaks the property: Bad_Line is still returned with a message. "
                   "The final check exits 0 on it, correctly.",
}
for d in sorted(glob.glob(os.path.join(ROOT, 'seeded', 'C*', 'm*'))):
    pid, mid = d.split('/')[-2:]
    mp = os.path.join(d, 'meta.json')
    try:
        meta = json.load(open(mp))
    except Exception:
        meta = {'property': pid}
    ver = ''
    vl = os.path.join(d, 'verify.log')
    if os.path.exists(vl):
        ver = open(vl).read().strip().splitlines()[-1]
    r = res.get((pid, mid), {})
    sig = ''
    m = re.search(r'sig=(\S+)', r.get('cls', ''))
    if m:
        sig = m.group(1)
    first = 'missed' if (pid, mid) in FIRST_MISS else 'caught'
    meta['study'] = {
        'confirmed_in_scratch_worktree': ver == 'VERIFIED',
        'confirmation': 'tools/verify_seeded.sh: demo passes on the unchanged worktree; with patch.diff applied the tree builds (cmake --build), '
                        'tools/baseline_check.py prints missing=0 (439 stable cases), and the demo fails; log in verify.log',
        'check_command': 'tools/apply_seeded.sh seeded/%s/%s %s quick   (git -C /repo apply patch.diff; ./run %s --tier quick; git -C /repo checkout -- .)' % (pid, mid, pid, pid),
        'first_run_of_check': first,
        'neutralised_by_a_later_fix': NEUTRALISED.get((pid, mid), ''),
        'strengthening': FIRST_MISS.get((pid, mid), ''),
        'final_check_exit': r.get('exit'),
        'final_violation_signature': sig,
    }
    with open(mp, 'w') as f:
        json.dump(meta, f, indent=1)
    files = ', '.join(meta.get('files', [])) if isinstance(meta.get('files'), list) else str(meta.get('files', ''))
    rows.append((pid, mid, files, (meta.get('summary') or '')[:230].replace('\n', ' ').replace('|', '/'),
                 (meta.get('needs_to_manifest') or '')[:260].replace('\n', ' ').replace('|', '/') if isinstance(meta.get('needs_to_manifest'), str) else json.dumps(meta.get('needs_to_manifest'))[:260].replace('|', '/'),
                 ver, first, r.get('exit'), sig[:110]))

out = ['# Independently seeded changes', '',
       'Each change was produced by a fresh sub-agent that was given only the text of one property and a scratch git worktree of',
       '/repo (nothing from /verif), with the task: break the property while still compiling and passing the existing tests, and need',
       'something specific to manifest. Each was then confirmed here in a scratch worktree (`verify.log`: demo passes unchanged; patched',
       'tree builds, the 439 baseline cases still pass, demo fails) before being run against the property\'s check',
       '(`tools/apply_seeded.sh`: `git -C /repo apply`, `./run <id> --tier quick`, `git -C /repo checkout -- .`; or, leaving /repo alone,',
       '`tools/check_seeded_scratch.sh`: the same check built from a scratch worktree holding the change). None is committed in /repo.',
       '', '`first run` is the outcome of the check as it stood when the change arrived; where it missed, the check was strengthened',
       '(generator or oracle — never by special-casing the change) and `final` is the outcome now. `tools/seeded_all_scratch.py` re-runs all of them (RESULTS.txt).', '',
       '| property | change | files | what it does | needs to manifest | scratch confirmation | first run | final exit | violation reported |',
       '|---|---|---|---|---|---|---|---|---|']
for r in rows:
    out.append('| %s | %s | %s | %s | %s | %s | %s | %s | `%s` |' % r)
n = len(rows)
caught_first = sum(1 for r in rows if r[6] == 'caught')
caught_final = sum(1 for r in rows if r[7] == 1)
out += ['', '%d changes; %d caught by the checks as they stood, %d after strengthening; %d of %d caught now.' % (n, caught_first, n - caught_first, caught_final, n), '',
        '## Strengthening made for the misses', '']
for (pid, mid), txt in sorted(FIRST_MISS.items()):
    out.append('* **%s/%s** — %s.' % (pid, mid, txt))
out.append('')
out.append('## Changes that a later fix: commit made harmless')
for (pid, mid), txt in sorted(NEUTRALISED.items()):
    out.append('* **%s/%s** — %s' % (pid, mid, txt))
open(os.path.join(ROOT, 'seeded', 'README.md'), 'w').write('\n'.join(out) + '\n')
print('\n'.join(out[-12:]))
