#!/bin/sh
# usage: tools/show.sh <engine> <prop> <index> [seed] [tier]  -- regenerate scenario <index>, run it with a dump
E=$1; P=$2; I=$3; S=${4:-20260926}; T=${5:-quick}
F=/dev/shm/show.$$.json
/verif/build/$E gen --prop $P --tier $T --seed $S --start $I --count 1 --emit-only | sed 's/^SCEN [0-9]* //' | grep '^{' > $F
python3 - $F <<'PY'
import json,sys
j=json.load(open(sys.argv[1]))
print('label',j.get('label'),'| argv',j.get('argv'),'| env',j.get('env'),'| script',j.get('script'),'| faults',j.get('faults'),'| signals',j.get('signals'),'| model',j.get('model'), '| names_mode', j.get('names_mode'))
PY
VERIF_DUMP=1 /verif/build/$E replay $F 2>&1
rm -f $F
