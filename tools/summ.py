#!/usr/bin/env python3
"""Summarise a worker 'gen' output: counts per verdict/signature with one example each."""
import sys, json, collections
c = collections.Counter(); ex = {}; runs = 0
for l in sys.stdin:
    if l.startswith('R '): runs += 1
    elif l.startswith('V '):
        j = json.loads(l.split(' ', 2)[2])
        s = j['result']['sig']; c[s] += 1
        ex.setdefault(s, (j['index'], j['result']['detail'][:300]))
    elif l.startswith('STATS '):
        st = json.loads(l[6:]); st.pop('samples', None)
        print('STATS', json.dumps(st)[:1500])
    elif l.startswith('TERMINATE'): print(l.strip())
print('runs', runs, 'violations', sum(c.values()))
for s, n in sorted(c.items()): print(' ', n, s, ex[s])
