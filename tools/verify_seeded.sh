#!/bin/bash
# usage: tools/verify_seeded.sh <scratch-worktree> <mutant-dir> '<demo command>'
# Independent confirmation of a seeded change in a scratch worktree (never /repo):
#   1. unchanged worktree: demo must pass (exit 0)
#   2. patch applied: must build (cmake --build), the baseline test comparison must print missing=0,
#      demo must fail (exit != 0)
#   3. worktree restored
# Everything is logged to <mutant-dir>/verify.log; the last line printed is VERIFIED or NOT-VERIFIED <why>.
W=$1; D=$(readlink -f "$2"); CMD=$3
L=$D/verify.log; : > $L
say() { echo "$@" | tee -a $L; }
cd $W || exit 3
[ -z "$(git status --porcelain --untracked-files=no)" ] || { say "NOT-VERIFIED worktree not clean"; exit 3; }
say "== unchanged tree: $CMD"
( cd $D && eval "$CMD" ) >> $L 2>&1; rc0=$?
say "   exit=$rc0"
git apply $D/patch.diff || { say "NOT-VERIFIED patch does not apply"; exit 3; }
say "== patched: build"
cmake --build $W/_build -j8 >> $L 2>&1; rcb=$?
say "   build exit=$rcb"
say "== patched: baseline"
python3 /verif/tools/baseline_check.py $W/_build 2>&1 | tail -3 | tee -a $L | grep -q 'missing=0'; rct=$?
say "   baseline missing=0: $([ $rct = 0 ] && echo yes || echo NO)"
say "== patched: $CMD"
( cd $D && eval "$CMD" ) >> $L 2>&1; rc1=$?
say "   exit=$rc1"
git checkout -- .
if [ $rc0 = 0 ] && [ $rcb = 0 ] && [ $rct = 0 ] && [ $rc1 != 0 ]; then say VERIFIED; else say "NOT-VERIFIED rc0=$rc0 build=$rcb baseline=$rct rc1=$rc1"; fi
